//! C06 correspondence: the real `vector_engine::VectorEngine` (default + named collections,
//! metadata filters and updates, batch stores, pagination, every metric, cached HNSW index) and
//! the real `tensor_store::HNSWIndex` (stream `hnsw`: insert by insert, search by search, node id
//! for node id) against the Lean model `drv_vec`, plus property oracles evaluated on the engine's
//! own outputs against a brute-force computation done here in exact integer arithmetic.
//! Streams `directed.ns.*` / `ns`: the storage-key layer (key prefixes, cache slot names) on
//! colliding key / collection-name strings against `NsModel.lean`; they run first.
//!
//! Vectors are integer valued (|x| <= 64, dim <= 16): every f32 product / sum the engine
//! performs is then exact, and the remaining rounded operations (sqrt, one multiply, one
//! divide) are recomputed here in the same order, so scores are compared bit for bit
//! (fallback: 1e-5 tolerance, counted separately and labelled not-proof).
use nverif::*;
use serde_json::{json, Value};
use std::cmp::Ordering;
use std::collections::{BTreeMap, BTreeSet, HashMap};
use std::panic::AssertUnwindSafe;
use std::sync::Arc;
use tensor_store::{EmbeddingStorage, HNSWDistanceMetric, ScalarValue, SparseVector, TensorValue};
use vector_engine::{
    DistanceMetric, EmbeddingInput, ExtendedDistanceMetric, FilterCondition, FilterValue, FilteredSearchConfig,
    HNSWBuildOptions, HNSWConfig, HNSWIndex, HNSWStorageStrategy, Pagination, VectorCollectionConfig, VectorEngine,
    VectorEngineConfig, VectorError,
};

type Md = Vec<(String, i64)>;

#[derive(Clone, Copy, PartialEq, Debug)]
enum Metric {
    Cos,
    Euc,
    Dot,
}
impl Metric {
    fn name(self) -> &'static str {
        match self {
            Metric::Cos => "cosine",
            Metric::Euc => "euclid",
            Metric::Dot => "dot",
        }
    }
    fn real(self) -> DistanceMetric {
        match self {
            Metric::Cos => DistanceMetric::Cosine,
            Metric::Euc => DistanceMetric::Euclidean,
            Metric::Dot => DistanceMetric::DotProduct,
        }
    }
    fn parse(s: &str) -> Metric {
        match s {
            "euclid" => Metric::Euc,
            "dot" => Metric::Dot,
            _ => Metric::Cos,
        }
    }
    /// the metric of an HNSW index that answers for a collection of this metric
    fn hnsw(self) -> HNSWDistanceMetric {
        match self {
            Metric::Cos => HNSWDistanceMetric::Cosine,
            Metric::Euc => HNSWDistanceMetric::Euclidean,
            Metric::Dot => HNSWDistanceMetric::DotProduct,
        }
    }
}

/// how a vector gets into an HNSW index (Lean: `NodeStorage`)
#[derive(Clone, Copy, PartialEq, Debug)]
enum St {
    /// `HNSWIndex::insert` / `HNSWStorageStrategy::Dense`
    Dense,
    /// `HNSWIndex::insert_auto` / `HNSWStorageStrategy::Auto`
    Auto,
    /// `HNSWIndex::insert_sparse(SparseVector::from_dense(v))`
    Sparse,
}
impl St {
    fn name(self) -> &'static str {
        match self {
            St::Dense => "dense",
            St::Auto => "auto",
            St::Sparse => "sparse",
        }
    }
}
fn insert_st(idx: &HNSWIndex, v: Vec<f32>, st: St) -> usize {
    match st {
        St::Dense => idx.insert(v),
        St::Auto => idx.insert_auto(v),
        St::Sparse => idx.insert_sparse(SparseVector::from_dense(&v)),
    }
}

#[derive(Clone, Debug)]
enum F {
    T,
    Cmp(&'static str, String, i64),
    Ex(String),
    In(String, Vec<i64>),
    And(Box<F>, Box<F>),
    Or(Box<F>, Box<F>),
}
impl F {
    fn rpn(&self) -> String {
        match self {
            F::T => "T".into(),
            F::Cmp(c, f, v) => format!("{c}:{f}:{v}"),
            F::Ex(f) => format!("ex:{f}"),
            F::In(f, vs) => format!("in:{f}:{}", vs.iter().map(|v| v.to_string()).collect::<Vec<_>>().join("|")),
            F::And(a, b) => format!("{};{};and", a.rpn(), b.rpn()),
            F::Or(a, b) => format!("{};{};or", a.rpn(), b.rpn()),
        }
    }
    fn cond(&self) -> FilterCondition {
        match self {
            F::T => FilterCondition::True,
            F::Cmp(c, f, v) => {
                let (f, v) = (f.clone(), FilterValue::Int(*v));
                match *c {
                    "eq" => FilterCondition::Eq(f, v),
                    "ne" => FilterCondition::Ne(f, v),
                    "lt" => FilterCondition::Lt(f, v),
                    "le" => FilterCondition::Le(f, v),
                    "gt" => FilterCondition::Gt(f, v),
                    _ => FilterCondition::Ge(f, v),
                }
            }
            F::Ex(f) => FilterCondition::Exists(f.clone()),
            F::In(f, vs) => FilterCondition::In(f.clone(), vs.iter().map(|v| FilterValue::Int(*v)).collect()),
            F::And(a, b) => a.cond().and(b.cond()),
            F::Or(a, b) => a.cond().or(b.cond()),
        }
    }
    /// the harness's own reading of the filter (oracle side; independent of the Lean model)
    fn eval(&self, md: &Md) -> bool {
        let get = |f: &str| md.iter().find(|(k, _)| k == f).map(|(_, v)| *v);
        match self {
            F::T => true,
            F::Cmp(c, f, v) => match get(f) {
                None => false,
                Some(x) => match *c {
                    "eq" => x == *v,
                    "ne" => x != *v,
                    "lt" => x < *v,
                    "le" => x <= *v,
                    "gt" => x > *v,
                    _ => x >= *v,
                },
            },
            F::Ex(f) => get(f).is_some(),
            F::In(f, vs) => get(f).map_or(false, |x| vs.contains(&x)),
            F::And(a, b) => a.eval(md) && b.eval(md),
            F::Or(a, b) => a.eval(md) || b.eval(md),
        }
    }
}

#[derive(Clone, Copy, Debug, PartialEq)]
enum Strat {
    Auto,
    Pre,
    Post,
}
impl Strat {
    fn name(self) -> &'static str {
        match self {
            Strat::Auto => "auto",
            Strat::Pre => "pre",
            Strat::Post => "post",
        }
    }
}

#[derive(Clone, Debug)]
enum Op {
    Store { key: String, v: Vec<i64> },
    StoreMeta { key: String, v: Vec<i64>, md: Md },
    Del { key: String },
    BatchDel { keys: Vec<String> },
    Clear,
    /// `via_engine`: `build_and_cache_index`; otherwise its two halves `build_hnsw_index` +
    /// `cache_hnsw_index("_default", ..)` so that the harness keeps a handle on the index
    /// `st`: node storage of the index built by the harness's half (`build_hnsw_index_with_options`)
    Build { via_engine: bool, st: St },
    Create { c: String, dim: Option<usize>, m: Metric },
    Drop { c: String },
    CStore { c: String, key: String, v: Vec<i64>, md: Md },
    CDel { c: String, key: String },
    /// `st`: how the harness, as the owner of the index, inserts the collection's vectors
    CBuild { c: String, st: St },
    Get { key: String },
    CGet { c: String, key: String },
    Search { q: Vec<i64>, k: usize },
    SearchM { m: Metric, q: Vec<i64>, k: usize },
    SearchF { q: Vec<i64>, k: usize, strat: Strat, os: usize, f: F },
    CSearch { c: String, q: Vec<i64>, k: usize },
    CSearchF { c: String, q: Vec<i64>, k: usize, strat: Strat, os: usize, f: F },
    UpdMeta { key: String, md: Md },
    RmField { key: String, field: String },
    BatchStore { inputs: Vec<(String, Vec<i64>)> },
    /// `search_similar_paginated(q, k, Pagination { skip, limit, count_total: true })`
    SearchP { q: Vec<i64>, k: usize, skip: usize, limit: Option<usize> },
    /// `build_hnsw_index_with_options(storage st, default config with distance metric m)` over the
    /// default collection, then `search_with_hnsw` (`rerank`: `search_with_hnsw_and_metric(.., Cosine)`,
    /// only with `m` = cosine) on the index and key list it returned
    HSearch { q: Vec<i64>, k: usize, rerank: bool, m: Metric, st: St },
    /// harness-internal (never sent to the model): `invalidate_hnsw_cache`, used only to confirm
    /// that a violation is caused by a stale cache before charging it to a mutation
    Invalidate { c: Option<String> },
}

fn ints(v: &[i64]) -> String {
    if v.is_empty() {
        "-".into()
    } else {
        v.iter().map(|x| x.to_string()).collect::<Vec<_>>().join(",")
    }
}
fn mds(md: &Md) -> String {
    if md.is_empty() {
        "-".into()
    } else {
        md.iter().map(|(k, v)| format!("{k}={v}")).collect::<Vec<_>>().join(";")
    }
}
fn keys_s(ks: &[String]) -> String {
    if ks.is_empty() {
        "-".into()
    } else {
        ks.join(",")
    }
}

impl Op {
    fn line(&self) -> String {
        match self {
            Op::Store { key, v } => format!("store {key} {}", ints(v)),
            Op::StoreMeta { key, v, md } => format!("storem {key} {} {}", ints(v), mds(md)),
            Op::Del { key } => format!("del {key}"),
            Op::BatchDel { keys } => format!("bdel {}", keys_s(keys)),
            Op::Clear => "clear".into(),
            Op::Build { .. } => "build".into(),
            Op::Create { c, dim, m } => format!("create {c} {} {}", dim.map_or("-".to_string(), |d| d.to_string()), m.name()),
            Op::Drop { c } => format!("drop {c}"),
            Op::CStore { c, key, v, md } => format!("cstore {c} {key} {} {}", ints(v), mds(md)),
            Op::CDel { c, key } => format!("cdel {c} {key}"),
            Op::CBuild { c, .. } => format!("cbuild {c}"),
            Op::Get { key } => format!("get {key}"),
            Op::CGet { c, key } => format!("cget {c} {key}"),
            Op::Search { q, k } => format!("search {} {k}", ints(q)),
            Op::SearchM { m, q, k } => format!("searchm {} {} {k}", m.name(), ints(q)),
            Op::SearchF { q, k, strat, os, f } => format!("searchf {} {k} {} {os} {}", ints(q), strat.name(), f.rpn()),
            Op::CSearch { c, q, k } => format!("csearch {c} {} {k}", ints(q)),
            Op::CSearchF { c, q, k, strat, os, f } => format!("csearchf {c} {} {k} {} {os} {}", ints(q), strat.name(), f.rpn()),
            Op::UpdMeta { key, md } => format!("updm {key} {}", mds(md)),
            Op::RmField { key, field } => format!("rmf {key} {field}"),
            Op::BatchStore { inputs } => format!(
                "bstore {}",
                if inputs.is_empty() { "-".to_string() } else { inputs.iter().map(|(k, v)| format!("{k}:{}", ints(v))).collect::<Vec<_>>().join(";") }
            ),
            Op::SearchP { q, k, skip, limit } => format!("searchp {} {k} {skip} {}", ints(q), limit.map_or("-".to_string(), |l| l.to_string())),
            Op::HSearch { q, k, m: Metric::Cos, st: St::Dense, .. } => format!("hwith {} {k}", ints(q)),
            Op::HSearch { q, k, m, st, .. } => format!("hwithm {} {} {} {k}", m.name(), st.name(), ints(q)),
            Op::Invalidate { .. } => "noop".into(),
        }
    }
    fn tag(&self) -> &'static str {
        match self {
            Op::Store { .. } => "store_embedding",
            Op::StoreMeta { .. } => "store_embedding_with_metadata",
            Op::Del { .. } => "delete_embedding",
            Op::BatchDel { .. } => "batch_delete_embeddings",
            Op::Clear => "clear",
            Op::Build { .. } => "build_and_cache_index",
            Op::Create { .. } => "create_collection",
            Op::Drop { .. } => "delete_collection",
            Op::CStore { .. } => "store_in_collection",
            Op::CDel { .. } => "delete_from_collection",
            Op::CBuild { .. } => "cache_hnsw_index",
            Op::Get { .. } => "get_embedding",
            Op::CGet { .. } => "get_from_collection",
            Op::Search { .. } => "search_similar",
            Op::SearchM { .. } => "search_similar_with_metric",
            Op::SearchF { .. } => "search_similar_filtered",
            Op::CSearch { .. } => "search_in_collection",
            Op::CSearchF { .. } => "search_filtered_in_collection",
            Op::UpdMeta { .. } => "update_metadata",
            Op::RmField { .. } => "remove_metadata_field",
            Op::BatchStore { .. } => "batch_store_embeddings",
            Op::SearchP { .. } => "search_similar_paginated",
            Op::HSearch { rerank: false, .. } => "search_with_hnsw",
            Op::HSearch { rerank: true, .. } => "search_with_hnsw_and_metric",
            Op::Invalidate { .. } => "invalidate_hnsw_cache",
        }
    }
    /// changes stored vectors / keys (metadata-only updates do not: the index stays valid)
    fn is_mutation(&self) -> bool {
        matches!(
            self,
            Op::Store { .. } | Op::StoreMeta { .. } | Op::Del { .. } | Op::BatchDel { .. } | Op::Clear | Op::Drop { .. } | Op::CStore { .. } | Op::CDel { .. } | Op::BatchStore { .. }
        )
    }
}

// ------------------------------------------------------------------ exact arithmetic

fn dot(a: &[i64], b: &[i64]) -> i64 {
    a.iter().zip(b).map(|(x, y)| x * y).sum()
}
fn nsq(a: &[i64]) -> i64 {
    dot(a, a)
}
fn sqd(a: &[i64], b: &[i64]) -> i64 {
    a.iter().zip(b).map(|(x, y)| (x - y) * (x - y)).sum()
}
/// exact ingredients (p, r) as in the Lean `Score`
fn ingredients(m: Metric, q: &[i64], v: &[i64]) -> (i64, i64) {
    match m {
        Metric::Cos => (dot(q, v), nsq(v)),
        Metric::Dot => (dot(q, v), 0),
        Metric::Euc => (sqd(q, v), 0),
    }
}
/// ranking key as a fraction num/den, den > 0, larger is better
fn key(m: Metric, p: i64, r: i64) -> (i128, i128) {
    match m {
        Metric::Cos => {
            if r <= 0 {
                (0, 1)
            } else {
                (i128::from(p) * i128::from(p.abs()), i128::from(r))
            }
        }
        Metric::Dot => (i128::from(p), 1),
        Metric::Euc => (-i128::from(p), 1),
    }
}
fn key_cmp(a: (i128, i128), b: (i128, i128)) -> Ordering {
    (a.0 * b.1).cmp(&(b.0 * a.1))
}
/// the score as a real number (f64 is only used to detect near ties / for the tolerance fallback)
fn score_f64(m: Metric, a: i64, p: i64, r: i64) -> f64 {
    match m {
        Metric::Cos => {
            if a == 0 || r == 0 {
                0.0
            } else {
                p as f64 / ((a as f64).sqrt() * (r as f64).sqrt())
            }
        }
        Metric::Dot => p as f64,
        Metric::Euc => 1.0 / (1.0 + (p as f64).sqrt()),
    }
}
/// the same f32 operations, in the same order, as the engine's brute-force path
fn score_f32_brute(m: Metric, a: i64, p: i64, r: i64) -> f32 {
    match m {
        Metric::Cos => {
            let (am, bm) = ((a as f32).sqrt(), (r as f32).sqrt());
            if am == 0.0 || bm == 0.0 {
                0.0
            } else {
                p as f32 / (am * bm)
            }
        }
        Metric::Dot => p as f32,
        Metric::Euc => 1.0 / (1.0 + (p as f32).sqrt()),
    }
}
/// ... and as `HNSWIndex::search` with the cosine metric: `1 - (1 - cos)`
fn score_f32_hnsw(a: i64, p: i64, r: i64) -> f32 {
    let (qm, sm) = ((a as f32).sqrt(), (r as f32).sqrt());
    let d = if sm == 0.0 || qm == 0.0 { 1.0 } else { 1.0 - (p as f32 / (sm * qm)) };
    1.0 - d
}
fn near(x: f64, y: f64) -> bool {
    (x - y).abs() <= 1e-6 * x.abs().max(y.abs()).max(1e-3)
}
fn within_tol(x: f32, truth: f64) -> bool {
    (f64::from(x) - truth).abs() <= 1e-5 * truth.abs().max(1.0)
}

// ------------------------------------------------------------------ the real engine + shadow

#[derive(Default)]
struct Space {
    items: BTreeMap<String, (Vec<i64>, Md)>,
    built: bool,
    /// successful mutations since the last successful build
    muts: Vec<&'static str>,
    index: Option<(Arc<HNSWIndex>, Vec<String>)>,
}
impl Space {
    fn index_live(&self) -> bool {
        self.built && self.muts.is_empty()
    }
    /// the cached index is live AND passes the engine's guard for a query of this dimension
    /// (non-empty, indexed vectors have the query's dimension): while live, the indexed vectors are
    /// exactly `items`, and a successful build means they all have one dimension
    fn index_consulted(&self, q_len: usize) -> bool {
        self.index_live() && self.items.values().next().map_or(false, |(v, _)| v.len() == q_len)
    }
    fn mutated(&mut self, tag: &'static str) {
        if self.built {
            self.muts.push(tag);
        }
    }
}

struct Viol {
    site: String,
    kind: &'static str,
    what: String,
}

enum Obs {
    Plain(String),
    Search { res: Result<Vec<(String, f32)>, String>, ann: Option<Vec<String>> },
    Panic(String),
}

struct Runner {
    eng: VectorEngine,
    dflt: Space,
    named: BTreeMap<String, Space>,
    cfgs: BTreeMap<String, (Option<usize>, Metric)>,
    /// engine calls the harness made on its own behalf during the last `exec` (as lines for the model)
    extra_lines: Vec<String>,
    /// `total_count` of the last paginated search
    last_total: Option<usize>,
    /// the last operation was an Auto-strategy filtered search of a collection LARGER than the
    /// selectivity sample: which keys the estimate samples is the order of a HashSet the store scan
    /// builds afresh on every call, so nobody outside the call can know which arm Auto took
    auto_big: bool,
}

fn verr(e: &VectorError) -> &'static str {
    match e {
        VectorError::NotFound(_) => "not_found",
        VectorError::DimensionMismatch { .. } => "dim_mismatch",
        VectorError::EmptyVector => "empty_vector",
        VectorError::InvalidTopK => "invalid_top_k",
        VectorError::CollectionExists(_) => "coll_exists",
        VectorError::CollectionNotFound(_) => "coll_not_found",
        VectorError::SearchTimeout { .. } => "timeout",
        VectorError::BatchValidationError { .. } => "batch_validation",
        _ => "other",
    }
}
fn f32s(v: &[i64]) -> Vec<f32> {
    v.iter().map(|x| *x as f32).collect()
}
fn to_ints(v: &[f32]) -> Option<Vec<i64>> {
    v.iter().map(|x| if x.fract() == 0.0 && x.abs() < 1e9 { Some(*x as i64) } else { None }).collect()
}
fn md_map(md: &Md) -> HashMap<String, TensorValue> {
    md.iter().map(|(k, v)| (k.clone(), TensorValue::Scalar(ScalarValue::Int(*v)))).collect()
}

impl Runner {
    fn new() -> Runner {
        Runner::with_engine(VectorEngine::new())
    }
    /// `parallel`: the rayon scan paths (`search_parallel`, `search_parallel_with_metric`) from 2 keys on
    fn new_cfg(parallel: bool) -> Runner {
        if parallel {
            let cfg = VectorEngineConfig { parallel_threshold: 2, ..VectorEngineConfig::default() };
            Runner::with_engine(VectorEngine::with_config(cfg).expect("valid config"))
        } else {
            Runner::new()
        }
    }
    fn with_engine(eng: VectorEngine) -> Runner {
        Runner { eng, dflt: Space::default(), named: BTreeMap::new(), cfgs: BTreeMap::new(), extra_lines: Vec::new(), last_total: None, auto_big: false }
    }
    fn repr_of(&self, storage_key: &str) -> String {
        match self.eng.store().get(storage_key) {
            Ok(t) => match t.get("vector") {
                Some(TensorValue::Vector(_)) => "dense".into(),
                Some(TensorValue::Sparse(s)) => {
                    let pos: Vec<i64> = s.positions().iter().map(|p| i64::from(*p)).collect();
                    format!("sparse:{}", ints(&pos))
                }
                _ => "novector".into(),
            },
            Err(_) => "missing".into(),
        }
    }
    fn coll_metric(&self, c: &str) -> Metric {
        self.cfgs.get(c).map_or(Metric::Cos, |x| x.1)
    }

    /// run one op on the real engine; returns what was observed and the oracle verdicts
    fn exec(&mut self, op: &Op) -> (Obs, Vec<Viol>) {
        let mut viol = Vec::new();
        let r = guarded(AssertUnwindSafe(|| self.exec_inner(op, &mut viol)));
        match r {
            Ok(o) => (o, viol),
            Err(p) => {
                viol.push(Viol { site: op.tag().to_string(), kind: "panic", what: p.clone() });
                (Obs::Panic(p), viol)
            }
        }
    }

    fn exec_inner(&mut self, op: &Op, viol: &mut Vec<Viol>) -> Obs {
        match op {
            Op::Store { key, v } => match self.eng.store_embedding(key, f32s(v)) {
                Ok(()) => {
                    self.dflt.items.insert(key.clone(), (v.clone(), vec![]));
                    self.dflt.mutated(op.tag());
                    Obs::Plain(format!("ok {}", self.repr_of(&format!("emb:{key}"))))
                }
                Err(e) => Obs::Plain(format!("err {}", verr(&e))),
            },
            Op::StoreMeta { key, v, md } => match self.eng.store_embedding_with_metadata(key, f32s(v), md_map(md)) {
                Ok(()) => {
                    self.dflt.items.insert(key.clone(), (v.clone(), md.clone()));
                    self.dflt.mutated(op.tag());
                    Obs::Plain(format!("ok {}", self.repr_of(&format!("emb:{key}"))))
                }
                Err(e) => Obs::Plain(format!("err {}", verr(&e))),
            },
            Op::Del { key } => match self.eng.delete_embedding(key) {
                Ok(()) => {
                    self.dflt.items.remove(key);
                    self.dflt.mutated(op.tag());
                    Obs::Plain("ok".into())
                }
                Err(e) => Obs::Plain(format!("err {}", verr(&e))),
            },
            Op::BatchDel { keys } => match self.eng.batch_delete_embeddings(keys.clone()) {
                Ok(n) => {
                    for k in keys {
                        self.dflt.items.remove(k);
                    }
                    if n > 0 {
                        self.dflt.mutated(op.tag());
                    }
                    Obs::Plain(format!("ok {n}"))
                }
                Err(e) => Obs::Plain(format!("err {}", verr(&e))),
            },
            Op::Clear => match self.eng.clear() {
                Ok(n) => {
                    self.dflt.items.clear();
                    if n > 0 {
                        self.dflt.mutated(op.tag());
                    }
                    Obs::Plain(format!("ok {n}"))
                }
                Err(e) => Obs::Plain(format!("err {}", verr(&e))),
            },
            Op::Build { via_engine, st } => {
                if *via_engine {
                    match self.eng.build_and_cache_index(HNSWConfig::default()) {
                        Ok(()) => {
                            self.dflt.built = true;
                            self.dflt.muts.clear();
                            self.dflt.index = None;
                            Obs::Plain(format!("ok {}", self.eng.count()))
                        }
                        Err(e) => Obs::Plain(format!("err {}", verr(&e))),
                    }
                } else {
                    // `build_hnsw_index` is `build_hnsw_index_with_options(Dense, ..)`; the harness's half also
                    // builds with the automatic sparse/dense node storage (cosine: the default metric)
                    let opts = HNSWBuildOptions::new().with_storage(if *st == St::Dense { HNSWStorageStrategy::Dense } else { HNSWStorageStrategy::Auto });
                    match self.eng.build_hnsw_index_with_options(opts) {
                        Ok((idx, keys)) => {
                            let idx = Arc::new(idx);
                            // the mapping holds STORAGE keys, as `build_and_cache_index` caches them since
                            // 4fa63773 (`search_similar` strips the storage prefix from every cached key)
                            self.eng.cache_hnsw_index("_default", idx.clone(), keys.iter().map(|k| format!("emb:{k}")).collect());
                            self.dflt.built = true;
                            self.dflt.muts.clear();
                            let n = keys.len();
                            self.dflt.index = Some((idx, keys));
                            Obs::Plain(format!("ok {n}"))
                        }
                        Err(e) => Obs::Plain(format!("err {}", verr(&e))),
                    }
                }
            }
            Op::Create { c, dim, m } => {
                let mut cfg = VectorCollectionConfig::default().with_metric(m.real());
                if let Some(d) = dim {
                    cfg = cfg.with_dimension(*d);
                }
                match self.eng.create_collection(c, cfg) {
                    Ok(()) => {
                        self.cfgs.insert(c.clone(), (*dim, *m));
                        // The harness is the caller that supplied this collection's cached index, built
                        // with the default (cosine) HNSW metric (see CBuild: only cosine collections are
                        // indexed).  Declaring another metric makes that index the wrong one for the
                        // collection, so its owner withdraws it, as `cache_hnsw_index`'s contract expects
                        // (what the engine does when the caller does not is recorded by `observe_foreign_index`).
                        if *m != Metric::Cos {
                            if let Some(sp) = self.named.get_mut(c) {
                                if sp.built {
                                    self.eng.invalidate_hnsw_cache(c);
                                    sp.built = false;
                                    sp.muts.clear();
                                    sp.index = None;
                                    self.extra_lines.push(format!("inval {c}"));
                                }
                            }
                        }
                        Obs::Plain("ok".into())
                    }
                    Err(e) => Obs::Plain(format!("err {}", verr(&e))),
                }
            }
            Op::Drop { c } => match self.eng.delete_collection(c) {
                Ok(()) => {
                    self.cfgs.remove(c);
                    let sp = self.named.entry(c.clone()).or_default();
                    if !sp.items.is_empty() {
                        sp.mutated(op.tag());
                    }
                    sp.items.clear();
                    Obs::Plain("ok".into())
                }
                Err(e) => Obs::Plain(format!("err {}", verr(&e))),
            },
            Op::CStore { c, key, v, md } => match self.eng.store_in_collection_with_metadata(c, key, f32s(v), md_map(md)) {
                Ok(()) => {
                    let sp = self.named.entry(c.clone()).or_default();
                    sp.items.insert(key.clone(), (v.clone(), md.clone()));
                    sp.mutated(op.tag());
                    Obs::Plain(format!("ok {}", self.repr_of(&format!("coll:{c}:emb:{key}"))))
                }
                Err(e) => Obs::Plain(format!("err {}", verr(&e))),
            },
            Op::CDel { c, key } => match self.eng.delete_from_collection(c, key) {
                Ok(()) => {
                    let sp = self.named.entry(c.clone()).or_default();
                    sp.items.remove(key);
                    sp.mutated(op.tag());
                    Obs::Plain("ok".into())
                }
                Err(e) => Obs::Plain(format!("err {}", verr(&e))),
            },
            Op::CBuild { c, st } => {
                // what a user of `cache_hnsw_index` does: index the collection's current vectors (held
                // dense, by `insert_auto` or as sparse vectors: the model's answer does not depend on it).
                // A default `HNSWConfig` scores with cosine, so only cosine collections are indexed here
                // (collections of the other metrics with an index of their metric: stream `emb`).
                if self.coll_metric(c) != Metric::Cos {
                    return Obs::Plain("err unsupported".into());
                }
                let keys = self.eng.list_collection_keys(c);
                let vecs: Vec<Vec<f32>> = keys.iter().map(|k| self.eng.get_from_collection(c, k).unwrap_or_default()).collect();
                if vecs.windows(2).any(|w| w[0].len() != w[1].len()) {
                    return Obs::Plain("err dim_mismatch".into());
                }
                let idx = HNSWIndex::with_config(HNSWConfig::default());
                for v in &vecs {
                    insert_st(&idx, v.clone(), *st);
                }
                let idx = Arc::new(idx);
                // storage keys, as in the engine's own `search_in_collection_uses_cached_hnsw`
                self.eng.cache_hnsw_index(c, idx.clone(), keys.iter().map(|k| format!("coll:{c}:emb:{k}")).collect());
                let sp = self.named.entry(c.clone()).or_default();
                sp.built = true;
                sp.muts.clear();
                let n = keys.len();
                sp.index = Some((idx, keys));
                Obs::Plain(format!("ok {n}"))
            }
            Op::Get { key } => match self.eng.get_embedding(key) {
                Ok(v) => {
                    let shown = to_ints(&v).map_or("non-integer".to_string(), |x| ints(&x));
                    match self.dflt.items.get(key) {
                        Some((w, _)) if to_ints(&v).as_deref() == Some(w.as_slice()) => {}
                        other => viol.push(Viol {
                            site: op.tag().into(),
                            kind: "roundtrip_not_identity",
                            what: format!("get {key} = {shown}, last stored {:?}", other.map(|x| &x.0)),
                        }),
                    }
                    Obs::Plain(format!("ok {shown}"))
                }
                Err(e) => {
                    if self.dflt.items.contains_key(key) {
                        viol.push(Viol { site: op.tag().into(), kind: "stored_key_not_found", what: key.clone() });
                    }
                    Obs::Plain(format!("err {}", verr(&e)))
                }
            },
            Op::CGet { c, key } => match self.eng.get_from_collection(c, key) {
                Ok(v) => {
                    let shown = to_ints(&v).map_or("non-integer".to_string(), |x| ints(&x));
                    let cur = self.named.get(c).and_then(|s| s.items.get(key));
                    match cur {
                        Some((w, _)) if to_ints(&v).as_deref() == Some(w.as_slice()) => {}
                        other => viol.push(Viol {
                            site: op.tag().into(),
                            kind: "roundtrip_not_identity",
                            what: format!("cget {c} {key} = {shown}, last stored {:?}", other.map(|x| &x.0)),
                        }),
                    }
                    Obs::Plain(format!("ok {shown}"))
                }
                Err(e) => {
                    if self.named.get(c).map_or(false, |s| s.items.contains_key(key)) {
                        viol.push(Viol { site: op.tag().into(), kind: "stored_key_not_found", what: key.clone() });
                    }
                    Obs::Plain(format!("err {}", verr(&e)))
                }
            },
            Op::UpdMeta { key, md } => match self.eng.update_metadata(key, md_map(md)) {
                Ok(()) => {
                    if let Some((_, old)) = self.dflt.items.get_mut(key) {
                        for (f, v) in md {
                            match old.iter_mut().find(|(k, _)| k == f) {
                                Some(e) => e.1 = *v,
                                None => old.push((f.clone(), *v)),
                            }
                        }
                    }
                    Obs::Plain("ok".into())
                }
                Err(e) => Obs::Plain(format!("err {}", verr(&e))),
            },
            Op::RmField { key, field } => match self.eng.remove_metadata_field(key, field) {
                Ok(()) => {
                    if let Some((_, old)) = self.dflt.items.get_mut(key) {
                        old.retain(|(k, _)| k != field);
                    }
                    Obs::Plain("ok".into())
                }
                Err(e) => Obs::Plain(format!("err {}", verr(&e))),
            },
            Op::BatchStore { inputs } => {
                let ins: Vec<EmbeddingInput> = inputs.iter().map(|(k, v)| EmbeddingInput::new(k.clone(), f32s(v))).collect();
                match self.eng.batch_store_embeddings(ins) {
                    Ok(r) => {
                        for (k, v) in inputs {
                            self.dflt.items.insert(k.clone(), (v.clone(), vec![]));
                        }
                        if !inputs.is_empty() {
                            self.dflt.mutated(op.tag());
                        }
                        if r.stored_keys != inputs.iter().map(|x| x.0.clone()).collect::<Vec<_>>() {
                            viol.push(Viol { site: op.tag().into(), kind: "stored_keys_differ", what: format!("{:?}", r.stored_keys) });
                        }
                        Obs::Plain(format!("ok {}", r.count))
                    }
                    Err(e) => Obs::Plain(format!("err {}", verr(&e))),
                }
            }
            Op::SearchP { q, k, skip, limit } => {
                let qf = f32s(q);
                let inner = (skip + limit.unwrap_or(*k)).min(*k);
                let ann = ann_keys(&self.dflt, &qf, inner);
                let pg = Pagination { skip: *skip, limit: *limit, count_total: true };
                let res = match self.eng.search_similar_paginated(&qf, *k, pg) {
                    Ok(p) => {
                        let total = p.total_count.unwrap_or(usize::MAX);
                        // has_more is a function of the page and the total
                        let want_more = limit.is_some() && skip + p.items.len() < total;
                        if p.has_more != want_more {
                            viol.push(Viol { site: op.tag().into(), kind: "has_more_inconsistent", what: format!("has_more={} skip={skip} items={} total={total}", p.has_more, p.items.len()) });
                        }
                        self.last_total = Some(total);
                        Ok(p.items.into_iter().map(|x| (x.key, x.score)).collect::<Vec<_>>())
                    }
                    Err(e) => Err(verr(&e).to_string()),
                };
                if let Ok(r) = &res {
                    oracle_page(op.tag(), r, q, limit.unwrap_or(usize::MAX), *skip, inner, Metric::Cos, &self.dflt, None, true, false, viol);
                }
                Obs::Search { res, ann }
            }
            Op::Invalidate { c } => {
                match c {
                    None => {
                        self.eng.invalidate_hnsw_cache("_default");
                        self.dflt.built = false;
                        self.dflt.muts.clear();
                    }
                    Some(c) => {
                        self.eng.invalidate_hnsw_cache(c);
                        if let Some(sp) = self.named.get_mut(c) {
                            sp.built = false;
                            sp.muts.clear();
                        }
                    }
                }
                Obs::Plain("ok".into())
            }
            Op::HSearch { q, k, rerank, m, st } => {
                let qf = f32s(q);
                let opts = HNSWBuildOptions::new()
                    .with_storage(if *st == St::Dense { HNSWStorageStrategy::Dense } else { HNSWStorageStrategy::Auto })
                    .with_hnsw_config(HNSWConfig::default().with_distance_metric(m.hnsw()));
                let (idx, keys) = match self.eng.build_hnsw_index_with_options(opts) {
                    Ok(x) => x,
                    Err(e) => return Obs::Search { res: Err(format!("build_{}", verr(&e))), ann: None },
                };
                // the harness's own view of what was indexed: a successful build means one dimension
                let indexed_dim = self.dflt.items.values().next().map(|x| x.0.len());
                let mismatch = !q.is_empty() && *k > 0 && indexed_dim.map_or(false, |d| d != q.len());
                let eng = &self.eng;
                let call = guarded(AssertUnwindSafe(|| {
                    if *rerank {
                        eng.search_with_hnsw_and_metric(&idx, &keys, &qf, *k, &ExtendedDistanceMetric::Cosine)
                    } else {
                        eng.search_with_hnsw(&idx, &keys, &qf, *k)
                    }
                }));
                match call {
                    Err(p) => {
                        // the property: an index is consulted only with a query of its own dimension
                        viol.push(Viol {
                            site: op.tag().into(),
                            kind: if mismatch { "query_dimension_not_checked" } else { "panic" },
                            what: format!("index over dim-{indexed_dim:?} vectors, query of dim {}: panic: {p}", q.len()),
                        });
                        Obs::Panic(p)
                    }
                    Ok(r) => {
                        let mut res = conv(r);
                        if let (true, Ok(r)) = (*rerank, &mut res) {
                            // `ExtendedDistanceMetric::Cosine.to_similarity` reports (cos + 1) / 2: back to the
                            // cosine scale the oracle and the model's ingredients are in (monotone, so the
                            // ranking is judged as it is; the score then within 1e-5, not bit for bit)
                            for x in r.iter_mut() {
                                x.1 = 2.0 * x.1 - 1.0;
                            }
                        }
                        match &res {
                            Ok(r) if mismatch => viol.push(Viol {
                                site: op.tag().into(),
                                kind: "query_dimension_not_checked",
                                what: format!("index over dim-{indexed_dim:?} vectors answered a query of dim {}: {r:?}", q.len()),
                            }),
                            // the scores are those of the index's metric (re-ranked: cosine, whatever the index)
                            Ok(r) => oracle_page(op.tag(), r, q, *k, 0, *k, if *rerank { Metric::Cos } else { *m }, &self.dflt, None, false, true, viol),
                            Err(_) => {}
                        }
                        Obs::Search { res, ann: None }
                    }
                }
            }
            Op::Search { q, k } => {
                let qf = f32s(q);
                let ann = ann_keys(&self.dflt, &qf, *k);
                let res = self.eng.search_similar(&qf, *k);
                let res = conv(res);
                if let Ok(r) = &res {
                    oracle(op.tag(), r, q, *k, Metric::Cos, &self.dflt, None, true, viol);
                }
                Obs::Search { res, ann }
            }
            Op::SearchM { m, q, k } => {
                let res = conv(self.eng.search_similar_with_metric(&f32s(q), *k, m.real()));
                if let Ok(r) = &res {
                    // never allowed to use an index: always exact
                    oracle(op.tag(), r, q, *k, *m, &self.dflt, None, false, viol);
                }
                Obs::Search { res, ann: None }
            }
            Op::SearchF { q, k, strat, os, f } => {
                let cfg = filt_cfg(*strat, *os);
                // what the index answers for the inner `search_similar(query, oversample_k)` of the
                // post-filter strategy (the model ignores it unless it takes that path)
                let qf = f32s(q);
                let ann = if *strat == Strat::Pre { None } else { ann_keys(&self.dflt, &qf, (*k * *os).max(*k)) };
                let res = conv(self.eng.search_similar_filtered(&qf, *k, &f.cond(), cfg));
                if let Ok(r) = &res {
                    let from = viol.len();
                    oracle(&format!("{}[{}]", op.tag(), strat.name()), r, q, *k, Metric::Cos, &self.dflt, Some(f), *strat != Strat::Pre, viol);
                    narrow_filtered_miss(&mut viol[from..], *strat, r, q, *k, *os, Metric::Cos, &self.dflt, f);
                }
                Obs::Search { res, ann }
            }
            Op::CSearch { c, q, k } => {
                let qf = f32s(q);
                let empty = Space::default();
                let sp = self.named.get(c).unwrap_or(&empty);
                let ann = ann_keys(sp, &qf, *k);
                let res = conv(self.eng.search_in_collection(c, &qf, *k));
                if let Ok(r) = &res {
                    oracle(op.tag(), r, q, *k, self.coll_metric(c), sp, None, true, viol);
                }
                Obs::Search { res, ann }
            }
            Op::CSearchF { c, q, k, strat, os, f } => {
                let cfg = filt_cfg(*strat, *os);
                self.auto_big = *strat == Strat::Auto && self.named.get(c).map_or(0, |s| s.items.len()) > AUTO_SAMPLE;
                let res = conv(self.eng.search_filtered_in_collection(c, &f32s(q), *k, &f.cond(), cfg));
                let empty = Space::default();
                let sp = self.named.get(c).unwrap_or(&empty);
                if let Ok(r) = &res {
                    let from = viol.len();
                    oracle(&format!("{}[{}]", op.tag(), strat.name()), r, q, *k, self.coll_metric(c), sp, Some(f), *strat != Strat::Pre, viol);
                    narrow_filtered_miss(&mut viol[from..], *strat, r, q, *k, *os, self.coll_metric(c), sp, f);
                }
                Obs::Search { res, ann: None }
            }
        }
    }
}

/// sample size of the Auto strategy's selectivity estimate (`100.min(keys.len())`)
const AUTO_SAMPLE: usize = 100;

/// A completeness failure (`missed_match` / `not_topk`) of a FILTERED search is filed by what can
/// explain it.  The only documented incompleteness is the post-filter strategy's: it filters the
/// `max(k*os, k)` most similar vectors, so it may miss a qualifying vector that is NOT among them.
/// Every qualifying vector scoring strictly better than the pool's last place IS in the pool whatever
/// the tie order, so the first `min(k, g)` places (g = number of such vectors; all qualifying ones when
/// the pool covers the collection) are owed by every strategy.  A deviation there — or any deviation
/// of the explicit pre-filter strategy, which owes the exact answer — gets its own kind and is never
/// absorbed by the post-filter class.
#[allow(clippy::too_many_arguments)]
fn narrow_filtered_miss(viol: &mut [Viol], strat: Strat, res: &[(String, f32)], q: &[i64], k: usize, os: usize, m: Metric, sp: &Space, f: &F) {
    if !viol.iter().any(|v| v.kind == "missed_match" || v.kind == "not_topk") {
        return;
    }
    // Auto MUST have taken the pre-filter strategy when fewer than 10 % of EVERY possible sample match:
    // a sample of min(100, n) keys holds at most all `hits` matching entries of the collection
    let n = sp.items.len();
    let hits = sp.items.values().filter(|(_, md)| f.eval(md)).count();
    let auto_forced_pre = strat == Strat::Auto && !matches!(f, F::T) && n > 0 && 10 * hits < n.min(AUTO_SAMPLE);
    let kind: &'static str = if strat == Strat::Pre || auto_forced_pre {
        "prefilter_not_topk"
    } else {
        let kv = |v: &Vec<i64>| {
            let (p, r) = ingredients(m, q, v);
            key_fn(m, p, r)
        };
        let mut all: Vec<(i128, i128)> = sp.items.values().filter(|(v, _)| v.len() == q.len()).map(|(v, _)| kv(v)).collect();
        all.sort_by(|x, y| key_cmp(*y, *x));
        let mut qual: Vec<(i128, i128)> = sp.items.values().filter(|(v, md)| v.len() == q.len() && f.eval(md)).map(|(v, _)| kv(v)).collect();
        qual.sort_by(|x, y| key_cmp(*y, *x));
        let pool = k.saturating_mul(os).max(k);
        let g = if all.len() <= pool { qual.len() } else { qual.iter().filter(|x| key_cmp(**x, all[pool - 1]) == Ordering::Greater).count() };
        let owed = k.min(g);
        // first place at which the answer deviates from the exact filtered ranking
        let mut dev = res.len().min(qual.len());
        for (i, (key, _)) in res.iter().enumerate().take(qual.len()) {
            let ok = sp.items.get(key).map_or(false, |(v, _)| v.len() == q.len() && {
                let kr = kv(v);
                key_cmp(kr, qual[i]) == Ordering::Equal || (m == Metric::Cos && near(frac(kr), frac(qual[i])))
            });
            if !ok {
                dev = i;
                break;
            }
        }
        if dev < owed {
            "not_topk_inside_oversample_pool"
        } else {
            return;
        }
    };
    for v in viol.iter_mut() {
        if v.kind == "missed_match" || v.kind == "not_topk" {
            v.kind = kind;
        }
    }
}

fn filt_cfg(s: Strat, os: usize) -> Option<FilteredSearchConfig> {
    let base = match s {
        Strat::Auto => FilteredSearchConfig::default(),
        Strat::Pre => FilteredSearchConfig::pre_filter(),
        Strat::Post => FilteredSearchConfig::post_filter(),
    };
    Some(base.with_oversample(os))
}
fn conv(r: Result<Vec<vector_engine::SearchResult>, VectorError>) -> Result<Vec<(String, f32)>, String> {
    match r {
        Ok(v) => Ok(v.into_iter().map(|x| (x.key, x.score)).collect()),
        Err(e) => Err(verr(&e).to_string()),
    }
}
/// what the index handle the harness kept returns for this query, node ids named by key
fn ann_keys(sp: &Space, q: &[f32], k: usize) -> Option<Vec<String>> {
    let (idx, keys) = sp.index.as_ref()?;
    if k == 0 || q.is_empty() {
        return None;
    }
    let dim = idx.get_vector(0).map(|v| v.len());
    if dim != Some(q.len()) {
        return None;
    }
    let raw = guarded(AssertUnwindSafe(|| idx.search(q, k))).ok()?;
    Some(raw.iter().map(|(i, _)| keys.get(*i).cloned().unwrap_or_else(|| "?".into())).collect())
}

/// The property, evaluated on the engine's own output against the harness's shadow of what is
/// currently stored.  `may_use_index`: this entry point is allowed to answer from a cached
/// index *while the index is live* (built and no mutation since) *and indexes vectors of the
/// query's dimension*; then recall is not claimed.
#[allow(clippy::too_many_arguments)]
fn oracle(site: &str, res: &[(String, f32)], q: &[i64], k: usize, m: Metric, sp: &Space, filt: Option<&F>, may_use_index: bool, viol: &mut Vec<Viol>) {
    oracle_page(site, res, q, k, 0, k, m, sp, filt, may_use_index, false, viol)
}

/// `res` = results `skip .. skip+k` of a search for the `inner_k` best (plain searches: `skip = 0`,
/// `inner_k = k`)
/// `fresh_index`: the answer was taken from an index built from the current data just now (explicit-index
/// entry points): shape, keys and scores are judged, recall is not
#[allow(clippy::too_many_arguments)]
fn oracle_page(site: &str, res: &[(String, f32)], q: &[i64], k: usize, skip: usize, inner_k: usize, m: Metric, sp: &Space, filt: Option<&F>, may_use_index: bool, fresh_index: bool, viol: &mut Vec<Viol>) {
    if q.is_empty() || k == 0 || inner_k == 0 || nsq(q) == 0 {
        return; // outside the property's quantifier (non-zero query, k > 0)
    }
    let mut push = |kind: &'static str, what: String| viol.push(Viol { site: site.to_string(), kind, what });
    let a = nsq(q);
    let mut seen = BTreeSet::new();
    for (key, _) in res {
        if !seen.insert(key.clone()) {
            push("duplicate_key", key.clone());
        }
    }
    if res.len() > k {
        push("more_than_k", format!("{} > {k}", res.len()));
    }
    if res.windows(2).any(|w| w[0].1 < w[1].1) {
        push("not_ordered", format!("{res:?}"));
    }
    let mut keys_of_res: Vec<Option<(i128, i128)>> = Vec::new();
    for (key, sc) in res {
        match sp.items.get(key) {
            None => {
                push("returned_deleted_key", key.clone());
                keys_of_res.push(None);
            }
            Some((v, md)) => {
                if v.len() != q.len() {
                    push("wrong_dimension", format!("{key} has dim {} for a query of dim {}", v.len(), q.len()));
                    keys_of_res.push(None);
                    continue;
                }
                if let Some(f) = filt {
                    if !f.eval(md) {
                        push("filter_not_satisfied", key.clone());
                    }
                }
                let (p, r) = ingredients(m, q, v);
                let exact = sc.to_bits() == score_f32_brute(m, a, p, r).to_bits() || (m == Metric::Cos && sc.to_bits() == score_f32_hnsw(a, p, r).to_bits());
                if !exact && !within_tol(*sc, score_f64(m, a, p, r)) {
                    push("wrong_score", format!("{key}: reported {sc}, true {} under {}", score_f64(m, a, p, r), m.name()));
                }
                keys_of_res.push(Some(key_fn(m, p, r)));
            }
        }
    }
    if fresh_index || (may_use_index && sp.index_consulted(q.len())) {
        return;
    }
    // exact top-k required (no index, or the index is not consulted for a query of this dimension)
    let mut cands: Vec<(i128, i128)> = sp
        .items
        .iter()
        .filter(|(_, (v, md))| v.len() == q.len() && filt.map_or(true, |f| f.eval(md)))
        .map(|(_, (v, _))| {
            let (p, r) = ingredients(m, q, v);
            key_fn(m, p, r)
        })
        .collect();
    cands.sort_by(|x, y| key_cmp(*y, *x));
    let cands: Vec<(i128, i128)> = cands.into_iter().take(inner_k).skip(skip).collect();
    let want = k.min(cands.len());
    if res.len() < want {
        push("missed_match", format!("{} results, {} stored vectors qualify (k={k}, skip={skip})", res.len(), cands.len()));
    }
    for (i, kr) in keys_of_res.iter().enumerate().take(want) {
        if let Some(kr) = kr {
            let eq = key_cmp(*kr, cands[i]) == Ordering::Equal || (m == Metric::Cos && near(frac(*kr), frac(cands[i])));
            if !eq {
                push("not_topk", format!("rank {i}: returned key value {:?}, best available {:?}", kr, cands[i]));
                break;
            }
        }
    }
}
fn key_fn(m: Metric, p: i64, r: i64) -> (i128, i128) {
    key(m, p, r)
}
/// sign(x)·sqrt|x| of the fraction: proportional to the cosine
fn frac(k: (i128, i128)) -> f64 {
    let x = k.0 as f64 / k.1 as f64;
    x.signum() * x.abs().sqrt()
}

// ------------------------------------------------------------------ model answers

struct MAns {
    kind: String,
    m: Metric,
    a: i64,
    cut: usize,
    k: usize,
    cands: Vec<(String, i64, i64, bool)>,
    raw: String,
}
fn parse_model(ans: &str) -> MAns {
    let s = ans.strip_prefix("noindex ").unwrap_or(ans);
    let mut out = MAns { kind: String::new(), m: Metric::Cos, a: 0, cut: 0, k: 0, cands: vec![], raw: ans.to_string() };
    let (head, tail) = s.split_once(" | ").map_or((s.trim_end_matches(" |"), ""), |(h, t)| (h, t));
    let mut it = head.split(' ');
    out.kind = it.next().unwrap_or("").to_string();
    for kv in it {
        if let Some((k, v)) = kv.split_once('=') {
            match k {
                "m" => out.m = Metric::parse(v),
                "A" => out.a = v.parse().unwrap_or(0),
                "cut" => out.cut = v.parse().unwrap_or(0),
                "k" => out.k = v.parse().unwrap_or(0),
                _ => {}
            }
        } else if out.kind == "err" {
            out.kind = format!("err {kv}");
        }
    }
    for c in tail.split(' ').filter(|x| !x.is_empty()) {
        let f: Vec<&str> = c.split('|').collect();
        if f.len() == 4 {
            out.cands.push((f[0].to_string(), f[1].parse().unwrap_or(0), f[2].parse().unwrap_or(0), f[3] == "1"));
        }
    }
    out
}

/// consecutive tie classes of a best-first list (exact; cosine near-ties within 1e-6 merged)
fn classes(m: Metric, a: i64, cs: &[(String, i64, i64, bool)], merged: &mut u64) -> Vec<usize> {
    let mut out = Vec::with_capacity(cs.len());
    let mut cur = 0;
    for i in 0..cs.len() {
        if i > 0 {
            let (x, y) = (&cs[i - 1], &cs[i]);
            let same = key_cmp(key(m, x.1, x.2), key(m, y.1, y.2)) == Ordering::Equal;
            let nearly = !same && m == Metric::Cos && near(score_f64(m, a, x.1, x.2), score_f64(m, a, y.1, y.2));
            if nearly {
                *merged += 1;
            }
            if !same && !nearly {
                cur += 1;
            }
        }
        out.push(cur);
    }
    out
}

/// canonical (implementation, model) answer pair for one search + score mismatches
/// `page`: `(skip, limit, total_count reported)` of a paginated search — the engine's list is then the
/// slice `skip .. skip+limit` of the inner answer, and `total_count` the inner answer's length
fn compare_search(rep: &mut Report, stream: &str, op_line: &str, res: &Result<Vec<(String, f32)>, String>, ma: &MAns, page: Option<(usize, Option<usize>, usize)>) -> (String, String) {
    let imp_res = match res {
        Err(e) => return (format!("err {e}"), ma.kind.clone()),
        Ok(r) => r,
    };
    if ma.kind.starts_with("err") {
        return (format!("ok {} results", imp_res.len()), ma.kind.clone());
    }
    if ma.kind == "zero" {
        return (if imp_res.is_empty() { "zero".into() } else { format!("ok {} results", imp_res.len()) }, "zero".into());
    }
    let mut merged = 0u64;
    let cls = classes(ma.m, ma.a, &ma.cands, &mut merged);
    if merged > 0 {
        rep.hit_n("rank.cosine_near_tie_merged", merged);
    }
    // `index-exact`: an index answer that `small_index_search_is_exact` makes the exact top-k (stream `emb`)
    let hnsw = ma.kind == "index" || ma.kind == "ann" || ma.kind == "index-exact";
    // score correspondence: the engine's f32 against the model's exact ingredients
    for (key, sc) in imp_res {
        if let Some(c) = ma.cands.iter().find(|c| &c.0 == key) {
            // an index reports `to_similarity(distance)`: cosine `1 - (1 - cos)`; Euclidean `1/(1+d)` and dot
            // product `-(-p)` are the exhaustive scan's formulas
            let want = if hnsw && ma.m == Metric::Cos { score_f32_hnsw(ma.a, c.1, c.2) } else { score_f32_brute(ma.m, ma.a, c.1, c.2) };
            if want.to_bits() == sc.to_bits() {
                rep.hit("score.bit_exact");
            } else if within_tol(*sc, score_f64(ma.m, ma.a, c.1, c.2)) {
                rep.hit("score.within_1e-5(not-proof)");
            } else {
                rep.disagree(
                    &format!("{stream}.score"),
                    json!({"op": op_line, "key": key}),
                    &format!("{sc}"),
                    &format!("{} (p={}, r={}, A={})", score_f64(ma.m, ma.a, c.1, c.2), c.1, c.2, ma.a),
                );
            }
        }
    }
    let distinct = imp_res.iter().map(|x| &x.0).collect::<BTreeSet<_>>().len() == imp_res.len();
    if ma.kind == "index" {
        // recall is not claimed: only the shape is compared
        let mut ok = distinct && imp_res.len() <= ma.k;
        let mut last = 0usize;
        for (key, _) in imp_res {
            match ma.cands.iter().position(|c| &c.0 == key) {
                Some(i) if ma.cands[i].3 => {
                    if cls[i] < last {
                        ok = false;
                    }
                    last = cls[i];
                }
                _ => ok = false,
            }
        }
        let shown = if ok { "index-shape-ok".to_string() } else { format!("index-shape-bad {imp_res:?}") };
        return (shown, "index-shape-ok".into());
    }
    // `ranked` / `ann`: S = what survives the cut and the filter
    let unfiltered = ma.cands.iter().all(|c| c.3);
    let s_idx: Vec<usize> = if ma.cut >= ma.cands.len() || (unfiltered && ma.cut == ma.k) {
        (0..ma.cands.len()).filter(|i| ma.cands[*i].3).collect()
    } else if cls[ma.cut - 1] == cls[ma.cut] {
        rep.hit("rank.skipped_tie_straddles_oversample_cut");
        return ("skipped".into(), "skipped".into());
    } else {
        (0..ma.cut).filter(|i| ma.cands[*i].3).collect()
    };
    let inner: Vec<String> = s_idx.iter().take(ma.k).map(|i| cls[*i].to_string()).collect();
    let (want, tot): (Vec<String>, String) = match page {
        None => (inner, String::new()),
        Some((skip, limit, _)) => {
            let t = format!(" total={}", inner.len());
            (inner.into_iter().skip(skip).take(limit.unwrap_or(usize::MAX)).collect(), t)
        }
    };
    let got_tot = page.map_or(String::new(), |(_, _, t)| format!(" total={t}"));
    let got: Vec<String> = imp_res
        .iter()
        .map(|(key, _)| match s_idx.iter().find(|i| &ma.cands[**i].0 == key) {
            Some(i) => cls[*i].to_string(),
            None => format!("?{key}"),
        })
        .collect();
    (
        format!("n={} classes={}{}{got_tot}", got.len(), got.join(","), if distinct { "" } else { " dup" }),
        format!("n={} classes={}{tot}", want.len(), want.join(",")),
    )
}

// ------------------------------------------------------------------ generators

struct Gen {
    r: Rng,
    dim: usize,
    small: bool,
    keys: Vec<String>,
    colls: Vec<String>,
}

impl Gen {
    fn new(r: Rng) -> Gen {
        let mut g = Gen { r, dim: 1, small: false, keys: vec![], colls: vec![] };
        g.dim = match g.r.below(10) {
            0 => 1,
            1 => 2,
            2 => 16,
            3 => 8,
            4 => 9,
            _ => 1 + g.r.below(16) as usize,
        };
        g.small = g.r.chance(1, 3);
        let nk = 2 + g.r.below(11);
        g.keys = (0..nk).map(|i| format!("k{i}")).collect();
        // keys that themselves start with the storage prefix, next to the key they would collapse
        // into if the prefix were stripped once too often (4fa63773)
        if g.r.chance(1, 3) {
            for i in 0..(1 + g.r.below(2)).min(nk) {
                g.keys.push(format!("emb:k{i}"));
            }
        }
        g.colls = vec!["c0".into(), "c1".into(), "c2".into()];
        g
    }
    fn val(&mut self) -> i64 {
        if self.small {
            self.r.range(-2, 2)
        } else {
            match self.r.below(6) {
                0 => 64,
                1 => -64,
                2 => self.r.range(-3, 3),
                _ => self.r.range(-64, 64),
            }
        }
    }
    fn dim_pick(&mut self) -> usize {
        if self.r.chance(1, 8) {
            1 + self.r.below(16) as usize
        } else {
            self.dim
        }
    }
    fn vec_kind(&mut self, pool: &[Vec<i64>]) -> (Vec<i64>, &'static str) {
        let d = self.dim_pick();
        match self.r.below(12) {
            0 => (vec![0; d], "zero"),
            1 | 2 => {
                let mut v = vec![0; d];
                for _ in 0..1 + self.r.below(2) {
                    let i = self.r.below(d as u64) as usize;
                    v[i] = self.val();
                }
                (v, "highly-sparse")
            }
            3 if !pool.is_empty() => (self.r.pick(pool).clone(), "duplicate"),
            4 if !pool.is_empty() => {
                let base = self.r.pick(pool).clone();
                let f = *self.r.pick(&[2i64, 3, -1, -2]);
                if base.iter().all(|x| (x * f).abs() <= 64) {
                    (base.iter().map(|x| x * f).collect(), "scaled-copy")
                } else {
                    (base.iter().map(|x| -x).collect(), "negated-copy")
                }
            }
            5 => {
                // half zeros exactly: the sparse/dense threshold
                let mut v: Vec<i64> = (0..d).map(|i| if i % 2 == 0 { 0 } else { 1 + self.r.below(9) as i64 }).collect();
                self.r.shuffle(&mut v);
                (v, "half-zeros")
            }
            _ => ((0..d).map(|_| self.val()).collect(), "dense"),
        }
    }
    fn md(&mut self) -> Md {
        let mut md = Md::new();
        if self.r.chance(4, 5) {
            md.push(("f".into(), self.r.range(0, 3)));
        }
        if self.r.chance(1, 2) {
            md.push(("g".into(), self.r.range(-5, 5)));
        }
        md
    }
    fn filter(&mut self, depth: u32) -> F {
        let field = if self.r.chance(2, 3) { "f" } else { "g" }.to_string();
        match self.r.below(if depth == 0 { 9 } else { 7 }) {
            0 => F::T,
            1 => F::Ex(field),
            2 => F::In(field, (0..1 + self.r.below(3)).map(|_| self.r.range(-1, 3)).collect()),
            3..=6 => {
                let c = *self.r.pick(&["eq", "ne", "lt", "le", "gt", "ge"]);
                F::Cmp(c, field, self.r.range(-1, 3))
            }
            7 => F::And(Box::new(self.filter(depth + 1)), Box::new(self.filter(depth + 1))),
            _ => F::Or(Box::new(self.filter(depth + 1)), Box::new(self.filter(depth + 1))),
        }
    }
    fn k(&mut self) -> usize {
        match self.r.below(10) {
            0 => 0,
            1 => 50,
            2 => 1,
            _ => 1 + self.r.below(6) as usize,
        }
    }
    fn query(&mut self, pool: &[Vec<i64>]) -> (Vec<i64>, &'static str) {
        match self.r.below(12) {
            0 => (vec![0; self.dim], "zero-query"),
            1 => (vec![], "empty-query"),
            2 | 3 | 4 if !pool.is_empty() => (self.r.pick(pool).clone(), "query=stored"),
            5 => {
                let d = 1 + self.r.below(16) as usize;
                ((0..d).map(|_| self.val()).collect(), "query-any-dim")
            }
            _ => ((0..self.dim).map(|_| self.val()).collect(), "query-main-dim"),
        }
    }
}

/// one random op sequence; `focus`: 0 = default collection, 1 = named collections, 2 = mixed
fn gen_seq(g: &mut Gen, focus: u64, rep: &mut Report) -> Vec<Op> {
    let n = 8 + g.r.below(30) as usize;
    let mut ops: Vec<Op> = Vec::new();
    let mut pool: Vec<Vec<i64>> = Vec::new();
    // named collections get their configs up front (sometimes none at all: implicit collection)
    let mut coll_metric: BTreeMap<String, Metric> = BTreeMap::new();
    if focus != 0 {
        for c in g.colls.clone() {
            if g.r.chance(3, 4) {
                let m = *g.r.pick(&[Metric::Cos, Metric::Cos, Metric::Euc, Metric::Dot]);
                let dim = if g.r.chance(1, 3) { Some(g.dim) } else { None };
                coll_metric.insert(c.clone(), m);
                ops.push(Op::Create { c, dim, m });
            }
        }
    }
    // seed some data
    for _ in 0..2 + g.r.below(8) {
        let (v, kind) = g.vec_kind(&pool);
        rep.hit(&format!("vec.{kind}"));
        pool.push(v.clone());
        let key = g.r.pick(&g.keys).clone();
        if focus == 0 || (focus == 2 && g.r.chance(1, 2)) {
            if g.r.chance(1, 2) {
                ops.push(Op::Store { key, v });
            } else {
                let md = g.md();
                ops.push(Op::StoreMeta { key, v, md });
            }
        } else {
            let c = g.r.pick(&g.colls).clone();
            let md = g.md();
            ops.push(Op::CStore { c, key, v, md });
        }
    }
    while ops.len() < n {
        let dflt = focus == 0 || (focus == 2 && g.r.chance(1, 2));
        let key = g.r.pick(&g.keys).clone();
        let c = g.r.pick(&g.colls).clone();
        let x = g.r.below(100);
        let op = if dflt {
            match x {
                0..=11 => {
                    let (v, kind) = g.vec_kind(&pool);
                    rep.hit(&format!("vec.{kind}"));
                    pool.push(v.clone());
                    Op::Store { key, v }
                }
                12..=15 => {
                    let (v, kind) = g.vec_kind(&pool);
                    rep.hit(&format!("vec.{kind}"));
                    pool.push(v.clone());
                    let md = g.md();
                    Op::StoreMeta { key, v, md }
                }
                16..=17 => {
                    let mut md = g.md();
                    if md.is_empty() {
                        md.push(("f".into(), g.r.range(0, 3)));
                    }
                    Op::UpdMeta { key, md }
                }
                18 => Op::RmField { key, field: if g.r.chance(2, 3) { "f" } else { "g" }.to_string() },
                19 => {
                    let nb = g.r.below(4) as usize;
                    let mut inputs = Vec::new();
                    for _ in 0..nb {
                        let (v, kind) = g.vec_kind(&pool);
                        rep.hit(&format!("vec.{kind}"));
                        let v = if g.r.chance(1, 12) { vec![] } else { v };
                        if !v.is_empty() {
                            pool.push(v.clone());
                        }
                        inputs.push((g.r.pick(&g.keys).clone(), v));
                    }
                    Op::BatchStore { inputs }
                }
                20..=26 => Op::Del { key },
                27..=30 => {
                    let ks = (0..g.r.below(4)).map(|_| g.r.pick(&g.keys).clone()).collect();
                    Op::BatchDel { keys: ks }
                }
                31 => Op::Clear,
                32..=43 => Op::Build { via_engine: g.r.chance(1, 3), st: if g.r.chance(1, 2) { St::Auto } else { St::Dense } },
                44..=49 => Op::Get { key },
                50..=67 => {
                    let (q, kind) = g.query(&pool);
                    rep.hit(&format!("q.{kind}"));
                    Op::Search { q, k: g.k() }
                }
                68..=71 => {
                    let (q, kind) = g.query(&pool);
                    rep.hit(&format!("q.{kind}"));
                    let skip = *g.r.pick(&[0usize, 0, 1, 2, 3, 7]);
                    let limit = *g.r.pick(&[None, Some(0usize), Some(1), Some(2), Some(2), Some(5)]);
                    Op::SearchP { q, k: g.k(), skip, limit }
                }
                72..=80 => {
                    let (q, kind) = g.query(&pool);
                    rep.hit(&format!("q.{kind}"));
                    let m = *g.r.pick(&[Metric::Cos, Metric::Euc, Metric::Dot]);
                    Op::SearchM { m, q, k: g.k() }
                }
                81..=83 => {
                    // explicit-index entry points (no zero-query shortcut there: non-zero queries only)
                    let (mut q, kind) = g.query(&pool);
                    rep.hit(&format!("q.{kind}"));
                    if !q.is_empty() && nsq(&q) == 0 {
                        q[0] = 1;
                    }
                    // every index metric x the two engine storage strategies; re-ranking only over a cosine index
                    let rerank = g.r.chance(1, 4);
                    let m = if rerank { Metric::Cos } else { *g.r.pick(&[Metric::Cos, Metric::Euc, Metric::Euc, Metric::Dot]) };
                    let st = if g.r.chance(2, 3) { St::Auto } else { St::Dense };
                    Op::HSearch { q, k: g.k(), rerank, m, st }
                }
                _ => {
                    let (q, kind) = g.query(&pool);
                    rep.hit(&format!("q.{kind}"));
                    let strat = *g.r.pick(&[Strat::Auto, Strat::Pre, Strat::Post]);
                    let os = *g.r.pick(&[1usize, 2, 3, 3, 5]);
                    Op::SearchF { q, k: g.k(), strat, os, f: g.filter(0) }
                }
            }
        } else {
            match x {
                0..=19 => {
                    let (v, kind) = g.vec_kind(&pool);
                    rep.hit(&format!("vec.{kind}"));
                    pool.push(v.clone());
                    let md = g.md();
                    Op::CStore { c, key, v, md }
                }
                20..=27 => Op::CDel { c, key },
                28..=30 => Op::Drop { c },
                31..=33 => {
                    let m = *g.r.pick(&[Metric::Cos, Metric::Euc, Metric::Dot]);
                    let dim = if g.r.chance(1, 3) { Some(g.dim) } else { None };
                    coll_metric.insert(c.clone(), m);
                    Op::Create { c, dim, m }
                }
                34..=45 => {
                    // the harness indexes with the default (cosine) HNSW metric, so only cosine collections
                    let _ = &coll_metric;
                    Op::CBuild { c, st: *g.r.pick(&[St::Dense, St::Auto, St::Auto, St::Sparse]) }
                }
                46..=51 => Op::CGet { c, key },
                52..=79 => {
                    let (q, kind) = g.query(&pool);
                    rep.hit(&format!("q.{kind}"));
                    Op::CSearch { c, q, k: g.k() }
                }
                _ => {
                    let (q, kind) = g.query(&pool);
                    rep.hit(&format!("q.{kind}"));
                    let strat = *g.r.pick(&[Strat::Auto, Strat::Pre, Strat::Post]);
                    let os = *g.r.pick(&[1usize, 2, 3, 3, 5]);
                    Op::CSearchF { c, q, k: g.k(), strat, os, f: g.filter(0) }
                }
            }
        };
        // after a mutation, usually look at the thing that was just changed
        let probe = match &op {
            Op::Store { v, .. } | Op::StoreMeta { v, .. } if g.r.chance(2, 3) && nsq(v) > 0 => Some(Op::Search { q: v.clone(), k: 50 }),
            Op::UpdMeta { md, .. } if g.r.chance(3, 4) && !pool.is_empty() => {
                let (f, v) = md[0].clone();
                let strat = *g.r.pick(&[Strat::Auto, Strat::Pre, Strat::Post]);
                Some(Op::SearchF { q: g.r.pick(&pool).clone(), k: 50, strat, os: 3, f: F::Cmp("eq", f, v) })
            }
            Op::RmField { field, .. } if g.r.chance(3, 4) && !pool.is_empty() => {
                let strat = *g.r.pick(&[Strat::Auto, Strat::Pre, Strat::Post]);
                Some(Op::SearchF { q: g.r.pick(&pool).clone(), k: 50, strat, os: 3, f: F::Ex(field.clone()) })
            }
            Op::BatchStore { inputs } if g.r.chance(2, 3) && inputs.iter().any(|x| nsq(&x.1) > 0) => {
                inputs.iter().rev().find(|x| nsq(&x.1) > 0).map(|x| Op::Search { q: x.1.clone(), k: 50 })
            }
            Op::Del { .. } | Op::BatchDel { .. } | Op::Clear if g.r.chance(2, 3) && !pool.is_empty() => Some(Op::Search { q: g.r.pick(&pool).clone(), k: 50 }),
            Op::CStore { c, v, .. } if g.r.chance(2, 3) && nsq(v) > 0 => Some(Op::CSearch { c: c.clone(), q: v.clone(), k: 50 }),
            Op::CDel { c, .. } | Op::Drop { c } if g.r.chance(2, 3) && !pool.is_empty() => Some(Op::CSearch { c: c.clone(), q: g.r.pick(&pool).clone(), k: 50 }),
            _ => None,
        };
        ops.push(op);
        if let Some(p) = probe {
            ops.push(p);
        }
    }
    ops
}

// ------------------------------------------------------------------ running a sequence

/// oracle-only replay on a fresh engine: the kinds of violation seen, with the op index
fn replay_kinds(ops: &[Op]) -> Vec<(usize, String, &'static str)> {
    let mut r = Runner::new();
    let mut out = Vec::new();
    for (i, op) in ops.iter().enumerate() {
        let (_, v) = r.exec(op);
        for x in v {
            out.push((i, x.site, x.kind));
        }
    }
    out
}

/// `<site>/<kind>` computed from the (shrunk, 1-minimal) trace.
///  * a violation at a search that follows a mutation made after the last index build of the
///    same collection is charged to the first such mutation: `<mutation>/stale_hnsw_cache`
///    (in a 1-minimal trace every mutation that is not needed has been removed);
///  * a panic / wrong-dimension result while an index is live: the cached-index path does not
///    check the query's dimension;
///  * otherwise the search entry point and the kind (missed_match / not_topk merged).
fn classify(ops: &[Op], at: usize, site: &str, kind: &str) -> String {
    let space_of = |op: &Op| -> Option<String> {
        match op {
            Op::Store { .. }
            | Op::StoreMeta { .. }
            | Op::Del { .. }
            | Op::BatchDel { .. }
            | Op::Clear
            | Op::Build { .. }
            | Op::Search { .. }
            | Op::SearchF { .. }
            | Op::SearchM { .. }
            | Op::BatchStore { .. }
            | Op::SearchP { .. }
            | Op::UpdMeta { .. }
            | Op::RmField { .. }
            | Op::HSearch { .. } => {
                Some(String::new())
            }
            Op::Drop { c } | Op::CStore { c, .. } | Op::CDel { c, .. } | Op::CBuild { c, .. } | Op::CSearch { c, .. } | Op::CSearchF { c, .. } => Some(format!("c:{c}")),
            _ => None,
        }
    };
    let fn_name = site.split('[').next().unwrap_or(site);
    let sp = space_of(&ops[at]);
    let last_build = (0..at).rev().find(|i| matches!(ops[*i], Op::Build { .. } | Op::CBuild { .. }) && space_of(&ops[*i]) == sp);
    if let Some(b) = last_build {
        // (neither `search_similar_with_metric` nor the explicit-index entry points read the cache)
        if !matches!(ops[at], Op::SearchM { .. } | Op::HSearch { .. }) {
            if let Some(mu) = (b + 1..at).find(|i| ops[*i].is_mutation() && space_of(&ops[*i]) == sp) {
                // Confirm by experiment before charging a mutation.  Tie order in the store differs from
                // engine instance to engine instance, so a violation that depends on it (a post-filter
                // miss when equal scores straddle the oversample cut) comes and goes by chance: every
                // arm is replayed TRIES times.  Stale cache = the violation (a) reproduces as is,
                // (b) is gone with an explicit invalidation right after that mutation, and (c) is gone
                // when no index is ever built (it needs the cache at all).
                const TRIES: usize = 8;
                let count = |t: &[Op]| (0..TRIES).filter(|_| replay_kinds(t).iter().any(|(i, _, k)| *i == t.len() - 1 && *k == kind)).count();
                let mut with_inval: Vec<Op> = ops[..=mu].to_vec();
                with_inval.push(Op::Invalidate { c: sp.as_ref().and_then(|s| s.strip_prefix("c:").map(|x| x.to_string())) });
                with_inval.extend_from_slice(&ops[mu + 1..=at]);
                let no_builds: Vec<Op> = ops[..=at].iter().filter(|o| !(matches!(o, Op::Build { .. } | Op::CBuild { .. }) && space_of(o) == sp)).cloned().collect();
                if count(&with_inval) == 0 && count(&no_builds) == 0 && count(&ops[..=at]) >= TRIES - 2 {
                    return format!("vector_engine.{}/stale_hnsw_cache", ops[mu].tag());
                }
            }
            let live = !(b + 1..at).any(|i| ops[i].is_mutation() && space_of(&ops[i]) == sp);
            if live && (kind == "panic" || kind == "wrong_dimension") {
                return "vector_engine.hnsw_cache/query_dimension_not_checked".to_string();
            }
            // a post-filter miss does not need the index: fall through to the generic class
            if live && kind != "missed_match" && kind != "not_topk" {
                return format!("vector_engine.{fn_name}/with_cached_index:{kind}");
            }
        }
    }
    let kind = if kind == "missed_match" || kind == "not_topk" { "not_topk" } else { kind };
    format!("vector_engine.{fn_name}/{kind}")
}

fn ops_json(ops: &[Op]) -> Value {
    json!(ops.iter().map(|o| o.line()).collect::<Vec<_>>())
}

struct Ctx<'a> {
    rep: &'a mut Report,
    m: &'a mut Model,
    reported: BTreeSet<String>,
}

fn run_seq(cx: &mut Ctx, stream: &str, ops: &[Op]) {
    let parallel = fnv(&format!("{stream}{}", ops.len())) % 4 == 0 && !stream.starts_with("directed");
    if parallel {
        cx.rep.hit("cfg.parallel_threshold=2");
    }
    let mut r = Runner::new_cfg(parallel);
    cx.m.ask("reset");
    let mut nontrivial_search = false;
    let mut mutated = false;
    let mut first_violations: Vec<(usize, String, &'static str, String)> = Vec::new();
    for (i, op) in ops.iter().enumerate() {
        let live_before = match op {
            Op::Search { .. } | Op::SearchF { .. } | Op::SearchP { .. } => r.dflt.index_live(),
            Op::CSearch { c, .. } | Op::CSearchF { c, .. } => r.named.get(c).map_or(false, |s| s.index_live()),
            _ => false,
        };
        r.extra_lines.clear();
        let (obs, viol) = r.exec(op);
        cx.rep.hit(&format!("op.{}", op.tag()));
        if let Op::HSearch { m, st, .. } = op {
            cx.rep.hit(&format!("explicit_index.{}.{}", m.name(), st.name()));
        }
        let line = match (&obs, op) {
            (Obs::Search { ann: Some(keys), .. }, Op::Search { q, k }) => format!("search_ann {} {k} {}", ints(q), keys_s(keys)),
            (Obs::Search { ann: Some(keys), .. }, Op::CSearch { c, q, k }) => format!("csearch_ann {c} {} {k} {}", ints(q), keys_s(keys)),
            (Obs::Search { ann: Some(keys), .. }, Op::SearchF { q, k, strat, os, f }) => {
                format!("searchf_ann {} {k} {} {os} {} {}", ints(q), strat.name(), f.rpn(), keys_s(keys))
            }
            (Obs::Search { ann: Some(keys), .. }, Op::SearchP { q, k, skip, limit }) => {
                format!("searchp_ann {} {k} {skip} {} {}", ints(q), limit.map_or("-".to_string(), |l| l.to_string()), keys_s(keys))
            }
            _ => op.line(),
        };
        let ans = match (&obs, op) {
            // Auto over a collection larger than its sample: the Lean theorem
            // coll_filtered_is_pre_or_post_for_every_scan says the answer is that of the pre-filter arm
            // or of the post-filter arm, whatever the scan order was — the engine's answer is compared
            // with the arm it agrees with (with the pre-filter arm when it agrees with neither)
            (Obs::Search { res, .. }, Op::CSearchF { c, q, k, strat: Strat::Auto, os, f }) if r.auto_big => {
                cx.rep.hit("search_filtered_in_collection.auto.collection_larger_than_sample");
                let pre = cx.m.ask(&format!("csearchf {c} {} {k} pre {os} {}", ints(q), f.rpn()));
                let post = cx.m.ask(&format!("csearchf {c} {} {k} post {os} {}", ints(q), f.rpn()));
                let agrees = |rep: &mut Report, ans: &str| {
                    let (a, b) = compare_search(rep, stream, &op.line(), res, &parse_model(ans), None);
                    a == b
                };
                if agrees(cx.rep, &pre) {
                    cx.rep.hit("search_filtered_in_collection.auto.big.answer_of_prefilter_arm");
                    pre
                } else if agrees(cx.rep, &post) {
                    cx.rep.hit("search_filtered_in_collection.auto.big.answer_of_postfilter_arm_only");
                    post
                } else {
                    pre
                }
            }
            _ => cx.m.ask(&line),
        };
        match &obs {
            Obs::Plain(s) => {
                if s.starts_with("ok") && op.is_mutation() {
                    mutated = true;
                }
                if let Some(e) = s.strip_prefix("err ") {
                    cx.rep.hit(&format!("err.{e}"));
                }
                if let Some(t) = s.strip_prefix("ok ") {
                    if matches!(op, Op::Store { .. } | Op::StoreMeta { .. } | Op::CStore { .. }) {
                        cx.rep.hit(&format!("repr.{}", t.split(':').next().unwrap_or("")));
                    }
                }
                let sname = format!("{stream}.{}", op.tag());
                cx.rep.compare(&sname, || json!({"ops": ops_json(&ops[..=i])}), s, &ans);
            }
            Obs::Panic(p) => {
                cx.rep.hit("impl.panic");
                // the model has no panics (cached_index_dimension_guard: the index never sees a
                // query of another dimension): any panic of the engine is a disagreement
                let sname = format!("{stream}.{}", op.tag());
                cx.rep.compare(&sname, || json!({"ops": ops_json(&ops[..=i])}), &format!("panic: {p}"), &ans);
            }
            Obs::Search { res, .. } => {
                let ma = parse_model(&ans);
                cx.rep.hit(&format!("model.{}", ma.kind.split(' ').next().unwrap_or("")));
                if ans.starts_with("noindex") {
                    cx.rep.hit("model.ann_offered_but_no_index_consulted");
                }
                if let Ok(v) = res {
                    if !v.is_empty() {
                        nontrivial_search = true;
                    }
                    if live_before {
                        cx.rep.hit("search.with_live_index");
                    }
                }
                if let Err(e) = res {
                    cx.rep.hit(&format!("err.{e}"));
                }
                let page = match op {
                    Op::SearchP { skip, limit, .. } => Some((*skip, *limit, r.last_total.unwrap_or(usize::MAX))),
                    _ => None,
                };
                // small_index_search_is_exact (Lean): a default-configuration index (m0 = 32,
                // ef_construction = 200, ef_search = 50) over at most 32 vectors is exact, so an
                // answer taken from a live cached index must ALSO be the exact top-k
                if let (true, Ok(v)) = (live_before, res) {
                    let empty = Space::default();
                    let probe: Option<(&Space, &Vec<i64>, usize, usize, usize)> = match op {
                        Op::Search { q, k } => Some((&r.dflt, q, *k, 0, *k)),
                        Op::SearchP { q, k, skip, limit } => Some((&r.dflt, q, limit.unwrap_or(usize::MAX), *skip, (skip + limit.unwrap_or(*k)).min(*k))),
                        Op::CSearch { c, q, k } => Some((r.named.get(c).unwrap_or(&empty), q, *k, 0, *k)),
                        _ => None,
                    };
                    if let Some((sp, q, k, skip, inner)) = probe {
                        if sp.index_consulted(q.len()) && sp.items.len() <= 32 {
                            let mut scratch = Vec::new();
                            oracle_page("small-index", v, q, k, skip, inner, Metric::Cos, sp, None, false, false, &mut scratch);
                            let exact = !scratch.iter().any(|x| x.kind == "missed_match" || x.kind == "not_topk");
                            cx.rep.hit("search.small_live_index.checked_exact");
                            cx.rep.compare(&format!("{stream}.small_index_is_exact"), || json!({"ops": ops_json(&ops[..=i]), "impl_result": format!("{res:?}")}), if exact { "exact" } else { "not-exact" }, "exact");
                        }
                    }
                }
                // explicit-index entry points: the index was built from the current data just now, so with
                // at most 32 vectors the answer must be the exact top-k (small_index_search_is_exact)
                if let (Op::HSearch { q, k, rerank, m, .. }, Ok(v)) = (op, res) {
                    let sp = &r.dflt;
                    // (a re-ranked answer is the cosine top-k of the candidates the index picked by ITS metric)
                    if (!*rerank || *m == Metric::Cos) && nsq(q) > 0 && *k > 0 && sp.items.len() <= 32 && sp.items.values().next().map_or(false, |x| x.0.len() == q.len()) {
                        let mut scratch = Vec::new();
                        oracle_page("small-index", v, q, *k, 0, *k, *m, sp, None, false, false, &mut scratch);
                        let exact = !scratch.iter().any(|x| x.kind == "missed_match" || x.kind == "not_topk");
                        cx.rep.hit("search.explicit_small_index.checked_exact");
                        cx.rep.compare(&format!("{stream}.small_index_is_exact"), || json!({"ops": ops_json(&ops[..=i]), "impl_result": format!("{res:?}")}), if exact { "exact" } else { "not-exact" }, "exact");
                    }
                }
                let (a, b) = compare_search(cx.rep, stream, &op.line(), res, &ma, page);
                let sname = format!("{stream}.{}", op.tag());
                cx.rep.compare(&sname, || json!({"ops": ops_json(&ops[..=i]), "impl_result": format!("{res:?}"), "model_raw": ma.raw}), &a, &b);
            }
        }
        for l in std::mem::take(&mut r.extra_lines) {
            cx.rep.hit("op.invalidate_hnsw_cache(index owner, metric reconfigured)");
            let a = cx.m.ask(&l);
            cx.rep.compare(&format!("{stream}.invalidate_hnsw_cache"), || json!({"ops": ops_json(&ops[..=i]), "extra": l}), "ok", &a);
        }
        // the first violation of each KIND is recorded once per sequence (an earlier failure of a known
        // kind must not hide a later one of another kind); the run continues (the shadow tracks the
        // intended state, the model the code's state: neither is disturbed by a failed oracle)
        for v in viol {
            let completeness = |k: &str| k == "missed_match" || k == "not_topk";
            if !first_violations.iter().any(|(_, _, k, _)| *k == v.kind || (completeness(k) && completeness(v.kind))) {
                first_violations.push((i, v.site, v.kind, v.what));
            }
        }
    }
    let key = ops.iter().map(|o| o.line()).collect::<Vec<_>>().join(";");
    cx.rep.case(stream, if nontrivial_search && mutated { Some(&key) } else { None });
    if cx.rep.samples.len() < 4 {
        cx.rep.sample(json!({"stream": stream, "ops": ops_json(&ops[..ops.len().min(12)])}));
    }
    for (at, site, kind, what) in first_violations {
        cx.rep.hit(&format!("violation.{kind}"));
        // shrink on "the same kind of violation still occurs", then classify the shrunk trace
        let prefix = &ops[..=at];
        let mut fails = |cand: &[Op]| replay_kinds(cand).iter().any(|(_, _, k)| *k == kind);
        let shrunk = shrink_list(prefix, &mut fails);
        let ks = replay_kinds(&shrunk);
        let (sat, ssite, skind) = ks.iter().find(|(_, _, k)| *k == kind).cloned().unwrap_or((shrunk.len() - 1, site.clone(), kind));
        let class = classify(&shrunk, sat, &ssite, skind);
        if cx.reported.insert(class.clone()) {
            cx.rep.violation(&class, &what, json!({"ops": ops_json(&shrunk[..=sat]), "found_in_stream": stream}));
        } else {
            cx.rep.hit(&format!("violation.repeat.{class}"));
        }
    }
}

// ------------------------------------------------------------------ directed scenarios

fn directed() -> Vec<(&'static str, Vec<Op>)> {
    let s = |k: &str, v: &[i64]| Op::Store { key: k.into(), v: v.to_vec() };
    let se = |q: &[i64], k: usize| Op::Search { q: q.to_vec(), k };
    let b = Op::Build { via_engine: true, st: St::Dense };
    let cs = |c: &str, k: &str, v: &[i64], md: &[(&str, i64)]| Op::CStore {
        c: c.into(),
        key: k.into(),
        v: v.to_vec(),
        md: md.iter().map(|(a, b)| (a.to_string(), *b)).collect(),
    };
    let pf_md = |v: i64| -> Md { vec![("f".to_string(), v)] };
    let hs = |q: &[i64], k: usize, rerank: bool| Op::HSearch { q: q.to_vec(), k, rerank, m: Metric::Cos, st: St::Dense };
    let hm = |q: &[i64], k: usize, m: Metric, st: St| Op::HSearch { q: q.to_vec(), k, rerank: false, m, st };
    vec![
        // regression cases of 733b279c: the explicit-index entry points must refuse a query of another
        // dimension than the index (longer: scored on a prefix before the fix; shorter: panicked)
        ("explicit-index-longer-query", vec![s("a", &[1, 0, 0]), s("b", &[0, 1, 0]), hs(&[1, 0, 0], 2, false), hs(&[1, 0, 0, 5], 2, false), hs(&[0, 1, 0], 2, false)]),
        ("explicit-index-shorter-query", vec![s("a", &[1, 0, 0]), s("b", &[0, 1, 0]), hs(&[1, 0], 2, false), hs(&[0, 1, 0], 1, false)]),
        ("explicit-index-rerank-longer-query", vec![s("a", &[1, 0, 0]), s("b", &[0, 1, 0]), hs(&[1, 0, 0], 2, true), hs(&[1, 0, 0, 5], 2, true), hs(&[0, 1, 0], 2, true)]),
        ("explicit-index-rerank-shorter-query", vec![s("a", &[1, 0, 0]), s("b", &[0, 1, 0]), hs(&[1, 0], 2, true), hs(&[0, 1, 0], 1, true)]),
        // highly sparse vectors behind an index of each metric, nodes held by the automatic sparse/dense
        // strategy and dense; the queries have mass where the sparse nodes are zero (a distance taken over
        // a node's stored entries only ranks `a` first and reports 1.0 for it; the truth is b, a, d, c)
        (
            "explicit-index-sparse-nodes-each-metric",
            vec![
                s("a", &[1, 0, 0, 0, 0, 0, 0, 0]),
                s("b", &[0, 0, 0, 0, 0, 0, 0, 3]),
                s("c", &[0, 2, 0, 0, 0, 0, 0, 0]),
                s("d", &[1, 1, 1, 1, 1, 1, 1, 1]),
                Op::SearchM { m: Metric::Euc, q: vec![1, 0, 0, 0, 0, 0, 0, 2], k: 4 },
                hm(&[1, 0, 0, 0, 0, 0, 0, 2], 4, Metric::Euc, St::Dense),
                hm(&[1, 0, 0, 0, 0, 0, 0, 2], 4, Metric::Euc, St::Auto),
                hm(&[1, 0, 0, 0, 0, 0, 0, 2], 1, Metric::Euc, St::Auto),
                hm(&[2, 0, 0, 0, 0, 0, 0, 0], 4, Metric::Euc, St::Auto),
                hm(&[1, 0, 0, 0, 0, 0, 0, 2], 4, Metric::Dot, St::Auto),
                hm(&[1, 0, 0, 0, 0, 0, 0, 2], 4, Metric::Cos, St::Auto),
                hm(&[0, 0, 5, -1, 0, 0, 0, 0], 3, Metric::Euc, St::Auto),
                hm(&[0, 0, 5, -1, 0, 0, 0, 0], 3, Metric::Cos, St::Auto),
                Op::Build { via_engine: false, st: St::Auto },
                se(&[1, 0, 0, 0, 0, 0, 0, 2], 4),
            ],
        ),
        (
            "explicit-index-arguments",
            vec![hs(&[1, 0], 2, false), s("a", &[1, 0, 0]), hs(&[], 2, false), hs(&[1, 0, 0], 0, false), s("b", &[0, 1]), hs(&[1, 0, 0], 2, false), hs(&[1, 0], 2, true)],
        ),
        // the two KNOWN FINDINGS (post-filter with a truncated oversample pool) are reproduced
        // first, deterministically, so that their classes are reported from these traces on every run
        (
            "post-filter-oversample",
            vec![
                Op::StoreMeta { key: "a".into(), v: vec![4, 0], md: pf_md(0) },
                Op::StoreMeta { key: "b".into(), v: vec![4, 1], md: pf_md(0) },
                Op::StoreMeta { key: "c".into(), v: vec![4, 2], md: pf_md(0) },
                Op::StoreMeta { key: "d".into(), v: vec![4, 3], md: pf_md(0) },
                Op::StoreMeta { key: "e".into(), v: vec![0, 1], md: pf_md(1) },
                Op::SearchF { q: vec![1, 0], k: 1, strat: Strat::Pre, os: 3, f: F::Cmp("eq", "f".into(), 1) },
                Op::SearchF { q: vec![1, 0], k: 1, strat: Strat::Auto, os: 3, f: F::Cmp("eq", "f".into(), 1) },
            ],
        ),
        (
            "collection-post-filter-oversample",
            vec![
                cs("c0", "a", &[4, 0], &[("f", 0)]),
                cs("c0", "b", &[4, 1], &[("f", 0)]),
                cs("c0", "c", &[4, 2], &[("f", 0)]),
                cs("c0", "d", &[4, 3], &[("f", 0)]),
                cs("c0", "e", &[0, 1], &[("f", 1)]),
                Op::CSearchF { c: "c0".into(), q: vec![1, 0], k: 1, strat: Strat::Pre, os: 3, f: F::Cmp("eq", "f".into(), 1) },
                Op::CSearchF { c: "c0".into(), q: vec![1, 0], k: 1, strat: Strat::Post, os: 3, f: F::Cmp("eq", "f".into(), 1) },
                Op::CSearchF { c: "c0".into(), q: vec![1, 0], k: 1, strat: Strat::Auto, os: 3, f: F::Cmp("eq", "f".into(), 1) },
            ],
        ),
        ("index-then-delete", vec![s("a", &[1, 0, 0]), s("b", &[0, 1, 0]), b.clone(), Op::Del { key: "a".into() }, se(&[1, 0, 0], 5)]),
        ("index-then-overwrite", vec![s("a", &[1, 0, 0]), s("b", &[0, 1, 0]), b.clone(), s("a", &[0, 0, 1]), se(&[1, 0, 0], 5), Op::Get { key: "a".into() }]),
        ("index-then-batch-delete", vec![s("a", &[1, 0, 0]), s("b", &[0, 1, 0]), b.clone(), Op::BatchDel { keys: vec!["a".into()] }, se(&[1, 0, 0], 5)]),
        ("index-then-clear", vec![s("a", &[1, 0, 0]), s("b", &[0, 1, 0]), b.clone(), Op::Clear, se(&[1, 0, 0], 5)]),
        (
            "index-then-overwrite-with-metadata",
            vec![s("a", &[1, 0, 0]), s("b", &[0, 1, 0]), b.clone(), Op::StoreMeta { key: "a".into(), v: vec![0, 0, 1], md: vec![("f".into(), 1)] }, se(&[1, 0, 0], 5)],
        ),
        (
            "collection-index-then-drop",
            vec![
                Op::Create { c: "c0".into(), dim: None, m: Metric::Cos },
                cs("c0", "a", &[1, 0, 0], &[]),
                cs("c0", "b", &[0, 1, 0], &[]),
                Op::CBuild { c: "c0".into(), st: St::Dense },
                Op::Drop { c: "c0".into() },
                Op::CSearch { c: "c0".into(), q: vec![1, 0, 0], k: 5 },
            ],
        ),
        (
            "collection-index-then-store-delete",
            vec![
                cs("c1", "a", &[1, 0, 0], &[]),
                cs("c1", "b", &[0, 1, 0], &[]),
                Op::CBuild { c: "c1".into(), st: St::Dense },
                Op::CSearch { c: "c1".into(), q: vec![1, 0, 0], k: 5 },
                cs("c1", "a", &[0, 0, 1], &[]),
                Op::CSearch { c: "c1".into(), q: vec![1, 0, 0], k: 5 },
                Op::CBuild { c: "c1".into(), st: St::Dense },
                Op::CDel { c: "c1".into(), key: "b".into() },
                Op::CSearch { c: "c1".into(), q: vec![0, 1, 0], k: 5 },
            ],
        ),
        (
            "collection-prefilter-metric",
            vec![
                Op::Create { c: "c2".into(), dim: Some(2), m: Metric::Euc },
                cs("c2", "near", &[1, 1], &[("f", 1)]),
                cs("c2", "far", &[60, 0], &[("f", 1)]),
                Op::CSearch { c: "c2".into(), q: vec![2, 0], k: 2 },
                Op::CSearchF { c: "c2".into(), q: vec![2, 0], k: 2, strat: Strat::Post, os: 3, f: F::Ex("f".into()) },
                Op::CSearchF { c: "c2".into(), q: vec![2, 0], k: 2, strat: Strat::Pre, os: 3, f: F::Ex("f".into()) },
                Op::CSearchF { c: "c2".into(), q: vec![2, 0], k: 1, strat: Strat::Auto, os: 3, f: F::Cmp("eq", "f".into(), 7) },
                // zero query: nothing under cosine only; Euclid / dot rank by distance to the origin
                Op::CSearch { c: "c2".into(), q: vec![0, 0], k: 2 },
                Op::CSearchF { c: "c2".into(), q: vec![0, 0], k: 2, strat: Strat::Pre, os: 3, f: F::Ex("f".into()) },
                Op::CSearchF { c: "c2".into(), q: vec![0, 0], k: 2, strat: Strat::Post, os: 3, f: F::Ex("f".into()) },
                Op::Create { c: "c1".into(), dim: None, m: Metric::Dot },
                cs("c1", "small", &[1, 1], &[("f", 1)]),
                cs("c1", "big", &[-60, 1], &[("f", 1)]),
                Op::CSearchF { c: "c1".into(), q: vec![-1, 0], k: 2, strat: Strat::Pre, os: 3, f: F::Ex("f".into()) },
                Op::CSearchF { c: "c1".into(), q: vec![0, 0], k: 2, strat: Strat::Pre, os: 3, f: F::Ex("f".into()) },
                Op::CSearchF { c: "c0".into(), q: vec![0, 0], k: 2, strat: Strat::Pre, os: 3, f: F::Ex("f".into()) },
            ],
        ),
        (
            "index-then-update-metadata",
            vec![
                Op::StoreMeta { key: "a".into(), v: vec![1, 0, 0], md: pf_md(0) },
                Op::StoreMeta { key: "b".into(), v: vec![0, 1, 0], md: pf_md(0) },
                b.clone(),
                Op::UpdMeta { key: "b".into(), md: vec![("f".into(), 1), ("g".into(), 7)] },
                se(&[1, 0, 0], 5),
                Op::SearchF { q: vec![1, 0, 0], k: 5, strat: Strat::Post, os: 3, f: F::Cmp("eq", "f".into(), 1) },
                Op::SearchF { q: vec![1, 0, 0], k: 5, strat: Strat::Pre, os: 3, f: F::Cmp("eq", "f".into(), 1) },
                Op::RmField { key: "b".into(), field: "f".into() },
                Op::SearchF { q: vec![1, 0, 0], k: 5, strat: Strat::Post, os: 3, f: F::Ex("f".into()) },
                Op::SearchF { q: vec![1, 0, 0], k: 5, strat: Strat::Pre, os: 3, f: F::Ex("g".into()) },
                Op::UpdMeta { key: "zz".into(), md: pf_md(1) },
                Op::RmField { key: "zz".into(), field: "f".into() },
                Op::RmField { key: "a".into(), field: "nosuch".into() },
                se(&[1, 0, 0], 5),
            ],
        ),
        (
            "index-then-batch-store",
            vec![
                s("a", &[1, 0, 0]),
                s("b", &[0, 1, 0]),
                b.clone(),
                Op::BatchStore { inputs: vec![] },
                se(&[1, 0, 0], 5),
                Op::BatchStore { inputs: vec![("a".into(), vec![0, 0, 1]), ("c".into(), vec![])] },
                se(&[1, 0, 0], 5),
                Op::BatchStore { inputs: vec![("a".into(), vec![0, 0, 1]), ("c".into(), vec![1, 1, 0]), ("a".into(), vec![0, 1, 1])] },
                se(&[1, 0, 0], 5),
                Op::Get { key: "a".into() },
            ],
        ),
        (
            "pagination-pages",
            vec![
                s("a", &[4, 0]),
                s("b", &[4, 1]),
                s("c", &[4, 2]),
                s("d", &[4, 3]),
                s("e", &[0, 1]),
                Op::SearchP { q: vec![1, 0], k: 5, skip: 0, limit: Some(2) },
                Op::SearchP { q: vec![1, 0], k: 5, skip: 2, limit: Some(2) },
                Op::SearchP { q: vec![1, 0], k: 5, skip: 4, limit: Some(2) },
                Op::SearchP { q: vec![1, 0], k: 3, skip: 1, limit: None },
                Op::SearchP { q: vec![1, 0], k: 3, skip: 0, limit: Some(0) },
                Op::SearchP { q: vec![1, 0], k: 3, skip: 9, limit: Some(1) },
                b.clone(),
                Op::SearchP { q: vec![1, 0], k: 5, skip: 1, limit: Some(2) },
            ],
        ),
        ("index-longer-query", vec![s("a", &[1, 0, 0]), s("b", &[0, 1, 0]), b.clone(), se(&[1, 0, 0, 5], 5), se(&[0, 1, 0], 5)]),
        ("index-shorter-query", vec![s("a", &[1, 0, 0]), s("b", &[0, 1, 0]), b.clone(), se(&[1, 0], 5), se(&[0, 1, 0], 5)]),
        (
            "index-other-dimension-stored",
            vec![s("a", &[1, 0, 0]), s("b", &[0, 1, 0]), Op::Build { via_engine: false, st: St::Dense }, Op::BatchDel { keys: vec!["zz".into()] }, se(&[0, 1, 0], 5), se(&[1, 0], 5)],
        ),
        (
            "collection-index-other-dimension-query",
            vec![
                cs("c1", "a", &[1, 0, 0], &[("f", 1)]),
                cs("c1", "b", &[0, 1, 0], &[("f", 1)]),
                Op::CBuild { c: "c1".into(), st: St::Dense },
                Op::CSearch { c: "c1".into(), q: vec![1, 0, 0, 5], k: 5 },
                Op::CSearch { c: "c1".into(), q: vec![1, 0], k: 5 },
                Op::CSearchF { c: "c1".into(), q: vec![1, 0], k: 5, strat: Strat::Post, os: 3, f: F::Ex("f".into()) },
                Op::CSearch { c: "c1".into(), q: vec![1, 0, 0], k: 5 },
            ],
        ),
        (
            "mixed-dimension-ties",
            vec![s("a", &[1, 2]), s("b", &[2, 4]), s("c", &[-1, -2]), s("d", &[1, 2, 3]), s("z", &[0, 0]), se(&[3, 6], 2), se(&[3, 6], 50), Op::SearchM { m: Metric::Euc, q: vec![0, 0], k: 3 }, Op::SearchM { m: Metric::Dot, q: vec![1, 1], k: 4 }],
        ),
    ]
}

// ------------------------------------------------------------------ collections larger than the Auto sample

fn big_vec(i: usize, dim: usize) -> Vec<i64> {
    let mut v: Vec<i64> = (0..dim).map(|d| ((i * (7 + 6 * d) + 3 * d) % 61) as i64 - 30).collect();
    if v.iter().all(|x| *x == 0) {
        v[0] = 1;
    }
    v
}
/// metadata of the `i`-th vector: `g` = i (unique), `t` = i % 10 (10 % per value), `h` = i % 2 (50 %),
/// `r` = i % 33 (~3 % per value), `z` = 1 on the `rare` positions only
fn big_md(i: usize, rare: &[usize]) -> Md {
    let mut md: Md = vec![("g".to_string(), i as i64), ("t".to_string(), (i % 10) as i64), ("h".to_string(), (i % 2) as i64), ("r".to_string(), (i % 33) as i64)];
    if rare.contains(&i) {
        md.push(("z".to_string(), 1));
    }
    md
}
fn big_stores(c: &str, n: usize, dim: usize, rare: &[usize]) -> Vec<Op> {
    (0..n).map(|i| Op::CStore { c: c.into(), key: format!("v{i}"), v: big_vec(i, dim), md: big_md(i, rare) }).collect()
}
fn eqf(field: &str, v: i64) -> F {
    F::Cmp("eq", field.to_string(), v)
}

/// Named collections with MORE vectors than the Auto strategy samples (100): every filter strategy,
/// selectivities 0 % / ~1-3 % / 10 % / 50 % / 100 %.  Which keys the estimate samples is the store's
/// business (hash order), so the minimal history is made order independent: each of the 101 vectors
/// carries its own tag value and is asked for by its tag — for every scan order one of them lies
/// outside the first 100 keys.  Post-filter / non-selective Auto searches oversample the whole
/// collection, so every search here owes the exact filtered top-k.
fn big_directed() -> Vec<(&'static str, Vec<Op>)> {
    let sf = |c: &str, q: &[i64], k: usize, strat: Strat, os: usize, f: F| Op::CSearchF { c: c.into(), q: q.to_vec(), k, strat, os, f };
    let mut out = Vec::new();
    // 1. the minimal history: 101 vectors, Auto, a filter only one vector satisfies, asked for each vector
    let mut ops = big_stores("big", 101, 2, &[]);
    for i in 0..101 {
        ops.push(sf("big", &[1, 0], 1, Strat::Auto, 3, eqf("g", i as i64)));
    }
    out.push(("bigcoll.auto-selective-each-of-101", ops));
    // 2. its neighbours: exactly 100 (everything sampled), 101 and 150; every strategy x selectivity
    for (name, n, metric) in [("bigcoll.strategies-100", 100usize, Metric::Cos), ("bigcoll.strategies-101", 101, Metric::Cos), ("bigcoll.strategies-150-euclid", 150, Metric::Euc)] {
        let mut ops = Vec::new();
        if metric != Metric::Cos {
            ops.push(Op::Create { c: "big".into(), dim: None, m: metric });
        }
        let rare = [n - 1, n - 2, n / 2];
        ops.extend(big_stores("big", n, 2, &rare));
        let filters = [eqf("g", -1), eqf("z", 1), eqf("r", 5), F::Cmp("ge", "g".into(), n as i64 - 4), eqf("t", 3), eqf("h", 1), F::Ex("g".into()), F::T];
        for f in &filters {
            for strat in [Strat::Auto, Strat::Pre, Strat::Post] {
                // post-filter (requested or chosen) over a pool that covers the collection: exact
                let os = if strat == Strat::Pre { 3 } else { n };
                ops.push(sf("big", &[3, -2], 5, strat, os, f.clone()));
            }
        }
        // selective filters under Auto with the DEFAULT oversample: the estimate must pick pre-filter
        for f in [eqf("z", 1), eqf("r", 5), F::Cmp("ge", "g".into(), n as i64 - 4)] {
            ops.push(sf("big", &[-1, 4], 4, Strat::Auto, 3, f));
        }
        // delete / overwrite some of the rare ones and ask again
        ops.push(Op::CDel { c: "big".into(), key: format!("v{}", n - 1) });
        ops.push(Op::CStore { c: "big".into(), key: format!("v{}", n / 2), v: vec![9, 9], md: big_md(n / 2, &[]) });
        ops.push(Op::CStore { c: "big".into(), key: "late".into(), v: vec![-1, 4], md: vec![("z".to_string(), 1)] });
        ops.push(sf("big", &[-1, 4], 4, Strat::Auto, 3, eqf("z", 1)));
        ops.push(sf("big", &[-1, 4], 4, Strat::Pre, 3, eqf("z", 1)));
        out.push((name, ops));
    }
    out
}

/// random histories of that shape: one collection of 101..=400 low-dimensional vectors, 1..=6 `rare`
/// vectors (so that Auto must pre-filter `z == 1`) at random places — with n keys and m rare ones at
/// least one lies outside the sampled 100 with probability 1 - (100/n)^m — then searches with every
/// strategy setting and selectivity, a few deletes / overwrites / late stores, and searches again
fn big_gen(r: &mut Rng) -> Vec<Op> {
    let n = 101 + r.below(300) as usize;
    let dim = 2 + r.below(2) as usize;
    let c = "big".to_string();
    let mut ops = Vec::new();
    match r.below(4) {
        0 => ops.push(Op::Create { c: c.clone(), dim: None, m: Metric::Euc }),
        1 => ops.push(Op::Create { c: c.clone(), dim: Some(dim), m: Metric::Dot }),
        _ => {}
    }
    let m = 1 + r.below(6) as usize;
    let mut rare: Vec<usize> = Vec::new();
    while rare.len() < m {
        let i = r.below(n as u64) as usize;
        if !rare.contains(&i) {
            rare.push(i);
        }
    }
    ops.extend(big_stores(&c, n, dim, &rare));
    let q = |r: &mut Rng| -> Vec<i64> {
        let mut v: Vec<i64> = (0..dim).map(|_| r.range(-9, 9)).collect();
        if v.iter().all(|x| *x == 0) {
            v[0] = 2;
        }
        v
    };
    let search = |r: &mut Rng, ops: &mut Vec<Op>| {
        let f = match r.below(10) {
            0 => eqf("g", -1),
            1 | 2 | 3 => eqf("z", 1),
            4 => eqf("r", r.range(0, 32)),
            5 => F::And(Box::new(eqf("z", 1)), Box::new(eqf("h", r.range(0, 1)))),
            6 => eqf("t", r.range(0, 9)),
            7 => eqf("h", r.range(0, 1)),
            8 => F::Ex("g".into()),
            _ => F::Cmp("ge", "g".into(), n as i64 - 1 - r.range(0, 8)),
        };
        let strat = *r.pick(&[Strat::Auto, Strat::Auto, Strat::Auto, Strat::Pre, Strat::Post]);
        let k = 1 + r.below(12) as usize;
        // Auto must pre-filter when fewer than 10 % of every sample can match (at most 6 rare + 3 late stores of them);
        // otherwise the pool covers the collection, so the post-filter answer is exact too
        let selective = matches!(&f, F::Cmp("eq", fld, _) if fld == "z" || fld == "g") || matches!(&f, F::And(..));
        let os = if strat == Strat::Pre || (strat == Strat::Auto && selective && r.chance(1, 2)) { 1 + r.below(4) as usize } else { n + 8 };
        ops.push(Op::CSearchF { c: "big".into(), q: q(r), k, strat, os, f });
    };
    for _ in 0..4 + r.below(4) {
        search(r, &mut ops);
    }
    for _ in 0..r.below(4) {
        match r.below(3) {
            0 => ops.push(Op::CDel { c: c.clone(), key: format!("v{}", r.pick(&rare)) }),
            1 => {
                let i = r.below(n as u64) as usize;
                ops.push(Op::CStore { c: c.clone(), key: format!("v{i}"), v: q(r), md: big_md(i, &rare) });
            }
            _ => ops.push(Op::CStore { c: c.clone(), key: format!("late{}", r.below(3)), v: q(r), md: vec![("z".to_string(), 1)] }),
        }
    }
    for _ in 0..2 + r.below(3) {
        search(r, &mut ops);
    }
    ops
}

fn big_stream(cx: &mut Ctx, root: &Rng, scale: u64) {
    let base = root.fork("bigcoll");
    for i in 0..8 * scale {
        let mut r = base.fork(&i.to_string());
        let ops = big_gen(&mut r);
        run_seq(cx, "bigcoll", &ops);
    }
}

// ------------------------------------------------------------------ outside the quantifier

/// What the engine does with a caller-supplied index that does not fit the collection: a cosine
/// index cached for a collection that is then configured with the Euclidean metric keeps being
/// consulted, and its cosine scores are reported.  `cache_hnsw_index` takes whatever index the
/// caller hands it; keeping it consistent with the collection is the caller's side of the
/// contract, so this is recorded as an observation, not judged.
fn observe_foreign_index(rep: &mut Report) {
    let eng = VectorEngine::new();
    let vs: [(&str, [f32; 2]); 2] = [("near", [1.0, 1.0]), ("far", [60.0, 0.0])];
    for (k, v) in vs {
        eng.store_in_collection("obs", k, v.to_vec()).ok();
    }
    let keys = eng.list_collection_keys("obs");
    let idx = HNSWIndex::with_config(HNSWConfig::default());
    for k in &keys {
        idx.insert(eng.get_from_collection("obs", k).unwrap_or_default());
    }
    eng.cache_hnsw_index("obs", Arc::new(idx), keys);
    let created = eng.create_collection("obs", VectorCollectionConfig::default().with_metric(DistanceMetric::Euclidean)).is_ok();
    let with_index = conv(eng.search_in_collection("obs", &[2.0, 0.0], 2));
    eng.invalidate_hnsw_cache("obs");
    let without = conv(eng.search_in_collection("obs", &[2.0, 0.0], 2));
    rep.observe(json!({
        "what": "caller-supplied cosine HNSW index cached for collection 'obs', then create_collection('obs', Euclidean): search_in_collection keeps answering from the cosine index until the caller invalidates it (the engine does not compare the index's metric with the collection's)",
        "create_collection_ok": created,
        "search_with_foreign_index": format!("{with_index:?}"),
        "search_after_invalidate": format!("{without:?}"),
    }));
}


// ------------------------------------------------------------------ the HNSW index itself

/// order-isomorphic image of a (non-NaN) f32 in u32: `a < b` iff `key(a) < key(b)`, `a == b` iff
/// the keys are equal (`-0.0` and `+0.0` share a key)
fn dist_key(d: f32) -> u32 {
    if d == 0.0 {
        return 0x8000_0000;
    }
    let b = d.to_bits();
    if b >> 31 == 0 {
        b | 0x8000_0000
    } else {
        !b
    }
}

/// `HNSWIndex::next_random` + `random_level` (private): an xorshift on a `usize` seeded with 42,
/// `floor(-ln(r / usize::MAX) * ml)` capped at 32.  The level is an INPUT of the model's insert
/// (the theorems hold for every level sequence); were this copy wrong, the model's graph and
/// therefore its search answers would differ from the real index's.
struct LevelGen {
    seed: usize,
    ml: f64,
}
impl LevelGen {
    fn next(&mut self) -> usize {
        let mut s = self.seed;
        s ^= s << 13;
        s ^= s >> 7;
        s ^= s << 17;
        self.seed = s;
        let f = (s as f64) / (usize::MAX as f64);
        let level = (-f.ln() * self.ml).floor() as usize;
        level.min(32)
    }
}

fn hmetric_name(m: HNSWDistanceMetric) -> &'static str {
    match m {
        HNSWDistanceMetric::Cosine => "cosine",
        HNSWDistanceMetric::Euclidean => "euclid",
        HNSWDistanceMetric::DotProduct => "dot",
    }
}

/// One HNSW case: a real `HNSWIndex` with a small configuration (so that beams are truncated, lists
/// pruned and several layers exist with a few dozen nodes) against the model graph, insert by
/// insert and search by search.  The distances the model is given are the ones the real index
/// computes (`EmbeddingStorage::distance_dense`, public), as order keys.
fn hnsw_case(rep: &mut Report, m: &mut Model, r: &mut Rng, big: bool, directed: Option<(&str, Vec<Vec<i64>>, Vec<(Vec<i64>, usize, usize)>, (usize, usize, usize, f64), HNSWDistanceMetric)>) {
    let stream = if directed.is_some() { "hnsw.directed" } else { "hnsw" };
    let directed_case = directed.is_some();
    let (vecs, queries, (cm, cm0, efc, ml), metric, label): (Vec<Vec<i64>>, Vec<(Vec<i64>, usize, usize)>, (usize, usize, usize, f64), HNSWDistanceMetric, String) = match directed {
        Some((name, v, q, c, me)) => (v, q, c, me, name.to_string()),
        None => {
            let metric = *r.pick(&[HNSWDistanceMetric::Cosine, HNSWDistanceMetric::Cosine, HNSWDistanceMetric::Euclidean, HNSWDistanceMetric::DotProduct]);
            let cm = *r.pick(&[1usize, 2, 2, 3, 4, 16]);
            let cm0 = if r.chance(1, 2) { cm } else { 2 * cm };
            let efc = *r.pick(&[1usize, 2, 3, 4, 8, 200]);
            let ml = if r.chance(1, 3) { 1.0 } else { 1.0 / (cm.max(2) as f64).ln() };
            let dim = 1 + r.below(5) as usize;
            let narrow = r.chance(1, 2);
            let n = match r.below(4) {
                0 => 1 + r.below(4) as usize,
                1 => 5 + r.below(10) as usize,
                _ if big && r.chance(1, 3) => 40 + r.below(100) as usize,
                _ => 10 + r.below(35) as usize,
            };
            let mut vecs: Vec<Vec<i64>> = Vec::new();
            for _ in 0..n {
                let v: Vec<i64> = match r.below(10) {
                    0 if !vecs.is_empty() => r.pick(&vecs).clone(),
                    1 => vec![0; dim],
                    2 if !vecs.is_empty() => {
                        let b = r.pick(&vecs).clone();
                        if b.iter().all(|x| x.abs() <= 32) { b.iter().map(|x| x * 2).collect() } else { b.iter().map(|x| -x).collect() }
                    }
                    _ => (0..dim).map(|_| if narrow { r.range(-2, 2) } else { r.range(-64, 64) }).collect(),
                };
                vecs.push(v);
            }
            let nq = 2 + r.below(5) as usize;
            let mut queries = Vec::new();
            for _ in 0..nq {
                let q: Vec<i64> = if r.chance(1, 3) { r.pick(&vecs).clone() } else { (0..dim).map(|_| if narrow { r.range(-2, 2) } else { r.range(-64, 64) }).collect() };
                let k = *r.pick(&[1usize, 1, 2, 3, 5, 50]);
                let ef = *r.pick(&[1usize, 2, 3, 5, 50]);
                queries.push((q, k, ef));
            }
            (vecs, queries, (cm, cm0, efc, ml), metric, String::new())
        }
    };
    let cfg = HNSWConfig { m: cm, m0: cm0, ef_construction: efc, ef_search: 50, ml, distance_metric: metric, ..HNSWConfig::default() };
    let idx = HNSWIndex::with_config(cfg);
    // the model is given the distances the real index computes, so it does not matter that they
    // are rounded: a third of the random cases use non-integer coordinates (x / 7, x / 1000.3)
    let div: f32 = if directed_case { 1.0 } else { *r.pick(&[1.0f32, 1.0, 7.0, 1000.3]) };
    rep.hit(if div == 1.0 { "hnsw.data.integer" } else { "hnsw.data.non_integer" });
    // Node storage.  With sparse nodes the graph is still compared insert by insert, which ties the
    // distances pruning takes BETWEEN NODES (private `distance_embeddings`: sparse-sparse merge, sparse-dense)
    // to the `distance_dense` values the model is given: on integer data under the Euclidean and
    // dot-product metrics both are exact, so they agree bit for bit whatever the representation (the
    // cosine arms round differently — f64 in SparseVector, f32 in the dense arm — so cosine stays dense here)
    let storage: Option<St> = if !directed_case && div == 1.0 && metric != HNSWDistanceMetric::Cosine && r.chance(3, 4) { Some(*r.pick(&[St::Auto, St::Auto, St::Sparse])) } else { Some(St::Dense) };
    let mixed_storage = !directed_case && div == 1.0 && metric != HNSWDistanceMetric::Cosine && r.chance(1, 4);
    rep.hit(&format!("hnsw.node_storage.{}", if mixed_storage { "mixed" } else { storage.map_or("dense", |s| s.name()) }));
    let f32s = |v: &[i64]| -> Vec<f32> { v.iter().map(|x| *x as f32 / div).collect() };
    let mut lg = LevelGen { seed: 42, ml };
    let head = format!("hnew {cm} {cm0} {efc}");
    let mut trace: Vec<String> = vec![format!("{head} ml={ml} metric={}", hmetric_name(metric))];
    let a = m.ask(&head);
    rep.compare(&format!("{stream}.new"), || json!({"trace": trace}), "ok", &a);
    let mut max_level = 0usize;
    let mut nontrivial = false;
    // searches are interleaved with the inserts: after every insert with some probability, and all at the end
    let search_now = |idx: &HNSWIndex, n: usize, q: &[i64], k: usize, ef: usize, rep: &mut Report, m: &mut Model, trace: &mut Vec<String>, nontrivial: &mut bool| {
        let qf = f32s(q);
        let ds: Vec<f32> = (0..n).map(|j| idx.get_embedding(j).map_or(f32::NAN, |e| e.distance_dense(&qf, metric))).collect();
        if ds.iter().any(|d| d.is_nan()) {
            rep.hit("hnsw.skipped_nan_distance");
            return;
        }
        let keys: Vec<u32> = ds.iter().map(|d| dist_key(*d)).collect();
        let line = format!("hsearch {k} {ef} {}", if keys.is_empty() { "-".to_string() } else { keys.iter().map(|x| x.to_string()).collect::<Vec<_>>().join(",") });
        trace.push(format!("{line}   # q={}", ints(q)));
        let real = guarded(AssertUnwindSafe(|| idx.search_with_ef(&qf, k, ef)));
        let imp = match &real {
            Ok(res) => {
                // the score reported for a node is to_similarity(the distance of THAT node)
                let mut s = Vec::new();
                let mut score_ok = true;
                for (id, sc) in res {
                    let d = ds.get(*id).copied().unwrap_or(f32::NAN);
                    if metric.to_similarity(d).to_bits() != sc.to_bits() {
                        score_ok = false;
                    }
                    s.push(format!("{id}:{}", dist_key(d)));
                }
                if res.len() > 1 {
                    *nontrivial = true;
                }
                rep.hit(if res.len() < k.min(n) { "hnsw.search.fewer_than_min(k,n)" } else { "hnsw.search.full" });
                format!("ok {}{}", if s.is_empty() { "-".to_string() } else { s.join(",") }, if score_ok { "" } else { " score-not-of-that-node" })
            }
            Err(p) => format!("panic: {p}"),
        };
        let ans = m.ask(&line);
        rep.compare(&format!("{stream}.search_with_ef"), || json!({"trace": trace, "metric": hmetric_name(metric)}), &imp, &ans);
        // property oracle on the real index's own output: distinct ids, in range, ordered, at most k
        if let Ok(res) = &real {
            let ids: BTreeSet<usize> = res.iter().map(|x| x.0).collect();
            let bad = ids.len() != res.len() || res.len() > k || res.iter().any(|x| x.0 >= n) || res.windows(2).any(|w| w[0].1 < w[1].1);
            if bad {
                rep.violation("tensor_store.hnsw.search_with_ef/contract", "duplicate / out-of-range / unordered / more than k results", json!({"trace": trace, "result": format!("{res:?}")}));
            }
            // exhaustive beam on a connected layer 0 is exact: count how often the answer is the true top-k
            let mut truth: Vec<(u32, usize)> = keys.iter().enumerate().map(|(i, k)| (*k, i)).collect();
            truth.sort();
            let exact = res.iter().zip(truth.iter()).all(|(a, b)| keys[a.0] == b.0) && res.len() == k.min(n);
            rep.hit(if exact { "hnsw.recall.exact_topk" } else { "hnsw.recall.approximate" });
            // small_index_search_is_exact (Lean): n <= m0, n <= ef_construction, n <= max(ef, k)
            if n <= cm0 && n <= efc && n <= ef.max(k) {
                rep.hit("hnsw.small_index_regime");
                rep.compare(&format!("{stream}.small_index_is_exact"), || json!({"trace": trace, "result": format!("{res:?}")}), if exact { "exact" } else { "not-exact" }, "exact");
            }
        }
    };
    let mut pending = queries.clone();
    for (i, v) in vecs.iter().enumerate() {
        let vf = f32s(v);
        let level = lg.next();
        max_level = max_level.max(level);
        let ds: Vec<f32> = (0..i).map(|j| idx.get_embedding(j).map_or(f32::NAN, |e| e.distance_dense(&vf, metric))).collect();
        if ds.iter().any(|d| d.is_nan()) {
            rep.hit("hnsw.skipped_nan_distance");
            return;
        }
        let st = if mixed_storage { [St::Dense, St::Auto, St::Sparse][i % 3] } else { storage.unwrap_or(St::Dense) };
        let id = guarded(AssertUnwindSafe(|| insert_st(&idx, vf.clone(), st)));
        let line = format!("hins {level} {}", if ds.is_empty() { "-".to_string() } else { ds.iter().map(|d| dist_key(*d).to_string()).collect::<Vec<_>>().join(",") });
        trace.push(format!("{line}   # v={} {}", ints(v), st.name()));
        let ans = m.ask(&line);
        let imp = match id {
            Ok(id) => format!("ok {id}"),
            Err(p) => format!("panic: {p}"),
        };
        // the model also reports entry point and top layer, which the real index keeps private
        let ans_id = ans.split(" entry=").next().unwrap_or(&ans).to_string();
        rep.compare(&format!("{stream}.insert"), || json!({"trace": trace}), &imp, &ans_id);
        rep.hit(&format!("hnsw.level.{}", level.min(3)));
        if r.chance(1, 4) && !pending.is_empty() {
            let (q, k, ef) = pending[r.below(pending.len() as u64) as usize].clone();
            search_now(&idx, i + 1, &q, k, ef, rep, m, &mut trace, &mut nontrivial);
        }
    }
    for (q, k, ef) in pending.drain(..) {
        search_now(&idx, vecs.len(), &q, k, ef, rep, m, &mut trace, &mut nontrivial);
    }
    rep.hit(&format!("hnsw.cfg.m={cm}"));
    rep.hit(&format!("hnsw.metric.{}", hmetric_name(metric)));
    rep.hit(if vecs.len() > cm0 { "hnsw.n>m0(pruning possible)" } else { "hnsw.n<=m0" });
    rep.hit(if max_level > 0 { "hnsw.multi_layer" } else { "hnsw.single_layer" });
    let key = format!("{label}{}", trace.join(";"));
    rep.case(stream, if nontrivial { Some(&key) } else { None });
    if label == "line-pruned" {
        rep.sample(json!({"stream": stream, "trace": trace.iter().take(8).collect::<Vec<_>>()}));
    }
}

fn hnsw_stream(rep: &mut Report, m: &mut Model, root: &Rng, scale: u64) {
    let mut r = root.fork("hnsw");
    // directed: points on a line with m = m0 = 1 (every list is pruned to one neighbour, the
    // layer-0 graph falls apart into pairs: the approximate answer misses the true nearest) ...
    let line: Vec<Vec<i64>> = (0..12).map(|i| vec![i * 5 - 30, 1]).collect();
    hnsw_case(rep, m, &mut r, false, Some(("line-pruned", line.clone(), vec![(vec![-30, 1], 3, 1), (vec![25, 1], 2, 2), (vec![0, 1], 50, 50)], (1, 1, 1, 0.0), HNSWDistanceMetric::Euclidean)));
    // ... the same points with the default configuration (exhaustive beam: exact)
    hnsw_case(rep, m, &mut r, false, Some(("line-default", line, vec![(vec![-30, 1], 3, 1), (vec![25, 1], 2, 2), (vec![0, 1], 50, 50)], (16, 32, 200, 1.0 / 16f64.ln()), HNSWDistanceMetric::Euclidean)));
    // ... all vectors equal / all distances tied (heap order decides everything)
    hnsw_case(rep, m, &mut r, false, Some(("all-tied", vec![vec![1, 1]; 9], vec![(vec![1, 1], 4, 2), (vec![2, 2], 50, 3)], (2, 2, 2, 1.0), HNSWDistanceMetric::Cosine)));
    // ... zero vectors (cosine distance 1.0 by convention) among real ones, many layers
    hnsw_case(rep, m, &mut r, false, Some(("zeros-multilayer", vec![vec![0, 0], vec![1, 0], vec![0, 0], vec![0, 1], vec![1, 1], vec![-1, 0], vec![0, 0], vec![2, 1]], vec![(vec![1, 0], 3, 2), (vec![0, 1], 8, 1)], (2, 4, 3, 2.0), HNSWDistanceMetric::Cosine)));
    // thorough tier: three times as many cases per unit of scale, a third of them with up to 140 nodes
    for _ in 0..60 * scale * if scale > 1 { 3 } else { 1 } {
        hnsw_case(rep, m, &mut r, scale > 1, None);
    }
}


// ------------------------------------------------------------------ a collection with an index of ITS metric
//
// Lean: `ECol` (EmbModel.lean).  One named collection configured with any of the three metrics; its
// owner (the harness) indexes the current vectors with an HNSW index OF THAT METRIC, nodes held
// dense / by `insert_auto` / as sparse vectors, and hands it to `cache_hnsw_index`.  The property:
// whatever the node representation, `search_in_collection` answering from that index names current
// keys with their true scores under the collection's metric.

const ECOLL: &str = "geo";

#[derive(Clone, Debug)]
enum EOp {
    Store { key: String, v: Vec<i64> },
    Del { key: String },
    Build { st: St },
    Inval,
    Get { key: String },
    Search { q: Vec<i64>, k: usize },
}
impl EOp {
    fn line(&self) -> String {
        match self {
            EOp::Store { key, v } => format!("e store {key} {}", ints(v)),
            EOp::Del { key } => format!("e del {key}"),
            EOp::Build { st } => format!("e build {}", st.name()),
            EOp::Inval => "e inval".into(),
            EOp::Get { key } => format!("e get {key}"),
            EOp::Search { q, k } => format!("e search {} {k}", ints(q)),
        }
    }
    fn tag(&self) -> &'static str {
        match self {
            EOp::Store { .. } => "store_in_collection",
            EOp::Del { .. } => "delete_from_collection",
            EOp::Build { .. } => "cache_hnsw_index",
            EOp::Inval => "invalidate_hnsw_cache",
            EOp::Get { .. } => "get_from_collection",
            EOp::Search { .. } => "search_in_collection",
        }
    }
    fn is_mutation(&self) -> bool {
        matches!(self, EOp::Store { .. } | EOp::Del { .. })
    }
}

struct EmbRunner {
    eng: VectorEngine,
    m: Metric,
    sp: Space,
}
impl EmbRunner {
    fn new(m: Metric) -> EmbRunner {
        let eng = VectorEngine::new();
        eng.create_collection(ECOLL, VectorCollectionConfig::default().with_metric(m.real())).ok();
        EmbRunner { eng, m, sp: Space::default() }
    }
    fn exec(&mut self, op: &EOp) -> (Obs, Vec<Viol>) {
        let mut viol = Vec::new();
        match guarded(AssertUnwindSafe(|| self.exec_inner(op, &mut viol))) {
            Ok(o) => (o, viol),
            Err(p) => {
                viol.push(Viol { site: op.tag().to_string(), kind: "panic", what: p.clone() });
                (Obs::Panic(p), viol)
            }
        }
    }
    fn exec_inner(&mut self, op: &EOp, viol: &mut Vec<Viol>) -> Obs {
        match op {
            EOp::Store { key, v } => match self.eng.store_in_collection(ECOLL, key, f32s(v)) {
                Ok(()) => {
                    self.sp.items.insert(key.clone(), (v.clone(), vec![]));
                    self.sp.mutated(op.tag());
                    Obs::Plain("ok".into())
                }
                Err(e) => Obs::Plain(format!("err {}", verr(&e))),
            },
            EOp::Del { key } => match self.eng.delete_from_collection(ECOLL, key) {
                Ok(()) => {
                    self.sp.items.remove(key);
                    self.sp.mutated(op.tag());
                    Obs::Plain("ok".into())
                }
                Err(e) => Obs::Plain(format!("err {}", verr(&e))),
            },
            EOp::Build { st } => {
                let keys = self.eng.list_collection_keys(ECOLL);
                let vecs: Vec<Vec<f32>> = keys.iter().map(|k| self.eng.get_from_collection(ECOLL, k).unwrap_or_default()).collect();
                if vecs.windows(2).any(|w| w[0].len() != w[1].len()) {
                    return Obs::Plain("err dim_mismatch".into());
                }
                let idx = HNSWIndex::with_config(HNSWConfig::default().with_distance_metric(self.m.hnsw()));
                for (i, v) in vecs.iter().enumerate() {
                    let id = insert_st(&idx, v.clone(), *st);
                    // whichever representation was chosen, the node reads back exactly as inserted
                    if id != i || idx.get_vector(id).as_deref() != Some(v.as_slice()) {
                        viol.push(Viol { site: "hnsw.get_vector".into(), kind: "roundtrip_not_identity", what: format!("node {id} inserted {} as {v:?} reads back {:?}", st.name(), idx.get_vector(id)) });
                    }
                }
                let idx = Arc::new(idx);
                self.eng.cache_hnsw_index(ECOLL, idx.clone(), keys.iter().map(|k| format!("coll:{ECOLL}:emb:{k}")).collect());
                self.sp.built = true;
                self.sp.muts.clear();
                let n = keys.len();
                self.sp.index = Some((idx, keys));
                Obs::Plain(format!("ok {n}"))
            }
            EOp::Inval => {
                self.eng.invalidate_hnsw_cache(ECOLL);
                self.sp.built = false;
                self.sp.muts.clear();
                self.sp.index = None;
                Obs::Plain("ok".into())
            }
            EOp::Get { key } => match self.eng.get_from_collection(ECOLL, key) {
                Ok(v) => {
                    let shown = to_ints(&v).map_or("non-integer".to_string(), |x| ints(&x));
                    match self.sp.items.get(key) {
                        Some((w, _)) if to_ints(&v).as_deref() == Some(w.as_slice()) => {}
                        other => viol.push(Viol { site: op.tag().into(), kind: "roundtrip_not_identity", what: format!("get {key} = {shown}, last stored {:?}", other.map(|x| &x.0)) }),
                    }
                    Obs::Plain(format!("ok {shown}"))
                }
                Err(e) => {
                    if self.sp.items.contains_key(key) {
                        viol.push(Viol { site: op.tag().into(), kind: "stored_key_not_found", what: key.clone() });
                    }
                    Obs::Plain(format!("err {}", verr(&e)))
                }
            },
            EOp::Search { q, k } => {
                let res = conv(self.eng.search_in_collection(ECOLL, &f32s(q), *k));
                if let Ok(r) = &res {
                    oracle(op.tag(), r, q, *k, self.m, &self.sp, None, true, viol);
                }
                Obs::Search { res, ann: None }
            }
        }
    }
}

fn emb_replay_what(m: Metric, ops: &[EOp]) -> Vec<(usize, String, &'static str, String)> {
    let mut r = EmbRunner::new(m);
    let mut out = Vec::new();
    for (i, op) in ops.iter().enumerate() {
        let (_, v) = r.exec(op);
        for x in v {
            out.push((i, x.site, x.kind, x.what));
        }
    }
    out
}
fn emb_replay(m: Metric, ops: &[EOp]) -> Vec<(usize, String, &'static str)> {
    emb_replay_what(m, ops).into_iter().map(|(i, s, k, _)| (i, s, k)).collect()
}

/// `<site>/<kind>` from the shrunk trace, with the conventions of `classify`: a violation at a search
/// that follows a mutation made after the last build, gone when the cache is invalidated right after
/// that mutation, is charged to the mutation (stale cache); a violation while the index is live names
/// the cached-index path; anything else the entry point.
fn emb_classify(m: Metric, ops: &[EOp], at: usize, site: &str, kind: &str) -> String {
    if site == "hnsw.get_vector" {
        return format!("tensor_store.{site}/{kind}");
    }
    let last_build = (0..at).rev().find(|i| matches!(ops[*i], EOp::Build { .. }));
    if let (Some(b), EOp::Search { .. }) = (last_build, &ops[at]) {
        if !(b + 1..at).any(|i| matches!(ops[i], EOp::Inval)) {
            if let Some(mu) = (b + 1..at).find(|i| ops[*i].is_mutation()) {
                let mut with_inval: Vec<EOp> = ops[..=mu].to_vec();
                with_inval.push(EOp::Inval);
                with_inval.extend_from_slice(&ops[mu + 1..=at]);
                let still = |t: &[EOp]| emb_replay(m, t).iter().any(|(i, _, k)| *i == t.len() - 1 && *k == kind);
                if !still(&with_inval) && still(&ops[..=at]) {
                    return format!("vector_engine.{}/stale_hnsw_cache", ops[mu].tag());
                }
            } else if kind != "missed_match" && kind != "not_topk" {
                return format!("vector_engine.{site}/with_cached_index:{kind}");
            }
        }
    }
    let kind = if kind == "missed_match" || kind == "not_topk" { "not_topk" } else { kind };
    format!("vector_engine.{site}/{kind}")
}

fn emb_ops_json(m: Metric, ops: &[EOp]) -> Value {
    let mut l = vec![format!("e new {}", m.name())];
    l.extend(ops.iter().map(|o| o.line()));
    json!(l)
}

fn run_emb(cx: &mut Ctx, stream: &str, m: Metric, ops: &[EOp]) {
    let mut r = EmbRunner::new(m);
    let a = cx.m.ask(&format!("e new {}", m.name()));
    cx.rep.compare(&format!("{stream}.create_collection"), || json!({"metric": m.name()}), "ok", &a);
    let mut nontrivial = false;
    let mut mutated = false;
    let mut first_violation: Option<(usize, String, &'static str, String)> = None;
    for (i, op) in ops.iter().enumerate() {
        let live_before = r.sp.index_live();
        let storage = match &r.sp.index {
            Some((idx, _)) if live_before => {
                let st = idx.memory_stats();
                if st.sparse_count > 0 { "sparse_nodes" } else { "dense_nodes" }
            }
            _ => "",
        };
        let (obs, viol) = r.exec(op);
        cx.rep.hit(&format!("emb.op.{}", op.tag()));
        let ans = cx.m.ask(&op.line());
        let sname = format!("{stream}.{}", op.tag());
        match &obs {
            Obs::Plain(s0) => {
                if s0.starts_with("ok") && op.is_mutation() {
                    mutated = true;
                }
                cx.rep.compare(&sname, || json!({"ops": emb_ops_json(m, &ops[..=i])}), s0, &ans);
            }
            Obs::Panic(p) => {
                cx.rep.hit("impl.panic");
                cx.rep.compare(&sname, || json!({"ops": emb_ops_json(m, &ops[..=i])}), &format!("panic: {p}"), &ans);
            }
            Obs::Search { res, .. } => {
                let mut ma = parse_model(&ans);
                cx.rep.hit(&format!("emb.model.{}.{}", ma.kind.split(' ').next().unwrap_or(""), m.name()));
                if ma.kind == "index" {
                    cx.rep.hit(&format!("emb.search.via_index.{}.{storage}", m.name()));
                    // default HNSW configuration, never more than 32 vectors: the index answer is the exact
                    // top-k (small_index_search_is_exact + representation independence), so it is compared
                    // with the model's ranking class for class
                    if r.sp.items.len() <= 32 {
                        ma.kind = "index-exact".into();
                    }
                }
                if let Ok(v) = res {
                    if v.len() > 1 {
                        nontrivial = true;
                    }
                }
                let (a, b) = compare_search(cx.rep, stream, &op.line(), res, &ma, None);
                cx.rep.compare(&sname, || json!({"ops": emb_ops_json(m, &ops[..=i]), "impl_result": format!("{res:?}"), "model_raw": ma.raw}), &a, &b);
            }
        }
        if first_violation.is_none() {
            if let Some(v) = viol.into_iter().next() {
                first_violation = Some((i, v.site, v.kind, v.what));
            }
        }
    }
    let key = format!("{}:{}", m.name(), ops.iter().map(|o| o.line()).collect::<Vec<_>>().join(";"));
    cx.rep.case(stream, if nontrivial && mutated { Some(&key) } else { None });
    if let Some((at, site, kind, what)) = first_violation {
        cx.rep.hit(&format!("violation.{kind}"));
        let prefix = &ops[..=at];
        let mut fails = |cand: &[EOp]| emb_replay(m, cand).iter().any(|(_, _, k)| *k == kind);
        let shrunk = shrink_list(prefix, &mut fails);
        let ks = emb_replay_what(m, &shrunk);
        let (sat, ssite, skind, what) = ks.iter().find(|(_, _, k, _)| *k == kind).cloned().unwrap_or((shrunk.len() - 1, site.clone(), kind, what));
        let class = emb_classify(m, &shrunk, sat, &ssite, skind);
        if cx.reported.insert(class.clone()) {
            cx.rep.violation(&class, &what, json!({"ops": emb_ops_json(m, &shrunk[..=sat]), "found_in_stream": stream}));
        } else {
            cx.rep.hit(&format!("violation.repeat.{class}"));
        }
    }
}

fn emb_directed() -> Vec<(&'static str, Metric, Vec<EOp>)> {
    let s = |k: &str, v: &[i64]| EOp::Store { key: k.into(), v: v.to_vec() };
    let se = |q: &[i64], k: usize| EOp::Search { q: q.to_vec(), k };
    let data = || vec![s("a", &[1, 0, 0, 0, 0, 0, 0, 0]), s("b", &[0, 0, 0, 0, 0, 0, 0, 3]), s("c", &[0, 2, 0, 0, 0, 0, 0, 0]), s("d", &[1, 1, 1, 1, 1, 1, 1, 1])];
    let q: [i64; 8] = [1, 0, 0, 0, 0, 0, 0, 2];
    let mut out = Vec::new();
    // every metric x every node storage: exhaustive answer, then the same searches from the cached index;
    // the query has mass at position 7, where a and c (held sparse by auto / sparse) are zero
    for (name, m) in [("euclid", Metric::Euc), ("dot", Metric::Dot), ("cosine", Metric::Cos)] {
        for (sn, st) in [("auto", St::Auto), ("sparse", St::Sparse), ("dense", St::Dense)] {
            let mut ops = data();
            ops.push(se(&q, 4));
            ops.push(EOp::Build { st });
            ops.push(se(&q, 4));
            ops.push(se(&q, 1));
            ops.push(se(&[2, 0, 0, 0, 0, 0, 0, 0], 4)); // inside a's support: a shortcut over the support is exact here
            ops.push(se(&[0, 0, 5, -1, 0, 0, 0, 0], 3)); // disjoint from every sparse node's support
            ops.push(EOp::Get { key: "a".into() });
            let label: &'static str = Box::leak(format!("{name}-{sn}-nodes").into_boxed_str());
            out.push((label, m, ops));
        }
    }
    // the index is dropped by every write and rebuilt with another storage
    let mut ops = data();
    ops.extend([EOp::Build { st: St::Auto }, se(&q, 4), s("a", &[0, 0, 0, 0, 0, 0, 0, 2]), se(&q, 4), EOp::Build { st: St::Sparse }, se(&q, 4), EOp::Del { key: "b".into() }, se(&q, 4), EOp::Build { st: St::Dense }, se(&q, 2), EOp::Inval, se(&q, 2)]);
    out.push(("euclid-rebuild-after-writes", Metric::Euc, ops));
    // another dimension than the index: the guard sends the query to the exhaustive scan
    let mut ops = data();
    ops.extend([EOp::Build { st: St::Auto }, se(&[1, 0, 2], 4), s("e", &[0, 3, 0]), se(&[1, 0, 2], 4), EOp::Build { st: St::Auto }, se(&q, 4)]);
    out.push(("dot-other-dimension", Metric::Dot, ops));
    // stored vectors and queries FAR FROM THE ORIGIN and close to each other (squared norms beyond 2^24,
    // squared distances 1, 4, 9, 25): the Euclidean score is a function of the per-coordinate differences,
    // which are exact in f32 here, so every score is the true one to the last bit; a distance computed as
    // |a|^2 + |b|^2 - 2ab would lose the differences to rounding (seeded change C06_9)
    let far = |d: &[i64]| -> Vec<i64> { d.iter().map(|x| 4000 + x).collect() };
    let mut ops = vec![s("n1", &far(&[1, 0, 0, 0])), s("n2", &far(&[0, 2, 0, 0])), s("n3", &far(&[0, 0, 3, 0])), s("n5", &far(&[3, 0, 0, 4])), s("o", &[0, 0, 0, 10])];
    ops.extend([se(&far(&[0, 0, 0, 0]), 5), se(&far(&[0, 0, 0, 0]), 2), se(&far(&[1, 1, 0, 0]), 3), se(&[0, 0, 0, 1], 2)]);
    out.push(("euclid-far-from-origin", Metric::Euc, ops));
    out
}

/// highly sparse vectors (the form `insert_auto` holds sparse), some dense, zero and duplicated ones
fn sparse_vec(r: &mut Rng, dim: usize, pool: &[Vec<i64>]) -> Vec<i64> {
    match r.below(10) {
        0 => vec![0; dim],
        1 if !pool.is_empty() => r.pick(pool).clone(),
        2 | 3 => (0..dim).map(|_| r.range(-3, 3)).collect(),
        4 => {
            // exactly half zeros: the sparse/dense threshold of insert_auto
            let mut v: Vec<i64> = (0..dim).map(|i| if i % 2 == 0 { 0 } else { 1 + r.below(4) as i64 }).collect();
            r.shuffle(&mut v);
            v
        }
        _ => {
            let mut v = vec![0; dim];
            for _ in 0..1 + r.below((dim as u64 / 3).max(1)) {
                let i = r.below(dim as u64) as usize;
                v[i] = *r.pick(&[1i64, 1, 2, 3, -1, -2, 5, 64]);
            }
            v
        }
    }
}
/// queries with mass OUTSIDE the support of the stored vectors: a stored vector plus a component at a
/// position where it is zero, or small dense vectors
fn off_support_query(r: &mut Rng, dim: usize, pool: &[Vec<i64>]) -> Vec<i64> {
    match r.below(8) {
        0 if !pool.is_empty() => r.pick(pool).clone(),
        1 => (0..dim).map(|_| r.range(-64, 64)).collect(),
        2..=4 if !pool.is_empty() => {
            let mut q = r.pick(pool).clone();
            let zeros: Vec<usize> = (0..q.len()).filter(|i| q[*i] == 0).collect();
            for _ in 0..1 + r.below(2) {
                if !zeros.is_empty() {
                    let i = *r.pick(&zeros);
                    q[i] = *r.pick(&[1i64, 2, -2, 3, 7]);
                }
            }
            q
        }
        _ => (0..dim).map(|_| r.range(-2, 2)).collect(),
    }
}

fn emb_gen(r: &mut Rng) -> (Metric, Vec<EOp>) {
    let m = *r.pick(&[Metric::Euc, Metric::Euc, Metric::Dot, Metric::Dot, Metric::Cos]);
    let dim = *r.pick(&[2usize, 4, 6, 8, 9, 16]);
    let keys: Vec<String> = (0..3 + r.below(6)).map(|i| format!("k{i}")).collect();
    let mut pool: Vec<Vec<i64>> = Vec::new();
    let mut ops = Vec::new();
    for _ in 0..3 + r.below(5) {
        let v = sparse_vec(r, dim, &pool);
        pool.push(v.clone());
        ops.push(EOp::Store { key: r.pick(&keys).clone(), v });
    }
    let n = ops.len() + 6 + r.below(14) as usize;
    while ops.len() < n {
        let op = match r.below(20) {
            0..=2 => {
                let d = if r.chance(1, 10) { 1 + r.below(8) as usize } else { dim };
                let v = sparse_vec(r, d, &pool);
                if d == dim {
                    pool.push(v.clone());
                }
                EOp::Store { key: r.pick(&keys).clone(), v }
            }
            3 => EOp::Del { key: r.pick(&keys).clone() },
            4..=8 => EOp::Build { st: *r.pick(&[St::Auto, St::Auto, St::Sparse, St::Dense]) },
            9 => EOp::Get { key: r.pick(&keys).clone() },
            10 if r.chance(1, 3) => EOp::Inval,
            _ => {
                let q = if r.chance(1, 12) { (0..1 + r.below(8) as usize).map(|_| r.range(-2, 2)).collect() } else { off_support_query(r, dim, &pool) };
                let q = if r.chance(1, 40) { vec![] } else { q };
                EOp::Search { q, k: *r.pick(&[1usize, 2, 3, 5, 50, 0]) }
            }
        };
        // after a build, look at it at once
        let probe = matches!(op, EOp::Build { .. });
        ops.push(op);
        if probe {
            ops.push(EOp::Search { q: off_support_query(r, dim, &pool), k: *r.pick(&[1usize, 3, 50]) });
        }
    }
    (m, ops)
}

fn emb_stream(cx: &mut Ctx, root: &Rng, scale: u64) {
    let base = root.fork("emb");
    for i in 0..220 * scale {
        let mut r = base.fork(&i.to_string());
        let (m, ops) = emb_gen(&mut r);
        run_emb(cx, "emb", m, &ops);
    }
}

// ------------------------------------------------------------------ the index's node representations, directly
//
// Stream `hnsw.storage`: a real `HNSWIndex` of each metric whose nodes are inserted with `insert` /
// `insert_auto` / `insert_sparse` (one strategy per case, or mixed node by node).  Judged on the real
// outputs, against exact integer arithmetic done here:
//  * every node reads back exactly as inserted (`get_vector`), in the form the Lean `nodeOf` predicts;
//  * `EmbeddingStorage::distance_dense` / `distance_sparse` of a node = the same distance of the DENSE
//    node of the same vector (representation independence; Lean: distance_dense_is_representation_independent)
//    = the distance the Lean model's exact ingredients give;
//  * `search_with_ef` and `search_sparse`: distinct in-range ids, at most k, best first, every id with
//    the TRUE score of its vector under the index's metric; in the small-index regime the exact top-k.

struct StCase {
    metric: Metric,
    cfg: (usize, usize, usize),
    nodes: Vec<(Vec<i64>, St)>,
    queries: Vec<(Vec<i64>, usize, usize)>,
}

/// the f32 distance `distance_dense` returns for exact ingredients (p, r) and |q|² = a
fn dist_f32(m: Metric, a: i64, p: i64, r: i64) -> f32 {
    match m {
        Metric::Cos => {
            let (qm, sm) = ((a as f32).sqrt(), (r as f32).sqrt());
            if sm == 0.0 || qm == 0.0 { 1.0 } else { 1.0 - (p as f32 / (sm * qm)) }
        }
        Metric::Euc => (p as f32).sqrt(),
        Metric::Dot => -(p as f32),
    }
}
fn dist_close(m: Metric, x: f32, y: f32) -> bool {
    // Euclidean and dot-product distances of small integer vectors are exact in both representations;
    // the cosine arms round differently (f64 in SparseVector, f32 SIMD in the dense arm)
    x.to_bits() == y.to_bits() || (x == y) || (m == Metric::Cos && (f64::from(x) - f64::from(y)).abs() <= 1e-5)
}

/// runs one case on the real index; `model`: also ask the Lean model (correspondence).  Returns the
/// violations seen as (site, kind, what).
fn st_run(case: &StCase, mut model: Option<(&mut Report, &mut Model)>) -> Vec<(String, &'static str, String)> {
    let mut out: Vec<(String, &'static str, String)> = Vec::new();
    let m = case.metric;
    let hm = m.hnsw();
    let (cm, cm0, efc) = case.cfg;
    let cfg = HNSWConfig { m: cm, m0: cm0, ef_construction: efc, ef_search: 50, distance_metric: hm, ..HNSWConfig::default() };
    let idx = HNSWIndex::with_config(cfg);
    let n = case.nodes.len();
    for (i, (v, st)) in case.nodes.iter().enumerate() {
        let vf = f32s(v);
        let id = match guarded(AssertUnwindSafe(|| insert_st(&idx, vf.clone(), *st))) {
            Ok(id) => id,
            Err(p) => {
                out.push((format!("tensor_store.hnsw.insert[{}]", st.name()), "panic", p));
                return out;
            }
        };
        let back = idx.get_vector(id);
        if id != i || back.as_deref() != Some(vf.as_slice()) {
            out.push(("tensor_store.hnsw.get_vector".into(), "roundtrip_not_identity", format!("node {id} inserted {} as {v:?} reads back {back:?}", st.name())));
        }
        if let Some((rep, md)) = model.as_mut() {
            let tag = match idx.get_embedding(id) {
                Some(EmbeddingStorage::Dense(_)) => "dense".to_string(),
                Some(EmbeddingStorage::Sparse(sv)) => format!("sparse:{}", ints(&sv.positions().iter().map(|p| i64::from(*p)).collect::<Vec<_>>())),
                _ => "other".to_string(),
            };
            rep.hit(&format!("hnsw.storage.node.{}.{}", st.name(), tag.split(':').next().unwrap_or("")));
            let imp = format!("ok {tag} {}", back.as_deref().and_then(to_ints).map_or("?".to_string(), |x| ints(&x)));
            let ans = md.ask(&format!("enode {} {}", st.name(), ints(v)));
            rep.compare("hnsw.storage.node", || json!({"storage": st.name(), "v": v}), &imp, &ans);
        }
    }
    // the shadow the property is judged against: node id -> vector
    let mut sp = Space::default();
    for (i, (v, _)) in case.nodes.iter().enumerate() {
        sp.items.insert(format!("n{i:03}"), (v.clone(), vec![]));
    }
    for (q, k, ef) in &case.queries {
        if q.is_empty() || nsq(q) == 0 || *k == 0 {
            continue;
        }
        let qf = f32s(q);
        let qs = SparseVector::from_dense(&qf);
        let a = nsq(q);
        for (i, (v, st)) in case.nodes.iter().enumerate() {
            let Some(e) = idx.get_embedding(i) else { continue };
            let twin = EmbeddingStorage::Dense(f32s(v));
            for mm in [Metric::Cos, Metric::Euc, Metric::Dot] {
                let (d, dt) = (e.distance_dense(&qf, mm.hnsw()), twin.distance_dense(&qf, mm.hnsw()));
                if !dist_close(mm, d, dt) {
                    out.push(("tensor_store.embedding_storage.distance_dense".into(), "representation_dependent", format!("{} node {v:?} ({}) to query {q:?} under {}: {d}, the dense node of the same vector: {dt}", st.name(), if e.is_sparse() { "held sparse" } else { "held dense" }, mm.name())));
                }
                let (ds, dts) = (e.distance_sparse(&qs, mm.hnsw()), twin.distance_dense(&qf, mm.hnsw()));
                if !dist_close(mm, ds, dts) {
                    out.push(("tensor_store.embedding_storage.distance_sparse".into(), "representation_dependent", format!("{} node {v:?} to sparse query {q:?} under {}: {ds}, dense node to dense query: {dts}", st.name(), mm.name())));
                }
                if let Some((rep, md)) = model.as_mut() {
                    for (cmd, got) in [("edist", d), ("edists", ds)] {
                        let ans = md.ask(&format!("{cmd} {} {} {} {}", mm.name(), st.name(), ints(v), ints(q)));
                        let f: Vec<i64> = ans.split(' ').skip(1).filter_map(|x| x.parse().ok()).collect();
                        let imp = if f.len() == 2 && dist_close(Metric::Cos, got, dist_f32(mm, a, f[0], f[1])) { ans.clone() } else { format!("distance {got}") };
                        rep.compare(&format!("hnsw.storage.{cmd}"), || json!({"metric": mm.name(), "storage": st.name(), "v": v, "q": q}), &imp, &ans);
                    }
                }
            }
        }
        let small = |ef: usize| n <= cm0 && n <= efc && n <= ef.max(*k);
        let judge = |site: &str, ef: usize, res: Result<Vec<(usize, f32)>, String>, out: &mut Vec<(String, &'static str, String)>| match res {
            Err(p) => out.push((site.to_string(), "panic", p)),
            Ok(res) => {
                if res.iter().any(|x| x.0 >= n) {
                    out.push((site.to_string(), "node_out_of_range", format!("{res:?}")));
                    return;
                }
                let named: Vec<(String, f32)> = res.iter().map(|(i, sc)| (format!("n{i:03}"), *sc)).collect();
                let mut v = Vec::new();
                oracle_page(site, &named, q, *k, 0, *k, m, &sp, None, false, !small(ef), &mut v);
                for x in v {
                    let kind = if x.kind == "missed_match" { "not_topk" } else { x.kind };
                    out.push((site.to_string(), kind, format!("query {q:?} k={k} ef={ef}: {}", x.what)));
                }
            }
        };
        judge("tensor_store.hnsw.search_with_ef", *ef, guarded(AssertUnwindSafe(|| idx.search_with_ef(&qf, *k, *ef))), &mut out);
        judge("tensor_store.hnsw.search_sparse", 50, guarded(AssertUnwindSafe(|| idx.search_sparse(&qs, *k))), &mut out);
        if let Some((rep, _)) = model.as_mut() {
            rep.hit(if small(*ef) { "hnsw.storage.small_index_regime" } else { "hnsw.storage.approximate_regime" });
        }
    }
    out
}

fn st_json(case: &StCase) -> Value {
    json!({
        "metric": case.metric.name(),
        "config": {"m": case.cfg.0, "m0": case.cfg.1, "ef_construction": case.cfg.2},
        "nodes": case.nodes.iter().map(|(v, st)| format!("{} {}", st.name(), ints(v))).collect::<Vec<_>>(),
        "queries": case.queries.iter().map(|(q, k, ef)| format!("{} k={k} ef={ef}", ints(q))).collect::<Vec<_>>(),
    })
}

fn st_case(rep: &mut Report, md: &mut Model, reported: &mut BTreeSet<String>, stream: &str, case: StCase) {
    let viol = st_run(&case, Some((rep, md)));
    let sparse_nodes = case.nodes.iter().filter(|(v, st)| *st != St::Dense && !v.is_empty() && 2 * v.iter().filter(|x| **x != 0).count() <= v.len() || *st == St::Sparse).count();
    rep.hit(&format!("hnsw.storage.metric.{}", case.metric.name()));
    rep.hit(if sparse_nodes > 0 { "hnsw.storage.has_sparse_nodes" } else { "hnsw.storage.all_dense_nodes" });
    let key = serde_json::to_string(&st_json(&case)).unwrap_or_default();
    rep.case(stream, if case.nodes.len() > 1 && sparse_nodes > 0 { Some(&key) } else { None });
    if let Some((site, kind, what)) = viol.into_iter().next() {
        // shrink: fewer nodes, then the one query that still fails
        let same = |c: &StCase| st_run(c, None).iter().any(|(s, k, _)| *s == site && *k == kind);
        let mut fails = |cand: &[(Vec<i64>, St)]| same(&StCase { metric: case.metric, cfg: case.cfg, nodes: cand.to_vec(), queries: case.queries.clone() });
        let nodes = shrink_list(&case.nodes, &mut fails);
        let mut small = StCase { metric: case.metric, cfg: case.cfg, nodes, queries: case.queries.clone() };
        if let Some(qi) = (0..small.queries.len()).find(|i| same(&StCase { metric: small.metric, cfg: small.cfg, nodes: small.nodes.clone(), queries: vec![small.queries[*i].clone()] })) {
            small.queries = vec![small.queries[qi].clone()];
        }
        let what = st_run(&small, None).into_iter().find(|(s, k, _)| *s == site && *k == kind).map_or(what, |x| x.2);
        let class = format!("{site}/{kind}");
        if reported.insert(class.clone()) {
            rep.violation(&class, &what, json!({"case": st_json(&small), "found_in_stream": stream}));
        } else {
            rep.hit(&format!("violation.repeat.{class}"));
        }
    }
}

fn st_stream(rep: &mut Report, md: &mut Model, root: &Rng, scale: u64, directed_only: bool) {
    let mut reported = BTreeSet::new();
    let data: Vec<Vec<i64>> = vec![vec![1, 0, 0, 0, 0, 0, 0, 0], vec![0, 0, 0, 0, 0, 0, 0, 3], vec![0, 2, 0, 0, 0, 0, 0, 0], vec![1, 1, 1, 1, 1, 1, 1, 1]];
    let qs: Vec<(Vec<i64>, usize, usize)> = vec![(vec![1, 0, 0, 0, 0, 0, 0, 2], 4, 50), (vec![1, 0, 0, 0, 0, 0, 0, 2], 1, 1), (vec![2, 0, 0, 0, 0, 0, 0, 0], 4, 50), (vec![0, 0, 5, -1, 0, 0, 0, 0], 3, 50)];
    if directed_only {
        // the minimal history first: four vectors, three of them highly sparse, a query with mass where
        // they are zero; every metric x every storage, default configuration (exact regime) ...
        for m in [Metric::Euc, Metric::Dot, Metric::Cos] {
            for st in [St::Auto, St::Sparse, St::Dense] {
                st_case(rep, md, &mut reported, "hnsw.storage.directed", StCase { metric: m, cfg: (16, 32, 200), nodes: data.iter().map(|v| (v.clone(), st)).collect(), queries: qs.clone() });
            }
            // ... mixed node by node, and with a configuration that prunes (m = m0 = 2: node-to-node distances decide)
            let mixed: Vec<(Vec<i64>, St)> = data.iter().chain(data.iter()).enumerate().map(|(i, v)| (v.clone(), [St::Sparse, St::Dense, St::Auto][i % 3])).collect();
            st_case(rep, md, &mut reported, "hnsw.storage.directed", StCase { metric: m, cfg: (2, 2, 3), nodes: mixed, queries: qs.clone() });
        }
        return;
    }
    let mut r = root.fork("hnsw.storage");
    for _ in 0..110 * scale {
        let metric = *r.pick(&[Metric::Euc, Metric::Euc, Metric::Dot, Metric::Cos]);
        let cfg = *r.pick(&[(16usize, 32usize, 200usize), (16, 32, 200), (2, 2, 3), (2, 4, 8), (3, 3, 1)]);
        let dim = *r.pick(&[2usize, 4, 5, 8, 9, 16]);
        let n = 1 + r.below(if cfg.0 == 16 { 10 } else { 24 }) as usize;
        let one = *r.pick(&[Some(St::Auto), Some(St::Auto), Some(St::Sparse), None]);
        let mut pool: Vec<Vec<i64>> = Vec::new();
        let mut nodes = Vec::new();
        for _ in 0..n {
            let v = sparse_vec(&mut r, dim, &pool);
            pool.push(v.clone());
            nodes.push((v, one.unwrap_or_else(|| *r.pick(&[St::Dense, St::Auto, St::Sparse]))));
        }
        let queries = (0..2 + r.below(2)).map(|_| (off_support_query(&mut r, dim, &pool), *r.pick(&[1usize, 2, 3, 50]), *r.pick(&[1usize, 3, 50]))).collect();
        st_case(rep, md, &mut reported, "hnsw.storage", StCase { metric, cfg, nodes, queries });
    }
}


// ------------------------------------------------------------------ the storage-key layer
//
// Keys and collection names outside `[a-z0-9]+`: every collection lives in ONE flat store, told apart
// by the key prefixes `emb:` / `coll:<name>:emb:`, and every cached index in ONE map keyed by a slot
// name (`_default` for the default collection, the collection's name otherwise).  The Lean model of
// that layer is `NsModel.lean` (driver commands `ns ..`); the oracle below is the property itself,
// evaluated against what was stored THROUGH THE API in the collection that is searched.

#[derive(Clone, Debug)]
enum NsOp {
    Store { key: String, v: Vec<i64> },
    Del { key: String },
    CStore { c: String, key: String, v: Vec<i64> },
    CDel { c: String, key: String },
    /// `build_and_cache_index`
    Build,
    /// what a user of `cache_hnsw_index(c, ..)` does: index the vectors of `list_collection_keys(c)`
    /// and cache them under their storage keys in slot `c`
    CBuild { c: String },
    /// `invalidate_hnsw_cache(slot)`
    Inval { slot: String },
    Keys,
    CKeys { c: String },
    Get { key: String },
    CGet { c: String, key: String },
    Search { q: Vec<i64>, k: usize },
    CSearch { c: String, q: Vec<i64>, k: usize },
}
impl NsOp {
    fn line(&self) -> String {
        match self {
            NsOp::Store { key, v } => format!("ns store {key} {}", ints(v)),
            NsOp::Del { key } => format!("ns del {key}"),
            NsOp::CStore { c, key, v } => format!("ns cstore {c} {key} {}", ints(v)),
            NsOp::CDel { c, key } => format!("ns cdel {c} {key}"),
            NsOp::Build => "ns build".into(),
            NsOp::CBuild { c } => format!("ns cbuild {c}"),
            NsOp::Inval { slot } => format!("ns inval {slot}"),
            NsOp::Keys => "ns keys".into(),
            NsOp::CKeys { c } => format!("ns ckeys {c}"),
            NsOp::Get { key } => format!("ns get {key}"),
            NsOp::CGet { c, key } => format!("ns cget {c} {key}"),
            NsOp::Search { q, k } => format!("ns search {} {k}", ints(q)),
            NsOp::CSearch { c, q, k } => format!("ns csearch {c} {} {k}", ints(q)),
        }
    }
    fn tag(&self) -> &'static str {
        match self {
            NsOp::Store { .. } => "store_embedding",
            NsOp::Del { .. } => "delete_embedding",
            NsOp::CStore { .. } => "store_in_collection",
            NsOp::CDel { .. } => "delete_from_collection",
            NsOp::Build => "build_and_cache_index",
            NsOp::CBuild { .. } => "cache_hnsw_index",
            NsOp::Inval { .. } => "invalidate_hnsw_cache",
            NsOp::Keys => "list_keys",
            NsOp::CKeys { .. } => "list_collection_keys",
            NsOp::Get { .. } => "get_embedding",
            NsOp::CGet { .. } => "get_from_collection",
            NsOp::Search { .. } => "search_similar",
            NsOp::CSearch { .. } => "search_in_collection",
        }
    }
}

/// `(collection, key)`; `None` = the default collection
type NsKey = (Option<String>, String);

struct NsRunner {
    eng: VectorEngine,
    /// what is stored now, as the API was told: the intended contents of every collection
    shadow: BTreeMap<NsKey, Vec<i64>>,
    /// every `(collection, key)` ever stored (a deleted alias can survive in a cached index)
    ever: BTreeSet<NsKey>,
    /// `build_and_cache_index` succeeded and neither the default collection nor anything that
    /// invalidates slot `_default` has been written since
    default_index_live: bool,
}

enum NsObs {
    Plain(String),
    Search(Result<Vec<(String, f32)>, String>),
}

fn ns_score_matches(q: &[i64], v: &[i64], sc: f32) -> bool {
    if v.len() != q.len() {
        return false;
    }
    let a = nsq(q);
    let (p, r) = ingredients(Metric::Cos, q, v);
    sc.to_bits() == score_f32_brute(Metric::Cos, a, p, r).to_bits() || sc.to_bits() == score_f32_hnsw(a, p, r).to_bits() || within_tol(sc, score_f64(Metric::Cos, a, p, r))
}

impl NsRunner {
    fn new() -> NsRunner {
        NsRunner { eng: VectorEngine::new(), shadow: BTreeMap::new(), ever: BTreeSet::new(), default_index_live: false }
    }
    fn space_of(&self, c: &Option<String>) -> Space {
        let mut sp = Space::default();
        for ((cc, k), v) in &self.shadow {
            if cc == c {
                sp.items.insert(k.clone(), (v.clone(), vec![]));
            }
        }
        sp
    }
    /// writing collection `c` invalidates slot `c`
    fn wrote(&mut self, c: &Option<String>) {
        if c.is_none() || c.as_deref() == Some("_default") {
            self.default_index_live = false;
        }
    }
    /// The kind of a failed search oracle, computed from the answer and the history:
    ///  * `search_similar` with a live default index reports `r` where the stored key is `emb:r`
    ///    (scored with `emb:r`'s vector): the storage prefix was stripped from a bare key;
    ///  * `search_in_collection(c)` reports a key that was never stored in `c` and
    ///    - some `(c2, k2)`, `c2 != c`, that WAS stored has the same storage key: the names overlap;
    ///    - `c` is `_default`, the default collection's index is live and the key belongs to the
    ///      default collection: the cache slot is shared (confirmed by replay with an invalidation);
    ///  * otherwise the generic kind the oracle gave.
    fn ns_kind(&self, c: &Option<String>, q: &[i64], res: &[(String, f32)], generic: &'static str) -> &'static str {
        for (rk, sc) in res {
            let own = self.shadow.get(&(c.clone(), rk.clone())).map_or(false, |v| ns_score_matches(q, v, *sc));
            if own {
                continue;
            }
            match c {
                None => {
                    let with_prefix = (None, format!("emb:{rk}"));
                    if self.default_index_live && self.shadow.get(&with_prefix).map_or(false, |v| ns_score_matches(q, v, *sc)) {
                        return "cached_index_strips_key_prefix";
                    }
                }
                Some(cn) => {
                    let sk = format!("coll:{cn}:emb:{rk}");
                    if self.ever.iter().any(|(c2, k2)| c2.as_ref().map_or(false, |c2| c2 != cn && format!("coll:{c2}:emb:{k2}") == sk)) {
                        return "collection_prefix_overlap";
                    }
                    let bare = rk.strip_prefix("emb:").unwrap_or(rk).to_string();
                    if cn == "_default" && self.default_index_live && (self.ever.contains(&(None, bare)) || self.ever.contains(&(None, rk.clone()))) {
                        return "default_cache_slot_shared";
                    }
                }
            }
        }
        // the same overlap seen from the other side: a key stored in `c` through the API is MISSING (or
        // scored with another vector) because some `(c2, k2)`, `c2 != c`, that was stored has its storage
        // key and overwrote / deleted it
        if let Some(cn) = c {
            for ((cc, k1), _) in &self.shadow {
                if cc.as_ref() == Some(cn) {
                    let sk = format!("coll:{cn}:emb:{k1}");
                    if self.ever.iter().any(|(c2, k2)| c2.as_ref().map_or(false, |c2| c2 != cn && format!("coll:{c2}:emb:{k2}") == sk)) {
                        return "collection_prefix_overlap";
                    }
                }
            }
        }
        generic
    }
    fn search(&mut self, site: &'static str, c: Option<String>, q: &[i64], k: usize, viol: &mut Vec<Viol>) -> NsObs {
        let qf = f32s(q);
        let eng = &self.eng;
        let call = guarded(AssertUnwindSafe(|| match &c {
            None => eng.search_similar(&qf, k),
            Some(cn) => eng.search_in_collection(cn, &qf, k),
        }));
        match call {
            Err(p) => {
                viol.push(Viol { site: site.into(), kind: "panic", what: p.clone() });
                NsObs::Plain(format!("panic: {p}"))
            }
            Ok(r) => {
                let res = conv(r);
                if let Ok(r) = &res {
                    // the collection holds few vectors: a cached index over them is exact
                    // (small_index_search_is_exact), so the exact top-k is required on every path
                    let sp = self.space_of(&c);
                    let mut found = Vec::new();
                    oracle_page(site, r, q, k, 0, k, Metric::Cos, &sp, None, false, false, &mut found);
                    if let Some(first) = found.into_iter().next() {
                        let kind = self.ns_kind(&c, q, r, first.kind);
                        viol.push(Viol { site: site.into(), kind, what: format!("{}: {} (answer {r:?}; stored in the searched collection through the API: {:?})", first.kind, first.what, sp.items.keys().collect::<Vec<_>>()) });
                    }
                }
                NsObs::Search(res)
            }
        }
    }
    fn exec(&mut self, op: &NsOp, viol: &mut Vec<Viol>) -> NsObs {
        let plain = |r: Result<(), VectorError>| NsObs::Plain(match r {
            Ok(()) => "ok".to_string(),
            Err(e) => format!("err {}", verr(&e)),
        });
        let show = |r: Result<Vec<f32>, VectorError>| NsObs::Plain(match r {
            Ok(v) => format!("ok {}", to_ints(&v).map_or("non-integer".to_string(), |x| ints(&x))),
            Err(e) => format!("err {}", verr(&e)),
        });
        let keys = |mut ks: Vec<String>| {
            ks.sort();
            NsObs::Plain(format!("ok {}", ks.join(",")).trim_end().to_string())
        };
        match op {
            NsOp::Store { key, v } => {
                let r = self.eng.store_embedding(key, f32s(v));
                if r.is_ok() {
                    self.shadow.insert((None, key.clone()), v.clone());
                    self.ever.insert((None, key.clone()));
                    self.wrote(&None);
                }
                plain(r)
            }
            NsOp::Del { key } => {
                let r = self.eng.delete_embedding(key);
                if r.is_ok() {
                    self.shadow.remove(&(None, key.clone()));
                    self.wrote(&None);
                }
                plain(r)
            }
            NsOp::CStore { c, key, v } => {
                let r = self.eng.store_in_collection(c, key, f32s(v));
                if r.is_ok() {
                    self.shadow.insert((Some(c.clone()), key.clone()), v.clone());
                    self.ever.insert((Some(c.clone()), key.clone()));
                    self.wrote(&Some(c.clone()));
                }
                plain(r)
            }
            NsOp::CDel { c, key } => {
                let r = self.eng.delete_from_collection(c, key);
                if r.is_ok() {
                    self.shadow.remove(&(Some(c.clone()), key.clone()));
                    // an ACCEPTED delete names a storage key just as a store does: `cdel a emb:k` removes what
                    // `cstore a:emb k` wrote (same storage key coll:a:emb:k) — the overlap seen through a delete
                    self.ever.insert((Some(c.clone()), key.clone()));
                    self.wrote(&Some(c.clone()));
                }
                plain(r)
            }
            NsOp::Build => {
                if self.eng.build_and_cache_index(HNSWConfig::default()).is_ok() {
                    self.default_index_live = true;
                }
                NsObs::Plain("ok".into())
            }
            NsOp::CBuild { c } => {
                let ks = self.eng.list_collection_keys(c);
                let vecs: Vec<Vec<f32>> = ks.iter().map(|k| self.eng.get_from_collection(c, k).unwrap_or_default()).collect();
                if !vecs.windows(2).any(|w| w[0].len() != w[1].len()) {
                    let idx = HNSWIndex::with_config(HNSWConfig::default());
                    for v in &vecs {
                        idx.insert(v.clone());
                    }
                    self.eng.cache_hnsw_index(c, Arc::new(idx), ks.iter().map(|k| format!("coll:{c}:emb:{k}")).collect());
                }
                NsObs::Plain("ok".into())
            }
            NsOp::Inval { slot } => {
                self.eng.invalidate_hnsw_cache(slot);
                if slot == "_default" {
                    self.default_index_live = false;
                }
                NsObs::Plain("ok".into())
            }
            NsOp::Keys => keys(self.eng.list_keys()),
            NsOp::CKeys { c } => keys(self.eng.list_collection_keys(c)),
            NsOp::Get { key } => show(self.eng.get_embedding(key)),
            NsOp::CGet { c, key } => show(self.eng.get_from_collection(c, key)),
            NsOp::Search { q, k } => self.search(op.tag(), None, q, *k, viol),
            NsOp::CSearch { c, q, k } => self.search(op.tag(), Some(c.clone()), q, *k, viol),
        }
    }
}

/// oracle-only replay on a fresh engine: (op index, site, kind) of every violation
fn ns_replay(ops: &[NsOp]) -> Vec<(usize, String, &'static str)> {
    let mut r = NsRunner::new();
    let mut out = Vec::new();
    for (i, op) in ops.iter().enumerate() {
        let mut v = Vec::new();
        let _ = guarded(AssertUnwindSafe(|| r.exec(op, &mut v)));
        for x in v {
            out.push((i, x.site, x.kind));
        }
    }
    out
}

fn ns_ops_json(ops: &[NsOp]) -> Value {
    json!(ops.iter().map(|o| o.line()).collect::<Vec<_>>())
}

/// model answers to `ns keys` / `ns ckeys` come in store order: sort like the engine's are sorted
fn canon_keys(ans: &str) -> String {
    match ans.strip_prefix("ok ") {
        Some(t) => {
            let mut ks: Vec<&str> = t.split(',').collect();
            ks.sort();
            format!("ok {}", ks.join(",")).trim_end().to_string()
        }
        None => ans.to_string(),
    }
}

fn run_ns(cx: &mut Ctx, stream: &str, ops: &[NsOp]) {
    let mut r = NsRunner::new();
    cx.m.ask("ns reset");
    let mut first: Option<(usize, String, &'static str, String)> = None;
    let (mut mutated, mut nontrivial) = (false, false);
    for (i, op) in ops.iter().enumerate() {
        let mut viol = Vec::new();
        let obs = match guarded(AssertUnwindSafe(|| r.exec(op, &mut viol))) {
            Ok(o) => o,
            Err(p) => {
                viol.push(Viol { site: op.tag().into(), kind: "panic", what: p.clone() });
                NsObs::Plain(format!("panic: {p}"))
            }
        };
        cx.rep.hit(&format!("ns.op.{}", op.tag()));
        let ans = cx.m.ask(&op.line());
        let sname = format!("{stream}.{}", op.tag());
        match &obs {
            NsObs::Plain(s) => {
                if s == "ok" && matches!(op, NsOp::Store { .. } | NsOp::CStore { .. } | NsOp::Del { .. } | NsOp::CDel { .. }) {
                    mutated = true;
                }
                let model = if matches!(op, NsOp::Keys | NsOp::CKeys { .. }) { canon_keys(&ans) } else { ans.clone() };
                cx.rep.compare(&sname, || json!({"ops": ns_ops_json(&ops[..=i])}), s, &model);
            }
            NsObs::Search(res) => {
                let ma = parse_model(&ans);
                cx.rep.hit(&format!("ns.model.{}", ma.kind.split(' ').next().unwrap_or("")));
                if res.as_ref().map_or(false, |v| !v.is_empty()) {
                    nontrivial = true;
                }
                let (a, b) = compare_search(cx.rep, stream, &op.line(), res, &ma, None);
                cx.rep.compare(&sname, || json!({"ops": ns_ops_json(&ops[..=i]), "impl_result": format!("{res:?}"), "model_raw": ma.raw}), &a, &b);
            }
        }
        if first.is_none() {
            if let Some(v) = viol.into_iter().next() {
                first = Some((i, v.site, v.kind, v.what));
            }
        }
    }
    let key = ops.iter().map(|o| o.line()).collect::<Vec<_>>().join(";");
    cx.rep.case(stream, if nontrivial && mutated { Some(&key) } else { None });
    if let Some((at, site, kind, what)) = first {
        cx.rep.hit(&format!("violation.{kind}"));
        let mut fails = |cand: &[NsOp]| ns_replay(cand).iter().any(|(_, _, k)| *k == kind);
        let shrunk = shrink_list(&ops[..=at], &mut fails);
        let ks = ns_replay(&shrunk);
        let (sat, ssite, mut skind) = ks.iter().find(|(_, _, k)| *k == kind).cloned().unwrap_or((shrunk.len() - 1, site, kind));
        if skind == "default_cache_slot_shared" {
            // confirm by experiment: with the default collection's slot emptied right before the
            // search, the same search must pass
            let mut with_inval: Vec<NsOp> = shrunk[..sat].to_vec();
            with_inval.push(NsOp::Inval { slot: "_default".into() });
            with_inval.push(shrunk[sat].clone());
            if ns_replay(&with_inval).iter().any(|(i, _, _)| *i == with_inval.len() - 1) {
                skind = "returned_foreign_key";
            }
        }
        let class = format!("vector_engine.{ssite}/{skind}");
        if cx.reported.insert(class.clone()) {
            cx.rep.violation(&class, &what, json!({"ops": ns_ops_json(&shrunk[..=sat]), "found_in_stream": stream}));
        } else {
            cx.rep.hit(&format!("violation.repeat.{class}"));
        }
    }
}

/// Directed cases of the storage-key layer; they run before everything else on every run.
fn ns_directed() -> Vec<(&'static str, Vec<NsOp>)> {
    let st = |k: &str, v: &[i64]| NsOp::Store { key: k.into(), v: v.to_vec() };
    let cst = |c: &str, k: &str, v: &[i64]| NsOp::CStore { c: c.into(), key: k.into(), v: v.to_vec() };
    let se = |q: &[i64], k: usize| NsOp::Search { q: q.to_vec(), k };
    let cse = |c: &str, q: &[i64], k: usize| NsOp::CSearch { c: c.into(), q: q.to_vec(), k };
    vec![
        // regression case of 4fa63773: a key that itself starts with the storage prefix, next to the key
        // it collapses into; the answer through the cached index must name the key that was indexed
        (
            "cached-index-key-prefix",
            vec![st("emb:x", &[1, 0]), st("x", &[0, 1]), se(&[1, 0], 1), NsOp::Build, se(&[1, 0], 1), se(&[0, 1], 2), NsOp::Keys, NsOp::Get { key: "emb:x".into() }, NsOp::Get { key: "x".into() }],
        ),
        (
            "cached-index-key-prefix-twice",
            vec![st("emb:emb:x", &[1, 0, 0]), st("emb:x", &[0, 1, 0]), st("x", &[0, 0, 1]), NsOp::Build, se(&[1, 0, 0], 1), se(&[0, 1, 0], 1), se(&[0, 0, 1], 3)],
        ),
        // the same shape in a named collection (index cached under storage keys by its owner)
        (
            "collection-cached-index-key-prefix",
            vec![cst("c0", "coll:c0:emb:x", &[1, 0]), cst("c0", "x", &[0, 1]), NsOp::CBuild { c: "c0".into() }, cse("c0", &[1, 0], 1), cse("c0", &[0, 1], 2), NsOp::CKeys { c: "c0".into() }],
        ),
        // KNOWN FINDING vector_engine.search_in_collection/default_cache_slot_shared
        (
            "default-cache-slot-shared",
            vec![cst("_default", "incoll", &[0, 1]), st("indefault", &[1, 0]), cse("_default", &[0, 1], 5), NsOp::Build, cse("_default", &[0, 1], 5), se(&[0, 1], 5)],
        ),
        // KNOWN FINDING vector_engine.search_in_collection/collection_prefix_overlap
        (
            "collection-prefix-overlap",
            vec![cst("a:emb:b", "k", &[1, 0]), NsOp::CKeys { c: "a".into() }, cse("a", &[1, 0], 5), NsOp::CGet { c: "a".into(), key: "b:emb:k".into() }, cse("a:emb:b", &[1, 0], 5)],
        ),
        // names without the separator never overlap (collections_disjoint_without_separator), whatever the keys
        (
            "separator-free-names",
            vec![
                cst("a", "k", &[1, 0]),
                cst("ab", "k", &[0, 1]),
                cst("a", "emb:k", &[1, 1]),
                st("k", &[2, 1]),
                st("coll:a:emb:k", &[1, 2]),
                NsOp::Build,
                NsOp::CBuild { c: "a".into() },
                cse("a", &[1, 0], 5),
                cse("ab", &[1, 0], 5),
                se(&[1, 0], 5),
                NsOp::CKeys { c: "a".into() },
                NsOp::Keys,
            ],
        ),
    ]
}

/// random sequences over an alphabet built to collide: keys / names that contain the storage
/// prefixes, the separator and the default slot's name
fn ns_gen(r: &mut Rng) -> Vec<NsOp> {
    const KEYS: [&str; 7] = ["x", "emb:x", "k", "b:emb:k", "emb:k", "coll:a:emb:k", "y"];
    const COLLS: [&str; 6] = ["a", "a:emb:b", "a:emb", "_default", "c0", "ab"];
    let dim = 2 + r.below(2) as usize;
    let vecr = |r: &mut Rng| -> Vec<i64> {
        loop {
            let d = if r.chance(1, 10) { 5 - dim } else { dim };
            let v: Vec<i64> = (0..d).map(|_| r.range(-3, 3)).collect();
            if nsq(&v) > 0 {
                return v;
            }
        }
    };
    let n = 8 + r.below(18) as usize;
    let mut ops = Vec::new();
    while ops.len() < n {
        let key = r.pick(&KEYS).to_string();
        let c = r.pick(&COLLS).to_string();
        let k = *r.pick(&[1usize, 2, 5, 5]);
        let op = match r.below(100) {
            0..=14 => NsOp::Store { key, v: vecr(r) },
            15..=39 => NsOp::CStore { c, key, v: vecr(r) },
            40..=43 => NsOp::Del { key },
            44..=48 => NsOp::CDel { c, key },
            49..=58 => NsOp::Build,
            // slot `_default` is documented as the default collection's: the harness, as a caller of
            // `cache_hnsw_index`, does not put another collection's index there
            59..=66 if c != "_default" => NsOp::CBuild { c },
            67..=68 => NsOp::Inval { slot: if r.chance(1, 2) { "_default".to_string() } else { c } },
            69..=71 => NsOp::Keys,
            72..=75 => NsOp::CKeys { c },
            76..=78 => NsOp::Get { key },
            79..=81 => NsOp::CGet { c, key },
            82..=88 => NsOp::Search { q: vecr(r), k },
            _ => NsOp::CSearch { c, q: vecr(r), k },
        };
        ops.push(op);
    }
    ops
}

fn ns_stream(cx: &mut Ctx, root: &Rng, scale: u64) {
    let base = root.fork("ns");
    for i in 0..300 * scale {
        let mut r = base.fork(&i.to_string());
        let ops = ns_gen(&mut r);
        run_ns(cx, "ns", &ops);
    }
}

/// Outside the quantifier (the property speaks of operation SEQUENCES): two real threads under the
/// deterministic scheduler.  `build_and_cache_index` reads the vectors, builds, then caches, without
/// holding anything across the three steps; a store that runs (and invalidates the not-yet-existing
/// cache entry) between the read and the caching leaves an index of the OLD data in the cache, and
/// nothing invalidates it until the next write.
fn observe_concurrent_build(rep: &mut Report) {
    let eng = Arc::new(VectorEngine::new());
    eng.store_embedding("a", vec![1.0, 0.0, 0.0]).ok();
    eng.store_embedding("b", vec![0.0, 1.0, 0.0]).ok();
    let (e1, e2) = (eng.clone(), eng.clone());
    let tasks: Vec<Box<dyn FnOnce() + Send>> = vec![
        Box::new(move || {
            e1.build_and_cache_index(HNSWConfig::default()).ok();
        }),
        Box::new(move || {
            e2.store_embedding("a", vec![0.0, 0.0, 1.0]).ok();
            e2.store_embedding("b", vec![0.0, 0.0, -1.0]).ok();
        }),
    ];
    // thread 0 (the builder) runs until it has read one vector and is about to read the other;
    // then thread 1 (the writer) runs to completion; then the builder finishes and caches
    let mut builder_gets = 0usize;
    let mut writer_turn = false;
    let trace = nverif::sched::run_threads(tasks, move |_, parked| {
        let b = parked.iter().position(|p| p.0 == 0);
        let w = parked.iter().position(|p| p.0 == 1);
        if !writer_turn {
            if let Some(bi) = b {
                if parked[bi].1 == "store.get" {
                    if builder_gets >= 1 {
                        writer_turn = true;
                    } else {
                        builder_gets += 1;
                        return bi;
                    }
                } else {
                    return bi;
                }
            }
        }
        w.or(b).unwrap_or(0)
    });
    let now_a = eng.get_embedding("a").ok();
    let now_b = eng.get_embedding("b").ok();
    let via_cache = conv(eng.search_similar(&[0.0, 0.0, 1.0], 2));
    eng.invalidate_hnsw_cache("_default");
    let exact = conv(eng.search_similar(&[0.0, 0.0, 1.0], 2));
    rep.observe(json!({
        "what": "thread 0: build_and_cache_index; thread 1: store a [0,0,1], store b [0,0,-1]; schedule: builder reads one vector, writer runs to completion, builder reads the other vector, builds and caches. Afterwards (no thread running) search_similar([0,0,1], 2) with the cache and after invalidating it",
        "class_if_judged": "vector_engine.build_and_cache_index/stale_after_concurrent_store",
        "schedule": trace.iter().map(|s| format!("{}:{}:{}", s.thread, s.site, s.key)).collect::<Vec<_>>(),
        "stored_now": format!("a={now_a:?} b={now_b:?}"),
        "search_with_cache": format!("{via_cache:?}"),
        "search_after_invalidate": format!("{exact:?}"),
        "stale_index_consulted": via_cache != exact,
    }));
}

// ------------------------------------------------------------------ bit-pattern round trip

fn bits_stream(rep: &mut Report, m: &mut Model, root: &Rng, scale: u64) {
    let mut r = root.fork("bits");
    let eng = VectorEngine::new();
    eng.create_collection("bits", VectorCollectionConfig::default()).ok();
    let specials: [u32; 14] = [
        0x0000_0000, 0x8000_0000, 0x7FC0_0000, 0xFFC0_0001, 0x7F80_0000, 0xFF80_0000, 0x0000_0001, 0x8000_0001, 0x007F_FFFF, 0x3F80_0000, 0x3586_37BD, 0x3586_37BE, 0xB586_37BD,
        0x7F7F_FFFF,
    ];
    for case in 0..1300 * scale {
        let d = 1 + r.below(16) as usize;
        let zeros = r.below(4); // 0: few zeros ... 3: mostly zeros
        let bits: Vec<u32> = (0..d)
            .map(|_| match r.below(8) {
                x if x < zeros * 2 => *r.pick(&[0u32, 0x8000_0000]),
                6 => *r.pick(&specials),
                7 => r.next_u64() as u32,
                _ => (r.range(-64, 64) as f32).to_bits(),
            })
            .collect();
        let v: Vec<f32> = bits.iter().map(|b| f32::from_bits(*b)).collect();
        let named = case % 3 == 2;
        let (key, storage_key) = if named { ("x".to_string(), "coll:bits:emb:x".to_string()) } else { (format!("b{}", case % 5), format!("emb:b{}", case % 5)) };
        let stored = if named { eng.store_in_collection("bits", &key, v.clone()) } else { eng.store_embedding(&key, v.clone()) };
        let back = if named { eng.get_from_collection("bits", &key) } else { eng.get_embedding(&key) };
        let txt = bits.iter().map(|b| b.to_string()).collect::<Vec<_>>().join(",");
        let (tag, pos) = match eng.store().get(&storage_key).ok().and_then(|t| t.get("vector").cloned()) {
            Some(TensorValue::Vector(_)) => ("dense", String::new()),
            Some(TensorValue::Sparse(s)) => ("sparse", format!(":{}", ints(&s.positions().iter().map(|p| i64::from(*p)).collect::<Vec<_>>()))),
            _ => ("none", String::new()),
        };
        rep.hit(&format!("bits.repr.{tag}"));
        let imp = match (&stored, &back) {
            (Ok(()), Ok(b)) => format!("ok {tag}{pos} {}", b.iter().map(|x| x.to_bits().to_string()).collect::<Vec<_>>().join(",")),
            _ => "err".to_string(),
        };
        let model = m.ask(&format!("bits {txt}"));
        rep.compare("bits.roundtrip", || json!({"bits": txt}), &imp, &model);
        if let (Ok(()), Ok(b)) = (&stored, &back) {
            let mut normalised = 0;
            let mut bad = b.len() != bits.len();
            for (x, y) in bits.iter().zip(b.iter().map(|x| x.to_bits())) {
                if *x != y {
                    if *x == 0x8000_0000 && y == 0 && tag == "sparse" {
                        normalised += 1; // documented: -0.0 is not stored by the sparse form; equal under ==
                    } else {
                        bad = true;
                    }
                }
            }
            if normalised > 0 {
                rep.hit_n("bits.negzero_normalised(sparse)", normalised);
            }
            if bits.iter().any(|b| (b & 0x7FFF_FFFF) > 0x7F80_0000) {
                rep.hit("bits.has_nan");
            }
            if bad {
                rep.violation("vector_engine.store_embedding/roundtrip_not_identity", "get(store(v)) differs from v in more than the -0.0 normalisation", json!({"bits": txt, "read_back": imp}));
            }
        } else {
            rep.violation("vector_engine.store_embedding/store_or_get_failed", "store/get of a non-empty vector failed", json!({"bits": txt}));
        }
        rep.case("bits", if bits.iter().any(|b| *b != 0) { Some(&txt) } else { None });
        if case == 7 {
            rep.sample(json!({"stream": "bits", "bits": txt, "impl": imp}));
        }
    }
}

fn main() {
    let args = parse_args();
    std::panic::set_hook(Box::new(|_| {})); // engine panics are caught and reported, not printed
    let mut rep = Report::new(
        "seeded random op sequences (store / overwrite / batch-store / delete / batch-delete / clear / update-metadata / \
         remove-metadata-field / build-index / search with every metric / filtered search / paginated search / explicit-index search, \
         default and named collections, sequential and rayon scans) on integer-valued vectors |x|<=64, dim<=16; ns: op sequences over \
         colliding key / collection-name strings on the flat store and the cache slots; a sequence is \
         non-trivial when it has >=1 successful mutation and >=1 search with a non-empty result; distinct = distinct op text. \
         bits: random f32 bit patterns, non-trivial when not all +0.0. hnsw: a real HNSWIndex with a small random configuration \
         (m, m0, ef_construction, ml, metric), up to 45 inserts of integer or non-integer vectors with duplicates / zeros / scaled \
         copies, searches with random k and ef interleaved; non-trivial when some search returns more than one node",
    );
    let mut m = Model::spawn(&args.driver);
    rep.note("model = /repo with a71cd63e (every mutation invalidates the cached index), B1 = 768f5ff8 (cached index consulted only for a query of the indexed dimension), B2 = b8d4bd8e (collection pre-filter scores with the collection's metric), 4fa63773 (build_and_cache_index caches storage keys) and 733b279c (search_with_hnsw / search_with_hnsw_and_metric refuse a query of another dimension than the index); post-filter search is modelled as it is (oversample, then filter) and its misses are reported by the oracle as the known findings vector_engine.search_similar_filtered/not_topk and vector_engine.search_filtered_in_collection/not_topk (directed reproductions run first)");
    rep.note("storage-key layer (streams directed.ns.*, ns): keys / collection names from an alphabet built to collide (emb:x next to x, b:emb:k, coll:a:emb:k; collections a, a:emb:b, a:emb, _default) on the real engine against the Lean model of the flat store and the cache slots (NsModel.lean); the oracle is the property against what was stored through the API in the searched collection (exact top-k: few vectors, so a cached index is exact). Its failures are classified from the answer and the history: vector_engine.search_similar/cached_index_strips_key_prefix (regression class of 4fa63773), and the known findings vector_engine.search_in_collection/default_cache_slot_shared (confirmed by replay with the slot invalidated) and vector_engine.search_in_collection/collection_prefix_overlap (another stored (collection, key) has the same storage key); directed reproductions run first on every run. The harness, as a caller of cache_hnsw_index, caches storage keys and never puts a named collection's index into slot _default");
    rep.note("explicit-index entry points (op search_with_hnsw / search_with_hnsw_and_metric in the default streams, directed.explicit-index-*): build_hnsw_index over the current default collection, then the search on the returned index and key list; a query of another dimension than the indexed vectors must be refused (anything else, a panic included, is vector_engine.<entry point>/query_dimension_not_checked, the regression class of 733b279c); otherwise keys, order and scores are judged, and with at most 32 vectors the exact top-k (stream *.small_index_is_exact). search_with_hnsw_and_metric is run with ExtendedDistanceMetric::Cosine; its (cos+1)/2 similarity is mapped back to the cosine scale, the re-ranking itself is not modelled");
    rep.note("collections larger than the Auto selectivity sample (streams directed.bigcoll.*, bigcoll): named collections of 100..=400 two/three-dimensional integer vectors, every strategy setting (Auto / PreFilter / PostFilter) x filters matching 0 % / 1-9 vectors / ~3 % / 10 % / 50 % / 100 %, the few matching vectors at arbitrary places of the store's scan order (directed: each of 101 vectors asked for by its own tag, so one lies outside the sampled 100 keys whatever the order), deletes / overwrites / late stores in between; which keys the estimate samples is the iteration order of a HashSet the store scan builds afresh on every call, so the engine's Auto answer is compared with the model's pre-filter arm or post-filter arm, whichever it agrees with (Lean: coll_filtered_is_pre_or_post_for_every_scan); post-filter searches there oversample the whole collection, so EVERY search owes the exact filtered top-k. Completeness failures of filtered searches are filed by what can explain them: <entry point>/prefilter_not_topk (explicit PreFilter, or Auto when fewer than 10 % of every possible sample match), <entry point>/not_topk_inside_oversample_pool (a qualifying vector strictly inside the oversample pool is missing: no strategy may lose it); only what is left is the post-filter class <entry point>/not_topk");
    let root = Rng::new(args.seed);
    let scale: u64 = if args.thorough { 12 } else { 1 };

    {
        let mut cx = Ctx { rep: &mut rep, m: &mut m, reported: BTreeSet::new() };
        // the storage-key layer first: the regression case of 4fa63773 and the two known namespace findings
        for (name, ops) in ns_directed() {
            run_ns(&mut cx, &format!("directed.ns.{name}"), &ops);
        }
        for (name, ops) in directed() {
            run_seq(&mut cx, &format!("directed.{name}"), &ops);
        }
        // collections larger than the Auto strategy's selectivity sample (every strategy x selectivity)
        for (name, ops) in big_directed() {
            run_seq(&mut cx, &format!("directed.{name}"), &ops);
        }
        big_stream(&mut cx, &root, scale);
        // node representations x index metrics: a collection answered from a cached index of its metric,
        // then the index itself with every way of inserting a vector
        for (name, m, ops) in emb_directed() {
            run_emb(&mut cx, &format!("directed.emb.{name}"), m, &ops);
        }
        st_stream(cx.rep, cx.m, &root, scale, true);
        ns_stream(&mut cx, &root, scale);
        for (focus, name, n) in [(0u64, "default", 1250u64), (1, "named", 900), (2, "mixed", 550)] {
            let base = root.fork(name);
            for i in 0..n * scale {
                let mut g = Gen::new(base.fork(&i.to_string()));
                let ops = gen_seq(&mut g, focus, cx.rep);
                run_seq(&mut cx, name, &ops);
            }
        }
        emb_stream(&mut cx, &root, scale);
    }
    bits_stream(&mut rep, &mut m, &root, scale);
    hnsw_stream(&mut rep, &mut m, &root, scale);
    st_stream(&mut rep, &mut m, &root, scale, false);
    observe_foreign_index(&mut rep);
    observe_concurrent_build(&mut rep);

    rep.expected_branches = [
        "model.ranked", "model.index", "model.ann", "model.zero", "model.err", "repr.dense", "repr.sparse", "err.dim_mismatch", "err.not_found", "err.empty_vector", "err.invalid_top_k", "err.coll_exists",
        "err.coll_not_found", "err.batch_validation", "op.update_metadata", "op.remove_metadata_field", "op.batch_store_embeddings", "op.search_similar_paginated", "cfg.parallel_threshold=2",
        "hnsw.multi_layer", "hnsw.n>m0(pruning possible)", "hnsw.recall.approximate", "hnsw.recall.exact_topk", "hnsw.small_index_regime", "hnsw.data.non_integer", "hnsw.metric.cosine", "hnsw.metric.euclid",
        "hnsw.metric.dot", "search.small_live_index.checked_exact", "search.explicit_small_index.checked_exact", "op.search_with_hnsw", "op.search_with_hnsw_and_metric", "ns.model.index", "ns.model.ranked",
        "emb.search.via_index.euclid.sparse_nodes", "emb.search.via_index.dot.sparse_nodes", "emb.search.via_index.cosine.sparse_nodes", "emb.search.via_index.euclid.dense_nodes", "emb.model.ranked.euclid",
        "hnsw.storage.node.auto.sparse", "hnsw.storage.node.auto.dense", "hnsw.storage.node.sparse.sparse", "hnsw.storage.metric.euclid", "hnsw.storage.metric.dot", "hnsw.storage.metric.cosine",
        "hnsw.storage.small_index_regime", "hnsw.storage.approximate_regime", "hnsw.node_storage.auto", "hnsw.node_storage.mixed", "explicit_index.euclid.auto", "explicit_index.dot.auto", "explicit_index.cosine.auto",
        "search_filtered_in_collection.auto.collection_larger_than_sample",
    ]
        .iter()
        .map(|s| s.to_string())
        .collect();
    rep.note("scores: compared bit-for-bit against a recomputation of the engine's own f32 operation order from exact integers; the 1e-5 fallback (counted in distribution as score.within_1e-5(not-proof)) is an oracle, not a proof");
    rep.note("ties: the store's scan order is a HashSet iteration order, so equal scores are compared as tie classes (cosine: scores within 1e-6 relative are merged into one class, counted as rank.cosine_near_tie_merged)");
    rep.note("default / named / mixed streams: collection names are [a-z0-9]+, keys are [a-z0-9]+ or such a key behind the storage prefix (emb:k0 next to k0); the index over a named collection is built by the harness with the default (cosine) HNSW metric and only for cosine collections; when a later create_collection gives such a collection another metric the harness, as the owner of that index, invalidates it (sent to the model as the `invalidate_hnsw_cache` operation)");
    rep.note("HNSW stream, node storage: half of the integer-data cases under the Euclidean / dot-product metric insert their nodes with insert_auto / insert_sparse / a mix; the graph is still compared insert by insert, which ties the node-to-node distances pruning takes (private distance_embeddings: sparse-sparse merge, sparse-dense) to the distance_dense values the model is given (exact on integer data, so equal bit for bit whatever the representation)");
    rep.note("HNSW stream: the model is given the level each insert drew (harness copy of the private xorshift / ln formula) and the distances the real index computes (EmbeddingStorage::distance_dense on the stored embedding, as order keys); answers are compared node id for node id, so the std BinaryHeap tie order is part of the correspondence; the score reported for a node is checked to be to_similarity of that node's distance");
    rep.note("small_index_is_exact: every answer the engine takes from a live cached index over <= 32 vectors (default HNSWConfig) and every HNSW-stream search with n <= m0, n <= ef_construction, n <= max(ef,k) is compared with the exact top-k, as the Lean theorem small_index_search_is_exact predicts");
    rep.note("node representations (directed.explicit-index-sparse-nodes-each-metric, op search_with_hnsw with an index of each metric built with the Dense / Auto storage strategy, cached indexes built with insert / insert_auto / insert_sparse; streams directed.emb.* / emb: one collection of each metric answered from a cached index OF THAT METRIC with every node storage, against the Lean machine ECol; streams hnsw.storage.directed / hnsw.storage: the real HNSWIndex of each metric with nodes inserted by insert / insert_auto / insert_sparse, one strategy or mixed): highly sparse integer vectors and queries with mass outside the stored vectors' support; every returned key / node id must carry its TRUE score under the index's metric (class <entry point>/wrong_score, with_cached_index:wrong_score), every node must read back exactly as inserted (tensor_store.hnsw.get_vector/roundtrip_not_identity) and EmbeddingStorage::distance_dense / distance_sparse of a node must equal the distance of the dense node of the same vector (tensor_store.embedding_storage.distance_dense/representation_dependent: Euclidean and dot-product bit for bit, cosine within 1e-5, where the sparse arm rounds in f64 and the dense arm in f32); the Lean model supplies the node form (enode) and the exact ingredients of every distance (edist, edists)");
    rep.note("not modelled: quantized / product-quantized / binary / tensor-train HNSW nodes (lossy by design), recall beyond the small-index regime, SIMD rounding of engine scores on non-integer data, IVF indexes, entity embeddings, persistence, non-default engine configuration other than parallel_threshold");
    rep.write(&args.out);
}
