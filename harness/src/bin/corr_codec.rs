//! C20 correspondence: real tensor_compress / tcp framing vs the Lean codec model.
use nverif::*;
use serde_json::json;
use tensor_chain::network::{BlockRequest, Message, QueryResponse, TxAckMsg};
use tensor_chain::tcp::compression::{self, CompressionConfig, CompressionMethod};
use tensor_chain::tcp::{LengthDelimitedCodec, TcpError};
use tensor_compress::{
    compress_ids, decompress_ids, delta_decode, delta_encode, rle_decode, rle_encode,
    varint_decode, varint_encode, RleEncoded,
};

fn show_u64s(v: &[u64]) -> String {
    if v.is_empty() {
        "-".into()
    } else {
        v.iter().map(|x| x.to_string()).collect::<Vec<_>>().join(",")
    }
}
fn show_i64s(v: &[i64]) -> String {
    if v.is_empty() {
        "-".into()
    } else {
        v.iter().map(|x| x.to_string()).collect::<Vec<_>>().join(",")
    }
}

fn gen_ids(r: &mut Rng) -> (Vec<u64>, &'static str) {
    let n = match r.below(10) {
        0 => 0,
        1 => 1,
        2..=6 => 2 + r.below(8) as usize,
        _ => 10 + r.below(60) as usize,
    };
    let kind = r.below(6);
    let mut v: Vec<u64> = (0..n)
        .map(|_| match r.below(8) {
            0 => u64::MAX,
            1 => 0,
            2 => u64::MAX - r.below(3),
            3 => 1u64 << r.below(64),
            4 => r.next_u64(),
            _ => r.below(300),
        })
        .collect();
    let tag = match kind {
        0 | 1 => {
            v.sort_unstable();
            "sorted"
        }
        2 => {
            v.sort_unstable();
            v.reverse();
            "descending"
        }
        3 => {
            if n > 1 {
                let x = v[0];
                for i in 0..n {
                    if r.chance(1, 2) {
                        v[i] = x;
                    }
                }
            }
            "duplicates"
        }
        _ => "unsorted",
    };
    (v, tag)
}

fn mutate(r: &mut Rng, valid: &[u8]) -> (Vec<u8>, &'static str) {
    let mut b = valid.to_vec();
    match r.below(5) {
        0 if !b.is_empty() => {
            let k = r.below(b.len() as u64) as usize;
            b.truncate(k);
            (b, "truncate")
        }
        1 if !b.is_empty() => {
            let k = r.below(b.len() as u64 * 8) as usize;
            b[k / 8] ^= 1 << (k % 8);
            (b, "bitflip")
        }
        2 => {
            let n = r.below(24) as usize;
            (r.bytes(n), "random")
        }
        3 => {
            // many continuation bytes then terminator: the shift >= 64 branch
            let n = 9 + r.below(8) as usize;
            let mut v: Vec<u8> = (0..n).map(|_| 0x80 | (r.next_u64() as u8)).collect();
            v.push(r.below(128) as u8);
            v.extend_from_slice(valid);
            (v, "overlong")
        }
        _ => {
            let n = 1 + r.below(4) as usize;
            let extra = r.bytes(n);
            b.extend_from_slice(&extra);
            (b, "junk-suffix")
        }
    }
}

fn gen_msg(r: &mut Rng) -> Message {
    match r.below(4) {
        0 => Message::Ping { term: r.next_u64() },
        1 => Message::Pong { term: r.below(5) },
        2 => Message::TxAck(TxAckMsg {
            tx_id: r.next_u64(),
            shard_id: r.below(4) as usize,
            success: r.chance(1, 2),
            error: if r.chance(1, 2) {
                Some("e".repeat(r.below(40) as usize))
            } else {
                None
            },
        }),
        _ => Message::BlockRequest(BlockRequest {
            from_height: r.below(100),
            to_height: r.next_u64(),
            requester_id: format!("node{}", r.below(1000)),
        }),
    }
}

/// Errors by VARIANT, never by message wording (BUILDING.md "Error canonicalisation", rule 1).
/// `InvalidFrame(String)` has two producers, told apart by the OPERATION, not by the text: the frame
/// readers raise it only for a zero length prefix (framing.rs read_frame* / read_frame_v2*), and
/// `decode_payload_v2` only for an empty payload; the caller says which operation it ran.
#[derive(Clone, Copy)]
enum FrameOp {
    Read,
    DecodeV2,
    Encode,
}
fn tcp_err(e: &TcpError, op: FrameOp) -> &'static str {
    match (e, op) {
        (TcpError::MessageTooLarge { .. }, _) => "too_large",
        (TcpError::InvalidFrame(_), FrameOp::Read) => "zero_length",
        (TcpError::InvalidFrame(_), FrameOp::DecodeV2) => "empty_v2",
        (TcpError::InvalidFrame(_), FrameOp::Encode) => "other:InvalidFrame", // no encoder raises it
        (TcpError::Io(io), _) if io.kind() == std::io::ErrorKind::UnexpectedEof => "short_read",
        (TcpError::Serialization(_), _) => "undecodable",
        _ => "other",
    }
}

/// Read frames with the real async reader from an in-memory stream.
fn real_read_all(codec: &LengthDelimitedCodec, stream: &[u8], rt: &tokio::runtime::Runtime) -> (Vec<Result<Vec<u8>, ()>>, String) {
    rt.block_on(async {
        let mut rd: &[u8] = stream;
        let mut frames = Vec::new();
        loop {
            let before = rd.len();
            match codec.read_frame(&mut rd).await {
                Ok(None) => return (frames, "eof".to_string()),
                Ok(Some(m)) => frames.push(Ok(bitcode::serialize(&m).unwrap())),
                Err(e) => {
                    let k = tcp_err(&e, FrameOp::Read);
                    if k == "undecodable" {
                        frames.push(Err(()));
                        let _ = before;
                        continue;
                    }
                    return (frames, k.to_string());
                }
            }
        }
    })
}

/// An `AsyncRead` over a byte slice that hands out at most `chunks[i]` bytes per read call
/// (cycling): a TCP stream delivering a frame in several segments.
struct Trickle<'a> {
    data: &'a [u8],
    chunks: Vec<usize>,
    i: usize,
}
impl tokio::io::AsyncRead for Trickle<'_> {
    fn poll_read(
        mut self: std::pin::Pin<&mut Self>,
        _cx: &mut std::task::Context<'_>,
        buf: &mut tokio::io::ReadBuf<'_>,
    ) -> std::task::Poll<std::io::Result<()>> {
        let want = self.chunks[self.i % self.chunks.len()].max(1);
        self.i += 1;
        let n = want.min(buf.remaining()).min(self.data.len());
        let (head, tail) = self.data.split_at(n);
        buf.put_slice(head);
        self.data = tail;
        std::task::Poll::Ready(Ok(()))
    }
}

/// Read frames (v1 readers, with and without timeout) from a stream delivered in small reads.
fn real_read_all_trickled(codec: &LengthDelimitedCodec, stream: &[u8], chunks: &[usize], with_timeout: bool, rt: &tokio::runtime::Runtime) -> (Vec<Result<Vec<u8>, ()>>, String) {
    rt.block_on(async {
        let mut rd = Trickle { data: stream, chunks: chunks.to_vec(), i: 0 };
        let mut frames = Vec::new();
        loop {
            let res = if with_timeout {
                codec.read_frame_with_timeout(&mut rd, std::time::Duration::from_secs(5)).await
            } else {
                codec.read_frame(&mut rd).await
            };
            match res {
                Ok(None) => return (frames, "eof".to_string()),
                Ok(Some(m)) => frames.push(Ok(bitcode::serialize(&m).unwrap())),
                Err(e) => {
                    let k = tcp_err(&e, FrameOp::Read);
                    if k == "undecodable" {
                        frames.push(Err(()));
                        continue;
                    }
                    return (frames, k.to_string());
                }
            }
        }
    })
}

fn cfg_enabled(c: &LengthDelimitedCodec) -> bool {
    c.compression_enabled()
}

// ---------- sparse vectors (tensor_store::SparseVector, EmbeddingValidator) ----------
use tensor_chain::message_validation::EmbeddingValidator;
use tensor_store::sparse_vector::SparseVectorBuilder;
use tensor_store::SparseVector;

#[derive(serde::Serialize)]
struct RawSparse {
    dimension: usize,
    positions: Vec<u32>,
    values: Vec<f32>,
}

/// a `SparseVector` exactly as a decoder hands it over: no constructor, no invariant
fn raw_sparse(dim: usize, pos: &[u32], vals: &[u32]) -> SparseVector {
    let raw = RawSparse { dimension: dim, positions: pos.to_vec(), values: vals.iter().map(|b| f32::from_bits(*b)).collect() };
    bitcode::deserialize(&bitcode::serialize(&raw).unwrap()).unwrap()
}
fn show_u32s(v: &[u32]) -> String {
    if v.is_empty() { "-".into() } else { v.iter().map(|x| x.to_string()).collect::<Vec<_>>().join(",") }
}
fn show_bits(v: &[f32]) -> String {
    if v.is_empty() { "-".into() } else { v.iter().map(|x| x.to_bits().to_string()).collect::<Vec<_>>().join(",") }
}
fn show_sv(s: &SparseVector) -> String {
    format!("{}|{}|{}", s.dimension(), show_u32s(s.positions()), show_bits(s.values()))
}
fn gen_bits(r: &mut Rng) -> u32 {
    match r.below(16) {
        0 | 1 | 2 => 0,                       // +0.0
        3 => 0x8000_0000,                     // -0.0
        4 => 0x7FC0_0000,                     // NaN
        5 => 0xFFC0_0001,                     // -NaN with payload
        6 => 0x7F80_0000,                     // +inf
        7 => 0xFF80_0000,                     // -inf
        8 => 1,                               // smallest subnormal
        9 => 0x8000_0001,
        10 => 0x3F80_0000,                    // 1.0
        11 => 0xC020_0000,                    // -2.5
        12 => 0x7F7F_FFFF,                    // MAX
        13 => 0x7F80_0001,                    // signalling NaN
        _ => r.next_u64() as u32,
    }
}
/// WHICH check of `EmbeddingValidator::validate` refused: every refusal is the one variant
/// `ChainError::InvalidEmbedding { reason: String }`, so the reason exists only as message text. C20 needs
/// "accepted" vs "refused" (an accepted vector must not panic later), so the COMPARED verdict is `ok` /
/// `invalid` (rule 2) and this reading of the text is a coverage statistic only (`sparse.validate.<reason>`).
fn val_class(e: &tensor_chain::ChainError) -> &'static str {
    let t = e.to_string();
    if t.contains("dimension cannot be zero") { "zero_dim" }
    else if t.contains("NaN value") { "nan" }
    else if t.contains("infinite value") { "inf" }
    else if t.contains("magnitude") { "magnitude" }
    else if t.contains("out of bounds") { "pos_oob" }
    else if t.contains("not strictly sorted") { "not_sorted" }
    else if t.contains("exceeds maximum") { "dim_too_large" }
    else if t.contains("positions") && t.contains("values") { "len_mismatch" }
    else { "other" }
}

fn stream_sparse(rep: &mut Report, m: &mut Model, root: &Rng, scale: u64) {
    // ---- directed: a decoded vector whose two arrays differ in length
    {
        let sv = raw_sparse(4, &[0, 2], &[0x3F80_0000]);
        let v = EmbeddingValidator::new(65536, f32::INFINITY);
        let verdict = match v.validate(&sv, "f") { Ok(()) => "ok", Err(_) => "invalid" };
        let got = guarded(|| sv.get(2));
        if verdict == "ok" && got.is_err() {
            rep.violation(
                "tensor_chain.message_validation.embedding/accepts_vector_that_panics",
                "EmbeddingValidator::validate accepts a decoded SparseVector with positions.len() != values.len(); SparseVector::get then panics",
                json!({"dimension": 4, "positions": "0,2", "values_bits": "1065353216", "then": "get(2)"}),
            );
        }
        rep.hit(&format!("sparse.directed.len_mismatch.{verdict}"));
    }
    let mut r = root.fork("sparse");
    for _ in 0..2500 * scale {
        // dense -> sparse -> dense
        let n = match r.below(8) { 0 => 0, 1 => 1, _ => 2 + r.below(14) as usize };
        let dense: Vec<u32> = (0..n).map(|_| gen_bits(&mut r)).collect();
        let dense_f: Vec<f32> = dense.iter().map(|b| f32::from_bits(*b)).collect();
        let txt = show_u32s(&dense);
        let sv = SparseVector::from_dense(&dense_f);
        rep.compare("sparse.from_dense", || json!({"dense_bits": txt}), &format!("ok {}", show_sv(&sv)), &m.ask(&format!("sp_from_dense {txt}")));
        let back = sv.to_dense();
        rep.compare("sparse.to_dense", || json!({"sv": show_sv(&sv)}), &format!("ok {}", show_bits(&back)),
            &m.ask(&format!("sp_to_dense {} {} {}", sv.dimension(), show_u32s(sv.positions()), show_bits(sv.values()))));
        // property: exact round trip up to the sign of zero
        let want: Vec<u32> = dense.iter().map(|b| if b & 0x7FFF_FFFF == 0 { 0 } else { *b }).collect();
        if back.iter().map(|x| x.to_bits()).collect::<Vec<_>>() != want {
            rep.violation("tensor_store.sparse_vector/dense_roundtrip_not_identity", "to_dense(from_dense(d)) != d (bit patterns, zeros normalised)", json!({"dense_bits": txt}));
        }
        // threshold variant
        let t = gen_bits(&mut r);
        let svt = SparseVector::from_dense_with_threshold(&dense_f, f32::from_bits(t));
        rep.compare("sparse.from_dense_thr", || json!({"dense_bits": txt, "threshold_bits": t}), &format!("ok {}", show_sv(&svt)), &m.ask(&format!("sp_from_dense_thr {t} {txt}")));
        rep.case("sparse.dense", if sv.nnz() >= 1 && sv.nnz() < n { Some(&txt) } else { None });

        // from_parts: unsorted, duplicate, zero and out-of-range positions
        // one case in ten is WIDE: 30..200 writes over 8..64 positions, every value distinct and non-zero, so that
        // many positions are written several times and the order of equal positions decides the result (a sort that
        // is not stable only shows on inputs this long: std's sort_unstable is insertion sort below ~20 elements)
        let wide = r.chance(1, 10);
        let dim = if wide { 8 + r.below(57) as usize } else { 1 + r.below(12) as usize };
        let k = if wide { 30 + r.below(171) as usize } else { r.below(8) as usize };
        let ps: Vec<u32> = (0..k).map(|_| if !wide && r.chance(1, 12) { dim as u32 + r.below(3) as u32 } else { r.below(dim as u64) as u32 }).collect();
        let kv = if !wide && r.chance(1, 6) { r.below(8) as usize } else { k };
        #[allow(clippy::cast_precision_loss)]
        let vs: Vec<u32> = (0..kv).map(|i| if wide { ((i + 1) as f32).to_bits() } else { gen_bits(&mut r) }).collect();
        if wide { rep.hit("sparse.parts.wide"); }
        let vs_f: Vec<f32> = vs.iter().map(|b| f32::from_bits(*b)).collect();
        let line = format!("sp_from_parts {dim} {} {}", show_u32s(&ps), show_u32s(&vs));
        let real = SparseVector::try_from_parts(dim, ps.clone(), vs_f.clone());
        let imp = match &real { Ok(s) => format!("ok {}", show_sv(s)), Err(tensor_store::SparseVectorError::DimensionExceeded { .. }) => "err dim".to_string(), Err(tensor_store::SparseVectorError::IndexOutOfBounds { .. }) => "err oob".to_string() };
        rep.compare("sparse.from_parts", || json!({"line": line}), &imp, &m.ask(&line));
        rep.hit(if real.is_ok() { "sparse.from_parts.ok" } else { "sparse.from_parts.oob" });
        if let Ok(s) = &real {
            // property: the dense image is the input writes applied in order (zeros skipped)
            let mut want = vec![0u32; dim];
            for (p, v) in ps.iter().zip(vs.iter()) { if v & 0x7FFF_FFFF != 0 { want[*p as usize] = *v; } }
            let got: Vec<u32> = s.to_dense().iter().map(|x| x.to_bits()).collect();
            if got != want {
                rep.violation("tensor_store.sparse_vector.from_parts/dense_image_wrong", "to_dense(from_parts(..)) is not the writes applied in order", json!({"line": line}));
            }
            // get / set on the constructed vector (only meaningful when positions are unique)
            let mut sorted = s.positions().to_vec(); sorted.dedup();
            if sorted.len() == s.positions().len() {
                let i = r.below(dim as u64 + 1) as usize;
                if i < dim {
                    let g = s.get(i);
                    rep.compare("sparse.get", || json!({"sv": show_sv(s), "i": i}), &g.to_bits().to_string(),
                        &m.ask(&format!("sp_get {} {} {} {i}", s.dimension(), show_u32s(s.positions()), show_bits(s.values()))));
                }
                let x = gen_bits(&mut r);
                let mut s2 = s.clone();
                let res = s2.try_set(i, f32::from_bits(x));
                let imp = match res { Ok(()) => format!("ok {}", show_sv(&s2)), Err(_) => "err oob".to_string() };
                rep.compare("sparse.set", || json!({"sv": show_sv(s), "i": i, "x": x}), &imp,
                    &m.ask(&format!("sp_set {} {} {} {i} {x}", s.dimension(), show_u32s(s.positions()), show_bits(s.values()))));
                rep.hit(if i >= dim { "sparse.set.oob" } else if x & 0x7FFF_FFFF == 0 { "sparse.set.zero" } else { "sparse.set.value" });
            }
            rep.case("sparse.parts", if s.nnz() >= 2 { Some(&line) } else { None });
        }
        // builder: duplicates keep the last value
        let mut b = SparseVectorBuilder::new(dim);
        for (p, v) in ps.iter().zip(vs_f.iter()) { b.push(*p, *v); }
        let built = b.build();
        rep.compare("sparse.build", || json!({"dim": dim, "pos": show_u32s(&ps), "vals": show_u32s(&vs)}), &show_sv(&built),
            &m.ask(&format!("sp_build {dim} {} {}", show_u32s(&ps), show_u32s(&vs[..vs.len().min(ps.len())]))));
        // property: the built vector's dense image is the pushes applied in order (last write wins); the builder
        // does not range-check (a position >= dimension gives a vector whose to_dense panics: the model says so too)
        if ps.iter().all(|p| (*p as usize) < dim) {
            let mut want = vec![0u32; dim];
            for (p, v) in ps.iter().zip(vs.iter()) { if (*p as usize) < dim && v & 0x7FFF_FFFF != 0 { want[*p as usize] = *v; } }
            let got: Vec<u32> = built.to_dense().iter().map(|x| x.to_bits()).collect();
            // a zero pushed after a non-zero at the same position is skipped by push, so the earlier value stays: the
            // specification above mirrors that (zeros are not writes)
            if got != want {
                rep.violation("tensor_store.sparse_vector.builder/dense_image_wrong", "to_dense(build()) is not the pushes applied in order (last write wins)",
                    json!({"dim": dim, "pos": show_u32s(&ps), "vals": show_u32s(&vs)}));
            }
        }

        // decoded (unvalidated) vectors: validator verdict, then the accessors must not panic
        let dim2 = r.below(10) as usize;
        let k2 = r.below(6) as usize;
        let mut ps2: Vec<u32> = (0..k2).map(|_| r.below(dim2 as u64 + 2) as u32).collect();
        if r.chance(3, 4) { ps2.sort_unstable(); ps2.dedup(); }
        let kv2 = if r.chance(1, 4) { r.below(6) as usize } else { ps2.len() };
        let vs2: Vec<u32> = (0..kv2).map(|_| if r.chance(1, 8) { gen_bits(&mut r) } else { 0x3F80_0000 + r.below(100) as u32 }).collect();
        let sv2 = raw_sparse(dim2, &ps2, &vs2);
        let maxd = *r.pick(&[4usize, 8, 65536]);
        let v = EmbeddingValidator::new(maxd, f32::INFINITY);
        let (verdict, why) = match v.validate(&sv2, "f") {
            Ok(()) => ("ok", "ok"),
            Err(e @ tensor_chain::ChainError::InvalidEmbedding { .. }) => ("invalid", val_class(&e)),
            Err(_) => ("err:other_variant", "other"),
        };
        let line = format!("sp_validate {maxd} {dim2} {} {}", show_u32s(&ps2), show_u32s(&vs2));
        // the model names the refusing check; compared collapsed (see `val_class`)
        let mo = m.ask(&line);
        let mo_c = if mo == "ok" || mo == "bad-op" { mo.as_str() } else { "invalid" };
        rep.compare("sparse.validate", || json!({"line": line, "model_reason": mo}), verdict, mo_c);
        rep.hit(&format!("sparse.validate.{why}"));
        rep.hit(&format!("sparse.validate.model.{mo}"));
        if verdict == "ok" {
            let td = guarded(|| sv2.to_dense());
            let gets = guarded(|| (0..dim2).map(|i| sv2.get(i).to_bits()).collect::<Vec<_>>());
            if td.is_err() || gets.is_err() {
                rep.violation(
                    "tensor_chain.message_validation.embedding/accepts_vector_that_panics",
                    "a decoded SparseVector accepted by EmbeddingValidator::validate makes to_dense/get panic",
                    json!({"line": line}),
                );
            }
        }
        rep.case("sparse.validate", if verdict == "ok" && !ps2.is_empty() { Some(&line) } else { None });
        if rep.samples.len() < 16 && verdict == "ok" && ps2.len() >= 2 {
            rep.sample(json!({"stream":"sparse","validate":line}));
        }
    }
}

// ------------------------------------------------------------------ stream: vector fields of a compressed snapshot
// tensor_compress::format::{compress_vector, decompress_vector}: the lossless arms (VectorRaw, IdList).
// A float is its bit pattern; the two casts and the float tests of looks_like_id_list are OBSERVED with the
// real operators and handed to the model (Codec/VecFormat.lean), which decides the arm, the bytes and the
// decoded bit patterns. The oracle is the property itself: decode(encode(v)) == v bit for bit.
fn gen_vec_bits(r: &mut Rng) -> Vec<u32> {
    let whole = |r: &mut Rng| -> u32 {
        match r.below(10) {
            0 => 0,                                   // +0.0
            1 => 0x8000_0000,                         // -0.0 (a non-negative whole number for `<` and fract)
            2 => (16_777_216.0f32).to_bits(),         // 2^24
            3 => (4_294_967_296.0f32).to_bits(),      // 2^32
            4 => (9_223_372_036_854_775_808.0f32).to_bits(), // 2^63
            5 => 0x5F7F_FFFF,                         // largest f32 below 2^64
            6 => (18_446_744_073_709_551_616.0f32).to_bits(), // 2^64: the cast saturates
            _ => (r.below(50) as f32).to_bits(),
        }
    };
    let n = match r.below(8) { 0 => 0, 1 => 1, _ => 2 + r.below(7) as usize };
    match r.below(6) {
        // non-decreasing whole numbers (the id-list heuristic fires), with -0.0 / +0.0 / boundary values mixed in
        0 | 1 | 2 => {
            let mut v: Vec<f32> = (0..n).map(|_| f32::from_bits(whole(r))).collect();
            v.sort_by(|a, b| a.partial_cmp(b).unwrap());
            // the sort is stable on -0.0 == +0.0: shuffle which zero comes first now and then
            let mut bits: Vec<u32> = v.iter().map(|x| x.to_bits()).collect();
            if r.chance(1, 3) {
                for b in bits.iter_mut() { if *b == 0 && r.chance(1, 2) { *b = 0x8000_0000; } }
            }
            bits
        }
        // whole numbers in any order
        3 => (0..n).map(|_| whole(r)).collect(),
        // anything: NaNs, infinities, subnormals, fractions, negatives
        _ => (0..n).map(|_| gen_bits(r)).collect(),
    }
}
fn cv_line(op: &str, delta: bool, named: bool, v: &[f32]) -> String {
    let nat = |xs: Vec<String>| if xs.is_empty() { "-".to_string() } else { xs.join(",") };
    let bits = nat(v.iter().map(|f| f.to_bits().to_string()).collect());
    #[allow(clippy::cast_possible_truncation, clippy::cast_sign_loss)]
    let us = nat(v.iter().map(|f| (*f as u64).to_string()).collect());
    #[allow(clippy::cast_possible_truncation, clippy::cast_sign_loss, clippy::cast_precision_loss)]
    let back = nat(v.iter().map(|f| ((*f as u64) as f32).to_bits().to_string()).collect());
    let whole = nat(v.iter().map(|f| u8::from(!(*f < 0.0) && !(f.fract() != 0.0)).to_string()).collect());
    let ge = nat(v.iter().enumerate().map(|(i, f)| u8::from(i == 0 || !(*f < v[i - 1])).to_string()).collect());
    format!("{op} {} {} {bits} {us} {back} {whole} {ge}", u8::from(delta), u8::from(named))
}
fn stream_vecformat(rep: &mut Report, m: &mut Model, root: &Rng, scale: u64) {
    use tensor_compress::format::{compress_vector, decompress_vector, CompressedValue};
    let run = |rep: &mut Report, m: &mut Model, bits: &[u32], field: &str, delta: bool, stream: &str| {
        let v: Vec<f32> = bits.iter().map(|b| f32::from_bits(*b)).collect();
        let cfg = tensor_compress::CompressionConfig { tensor_mode: None, delta_encoding: delta, rle_encoding: true };
        let named = field == "ids" || field.ends_with("_ids");
        let txt = show_u32s(bits);
        let res = guarded(|| {
            let c = compress_vector(&v, "row:1", field, &cfg).map_err(|e| format!("{e:?}"))?;
            let d = decompress_vector(&c).map_err(|e| format!("{e:?}"))?;
            Ok::<_, String>((c, d))
        });
        match res {
            Err(p) => rep.violation("tensor_compress.format.compress_vector/panic", &p, json!({"bits": txt, "field": field, "delta_encoding": delta})),
            Ok(Err(e)) => rep.violation("tensor_compress.format.compress_vector/lossless_arm_failed", &e.chars().take(80).collect::<String>(), json!({"bits": txt, "field": field, "delta_encoding": delta})),
            Ok(Ok((c, d))) => {
                let arm = match &c {
                    CompressedValue::VectorRaw(raw) => format!("raw {}", show_bits(raw)),
                    CompressedValue::IdList(bytes) => format!("idlist {}", hex(bytes)),
                    _ => "other".to_string(),
                };
                rep.hit(&format!("vecformat.arm.{}", arm.split(' ').next().unwrap_or("")));
                let imp = format!("{arm} | dec {}", show_bits(&d));
                let line = cv_line("cv", delta, named, &v);
                rep.compare(stream, || json!({"bits": txt, "field": field, "delta_encoding": delta}), &imp, &m.ask(&line));
                // the property: a lossless field decodes to exactly what was encoded
                if d.iter().map(|x| x.to_bits()).collect::<Vec<_>>() != bits {
                    rep.violation(
                        "tensor_compress.format.compress_vector/roundtrip_not_identity",
                        "decompress_vector(compress_vector(v)) != v (bit patterns)",
                        json!({"bits": txt, "decoded_bits": show_bits(&d), "field": field, "delta_encoding": delta, "arm": arm.split(' ').next()}),
                    );
                }
                let nontrivial = matches!(c, CompressedValue::IdList(_)) && bits.len() >= 2;
                let key = format!("{field}/{delta}/{txt}");
                rep.case("vecformat", if nontrivial { Some(&key) } else { None });
            }
        }
    };
    // ---- directed first: the sign of zero, the u64 boundary, NaN / inf under an id-like NAME, empty and single
    let f = |x: f32| x.to_bits();
    let directed: Vec<(Vec<u32>, &str)> = vec![
        (vec![0x8000_0000], "ids"),
        (vec![0x8000_0000, f(3.0), f(4.0)], "data"),
        (vec![0, 0x8000_0000, f(1.0)], "data"),
        (vec![f(1.0), f(2.0), f(2.0), f(7.0)], "data"),
        (vec![f(5.0), f(3.0), f(9.0)], "node_ids"),
        (vec![f(18_446_744_073_709_551_616.0), f(18_446_744_073_709_551_616.0)], "ids"),
        (vec![0x5F7F_FFFF, 0x5F7F_FFFF], "data"),
        (vec![f(9_223_372_036_854_775_808.0), f(18_446_744_073_709_551_616.0)], "data"),
        (vec![0x7FC0_0000, f(1.0)], "ids"),
        (vec![0x7F80_0000], "edge_ids"),
        (vec![f(1.5), f(2.0)], "ids"),
        (vec![f(-1.0), f(2.0)], "ids"),
        (vec![], "ids"),
        (vec![], "data"),
        (vec![f(4.0)], "data"),
        (vec![f(16_777_216.0), f(16_777_218.0)], "data"),
    ];
    for (bits, field) in &directed {
        for delta in [true, false] {
            run(rep, m, bits, field, delta, "vecformat.directed");
        }
    }
    let mut r = root.fork("vecformat");
    for _ in 0..1500 * scale {
        let bits = gen_vec_bits(&mut r);
        let field = *r.pick(&["ids", "neighbor_ids", "data", "weights", "x"]);
        let delta = !r.chance(1, 5);
        run(rep, m, &bits, field, delta, "vecformat.random");
    }
}

// ------------------------------------------------------------------ stream: request-size limits of decoded messages
// message_validation.rs CompositeValidator on a DECODED BlockRequest / SnapshotRequest (the message really goes
// through LengthDelimitedCodec encode -> decode_payload first): the verdict is compared with Codec/Limits.lean and
// judged by the property itself — an accepted request asks for at most the configured number of blocks / bytes
// (true arithmetic, no wrap-around), and the validator never panics on any pair of u64 heights.
fn stream_limits(rep: &mut Report, m: &mut Model, root: &Rng, scale: u64) {
    use tensor_chain::message_validation::{CompositeValidator, MessageValidationConfig, MessageValidator};
    use tensor_chain::network::SnapshotRequest;
    let codec = LengthDelimitedCodec::new(1 << 20);
    let through_wire = |msg: &Message| -> Option<Message> {
        let frame = codec.encode(msg).ok()?;
        codec.decode_payload(&frame[4..]).ok()
    };
    let verdict = |r: &Result<(), tensor_chain::ChainError>, ordered: bool| -> &'static str {
        match r {
            Ok(()) => "ok",
            Err(tensor_chain::ChainError::MessageValidationFailed { .. }) => "inverted",
            Err(tensor_chain::ChainError::NumericOutOfBounds { field, .. }) if field == "block_count" => "too_many",
            Err(tensor_chain::ChainError::NumericOutOfBounds { .. }) => if ordered { "chunk" } else { "other" },
            Err(_) => "other",
        }
    };
    let block = |rep: &mut Report, m: &mut Model, max_blocks: u64, from: u64, to: u64, stream: &str| {
        let cfg = MessageValidationConfig { max_blocks_per_request: max_blocks, ..MessageValidationConfig::default() };
        let v = CompositeValidator::new(cfg);
        let msg = Message::BlockRequest(BlockRequest { from_height: from, to_height: to, requester_id: "node7".into() });
        let Some(decoded) = through_wire(&msg) else {
            rep.violation("tensor_chain.tcp.framing/block_request_does_not_round_trip", "encode -> decode_payload failed", json!({"from": from.to_string(), "to": to.to_string()}));
            return;
        };
        let input = || json!({"max_blocks_per_request": max_blocks.to_string(), "from_height": from.to_string(), "to_height": to.to_string()});
        match guarded(|| v.validate(&decoded, &"peer1".to_string())) {
            Err(p) => rep.violation("tensor_chain.message_validation.block_request/panic", &p, input()),
            Ok(res) => {
                let got = verdict(&res, false);
                rep.hit(&format!("limits.block.{got}"));
                rep.compare(stream, input, got, &m.ask(&format!("vblock {max_blocks} {from} {to}")));
                // the property: accepted => ordered and (to - from + 1) <= max, in true arithmetic
                if res.is_ok() && (to < from || (u128::from(to) - u128::from(from) + 1) > u128::from(max_blocks)) {
                    rep.violation("tensor_chain.message_validation.block_request/accepted_beyond_limit",
                        "an accepted BlockRequest asks for more than max_blocks_per_request blocks (or an inverted range)", input());
                }
                if res.is_err() && to >= from && (u128::from(to) - u128::from(from) + 1) <= u128::from(max_blocks) {
                    rep.violation("tensor_chain.message_validation.block_request/refused_within_limit",
                        "an ordered range within the limit is refused", input());
                }
                let key = format!("{max_blocks}/{from}/{to}");
                rep.case("limits", if to >= from { Some(&key) } else { None });
            }
        }
    };
    const MAX: u64 = u64::MAX;
    // directed first: the ends of the height space and of the limit
    for max_blocks in [1u64, 100, 1000, MAX - 2] {
        for (from, to) in [
            (0u64, MAX), (0, MAX - 1), (1, MAX), (MAX, MAX), (MAX - 1, MAX), (0, 0), (5, 4), (MAX, 0),
            (0, max_blocks.saturating_sub(1)), (0, max_blocks), (1, max_blocks), (7, 7u64.saturating_add(max_blocks.saturating_sub(1))), (7, 7u64.saturating_add(max_blocks)),
            (MAX - max_blocks.min(MAX - 1), MAX), (MAX - max_blocks.min(MAX - 1) + 1, MAX),
        ] {
            block(rep, m, max_blocks, from, to, "limits.block.directed");
        }
    }
    let mut r = root.fork("limits");
    for _ in 0..800 * scale {
        let max_blocks = match r.below(4) { 0 => 1 + r.below(5), 1 => 1000, 2 => r.next_u64() >> r.below(60), _ => 100 };
        let max_blocks = max_blocks.clamp(1, MAX - 2);
        let from = match r.below(5) { 0 => 0, 1 => MAX - r.below(3), 2 => r.next_u64(), _ => r.below(2000) };
        let to = match r.below(6) {
            0 => MAX - r.below(3),
            1 => from.wrapping_add(max_blocks).wrapping_sub(r.below(3)),
            2 => from.saturating_add(r.below(2 * max_blocks.min(1 << 40) + 2)),
            3 => r.next_u64(),
            4 => from.saturating_sub(r.below(3)),
            _ => from,
        };
        block(rep, m, max_blocks, from, to, "limits.block.random");
    }
    // snapshot chunk sizes
    for _ in 0..200 * scale {
        let max_chunk = match r.below(3) { 0 => 1 + r.below(64), 1 => 10 * 1024 * 1024, _ => r.next_u64() >> r.below(60) }.max(1);
        let chunk = match r.below(5) { 0 => 0, 1 => max_chunk, 2 => max_chunk.saturating_add(1), 3 => r.next_u64(), _ => r.below(max_chunk.saturating_add(2)) };
        let cfg = MessageValidationConfig { max_snapshot_chunk_size: max_chunk, ..MessageValidationConfig::default() };
        let v = CompositeValidator::new(cfg);
        let msg = Message::SnapshotRequest(SnapshotRequest { requester_id: "node7".into(), offset: r.next_u64(), chunk_size: chunk });
        let Some(decoded) = through_wire(&msg) else { continue };
        let input = || json!({"max_snapshot_chunk_size": max_chunk.to_string(), "chunk_size": chunk.to_string()});
        match guarded(|| v.validate(&decoded, &"peer1".to_string())) {
            Err(p) => rep.violation("tensor_chain.message_validation.snapshot_request/panic", &p, input()),
            Ok(res) => {
                let got = match &res {
                    Ok(()) => "ok",
                    Err(tensor_chain::ChainError::NumericOutOfBounds { .. }) => if chunk == 0 { "zero_chunk" } else { "chunk_too_large" },
                    Err(_) => "other",
                };
                rep.hit(&format!("limits.snap.{got}"));
                rep.compare("limits.snap", input, got, &m.ask(&format!("vsnap {max_chunk} {chunk}")));
                if res.is_ok() && (chunk == 0 || chunk > max_chunk) {
                    rep.violation("tensor_chain.message_validation.snapshot_request/accepted_beyond_limit", "an accepted SnapshotRequest asks for 0 or more than max_snapshot_chunk_size bytes", input());
                }
            }
        }
    }
    let _ = verdict;
}

fn main() {
    let args = parse_args();
    let mut rep = Report::new(
        "seeded structured generation; a case is non-trivial when the value is non-empty and its \
         encoding differs from the identity (ids: >=2 elements; rle: >=1 run >1; frames: >=1 accepted frame); \
         distinct = distinct canonical input text",
    );
    let mut m = Model::spawn(&args.driver);
    let root = Rng::new(args.seed);
    let scale: u64 = if args.thorough { 20 } else { 1 };

    // ---- stream 1: id lists, valid
    let mut r = root.fork("ids");
    for _ in 0..3000 * scale {
        let (ids, tag) = gen_ids(&mut r);
        let txt = show_u64s(&ids);
        rep.hit(&format!("ids.{tag}"));
        let enc = compress_ids(&ids);
        let dec = decompress_ids(&enc);
        let m_enc = m.ask(&format!("compress {txt}"));
        let m_dec = m.ask(&format!("decompress {}", hex(&enc)));
        rep.compare("ids.encode", || json!({"ids": txt}), &hex(&enc), &m_enc);
        rep.compare("ids.decode", || json!({"bytes": hex(&enc)}), &show_u64s(&dec), &m_dec);
        let d_enc = delta_encode(&ids);
        rep.compare("delta.encode", || json!({"ids": txt}), &show_u64s(&d_enc), &m.ask(&format!("delta_enc {txt}")));
        rep.compare("delta.decode", || json!({"deltas": show_u64s(&d_enc)}), &show_u64s(&delta_decode(&d_enc)), &m.ask(&format!("delta_dec {}", show_u64s(&d_enc))));
        let v_enc = varint_encode(&ids);
        rep.compare("varint.encode", || json!({"vals": txt}), &hex(&v_enc), &m.ask(&format!("varint_enc {txt}")));
        if dec != ids {
            rep.violation(
                "tensor_compress.compress_ids/roundtrip_not_identity",
                "decompress_ids(compress_ids(ids)) != ids",
                json!({"ids": txt, "decoded": show_u64s(&dec), "kind": tag}),
            );
        }
        if varint_decode(&v_enc) != ids {
            rep.violation("tensor_compress.varint/roundtrip_not_identity", "varint_decode(varint_encode(v)) != v", json!({"vals": txt}));
        }
        rep.case("ids", if ids.len() >= 2 { Some(&txt) } else { None });
        if rep.samples.len() < 3 {
            rep.sample(json!({"stream":"ids","ids":txt,"bytes":hex(&enc)}));
        }
    }

    // ---- stream 2: malformed varint / id bytes
    let mut r = root.fork("malformed");
    for _ in 0..3000 * scale {
        let (ids, _) = gen_ids(&mut r);
        let valid = compress_ids(&ids);
        let (bytes, kind) = mutate(&mut r, &valid);
        rep.hit(&format!("malformed.{kind}"));
        let h = hex(&bytes);
        let res = guarded(|| (varint_decode(&bytes), decompress_ids(&bytes)));
        match res {
            Err(p) => rep.violation("tensor_compress.varint_decode/panic", &p, json!({"bytes": h})),
            Ok((v, d)) => {
                rep.compare("varint.decode_malformed", || json!({"bytes": h}), &show_u64s(&v), &m.ask(&format!("varint_dec {h}")));
                rep.compare("ids.decode_malformed", || json!({"bytes": h}), &show_u64s(&d), &m.ask(&format!("decompress {h}")));
                if v.len() > bytes.len() {
                    rep.violation("tensor_compress.varint_decode/amplification", "more values than bytes", json!({"bytes": h}));
                }
            }
        }
        rep.case("malformed", if bytes.len() >= 2 { Some(&h) } else { None });
        if kind == "overlong" && rep.samples.len() < 5 {
            rep.sample(json!({"stream":"malformed","kind":kind,"bytes":h}));
        }
    }

    // ---- stream 3: RLE
    let mut r = root.fork("rle");
    for _ in 0..2000 * scale {
        let n = r.below(40) as usize;
        let mut data: Vec<i64> = Vec::new();
        while data.len() < n {
            let v = match r.below(5) {
                0 => i64::MIN,
                1 => i64::MAX,
                _ => r.range(-3, 3),
            };
            let run = 1 + if r.chance(1, 2) { r.below(6) } else { 0 };
            for _ in 0..run {
                data.push(v);
            }
        }
        let txt = show_i64s(&data);
        let enc = rle_encode(&data);
        let imp = format!("{};{}", show_i64s(&enc.values), show_u64s(&enc.run_lengths.iter().map(|&x| u64::from(x)).collect::<Vec<_>>()));
        rep.compare("rle.encode", || json!({"data": txt}), &imp, &m.ask(&format!("rle_enc {txt}")));
        let dec = rle_decode(&enc);
        if dec != data {
            rep.violation("tensor_compress.rle/roundtrip_not_identity", "rle_decode(rle_encode(d)) != d", json!({"data": txt}));
        }
        // raw decode of arbitrary (values, runs) pairs, lengths may differ
        let vals: Vec<i64> = (0..r.below(6)).map(|_| r.range(-9, 9)).collect();
        let runs: Vec<u32> = (0..r.below(6)).map(|_| r.below(5) as u32).collect();
        let raw = RleEncoded { values: vals.clone(), run_lengths: runs.clone() };
        let rd = rle_decode(&raw);
        let runs_txt = show_u64s(&runs.iter().map(|&x| u64::from(x)).collect::<Vec<_>>());
        rep.compare("rle.decode_raw", || json!({"values": show_i64s(&vals), "runs": runs_txt}), &show_i64s(&rd), &m.ask(&format!("rle_dec {} {}", show_i64s(&vals), runs_txt)));
        rep.case("rle", if enc.run_lengths.iter().any(|&c| c > 1) { Some(&txt) } else { None });
        if rep.samples.len() < 7 {
            rep.sample(json!({"stream":"rle","data":txt,"encoded":imp}));
        }
    }

    // ---- stream 4: frames
    let rt = tokio::runtime::Builder::new_current_thread().enable_all().build().unwrap();
    let mut r = root.fork("frames");
    for _ in 0..1500 * scale {
        let max = *r.pick(&[8usize, 16, 32, 64, 1 << 20]);
        let codec = LengthDelimitedCodec::new(max);
        let nmsg = 1 + r.below(4) as usize;
        let mut stream: Vec<u8> = Vec::new();
        let mut accepted = 0;
        for _ in 0..nmsg {
            let msg = gen_msg(&mut r);
            let payload = bitcode::serialize(&msg).unwrap();
            let imp = match codec.encode(&msg) {
                Ok(f) => {
                    accepted += 1;
                    stream.extend_from_slice(&f);
                    format!("ok {}", hex(&f))
                }
                Err(e) => format!("err {}", tcp_err(&e, FrameOp::Encode)),
            };
            rep.hit(if imp.starts_with("ok") { "frame.enc_ok" } else { "frame.enc_too_large" });
            rep.compare("frame.encode", || json!({"max": max, "payload": hex(&payload)}), &imp, &m.ask(&format!("frame_enc {max} {}", hex(&payload))));
            // v2 without compression
            let imp2 = match codec.encode_v2(&msg) {
                Ok(f) => format!("ok {}", hex(&f)),
                Err(e) => format!("err {}", tcp_err(&e, FrameOp::Encode)),
            };
            rep.compare("frame.encode_v2", || json!({"max": max, "payload": hex(&payload)}), &imp2, &m.ask(&format!("frame_enc2 {max} 0 {}", hex(&payload))));
        }
        // adversity on the stream
        let kind = match r.below(6) {
            0 if !stream.is_empty() => {
                let k = r.below(stream.len() as u64) as usize;
                stream.truncate(k);
                "truncated"
            }
            1 => {
                stream.extend_from_slice(&[0, 0, 0, 0]);
                "zero-length-frame"
            }
            2 => {
                let big = (max as u32).saturating_add(1 + r.below(1000) as u32);
                stream.extend_from_slice(&big.to_be_bytes());
                stream.extend_from_slice(&r.bytes(5));
                "oversize-header"
            }
            3 if !stream.is_empty() => {
                let k = r.below(stream.len() as u64 * 8) as usize;
                stream[k / 8] ^= 1 << (k % 8);
                "bitflip"
            }
            4 => {
                let n = r.below(3) as usize;
                let extra = r.bytes(n);
                stream.extend_from_slice(&extra);
                "short-junk"
            }
            _ => "clean",
        };
        rep.hit(&format!("frame.stream.{kind}"));
        let h = hex(&stream);
        let res = guarded(std::panic::AssertUnwindSafe(|| real_read_all(&codec, &stream, &rt)));
        match res {
            Err(p) => rep.violation("tensor_chain.tcp.read_frame/panic", &p, json!({"max": max, "stream": h})),
            Ok((frames, end)) => {
                let model = m.ask(&format!("frame_read {max} {h}"));
                // model: "<hex> <hex> ... | end"
                let (mf, mend) = model.split_once(" | ").unwrap_or(("", "?"));
                let mframes: Vec<&str> = mf.split(' ').filter(|s| !s.is_empty()).collect();
                // The real reader stops at the first framing error; an undecodable payload (bitcode) is
                // a per-frame error after which the stream position is still past the frame.
                let mut ok = true;
                let mut shown = Vec::new();
                // real loop ends at first non-bitcode error: frames.len() model frames must match
                if frames.len() > mframes.len() {
                    ok = false;
                }
                for (i, f) in frames.iter().enumerate() {
                    match f {
                        Ok(bytes) => {
                            shown.push(hex(bytes));
                            // payload must be semantically the model's payload: decode model's and re-serialise
                            if let Some(mp) = mframes.get(i) {
                                let mbytes = unhex(mp);
                                match bitcode::deserialize::<Message>(&mbytes) {
                                    Ok(mm) => {
                                        if &bitcode::serialize(&mm).unwrap() != bytes {
                                            ok = false;
                                        }
                                    }
                                    Err(_) => ok = false,
                                }
                            }
                        }
                        Err(()) => {
                            shown.push("undecodable".into());
                            if let Some(mp) = mframes.get(i) {
                                if bitcode::deserialize::<Message>(&unhex(mp)).is_ok() {
                                    ok = false;
                                }
                            }
                        }
                    }
                }
                // after an undecodable frame the real caller would drop the connection; we continued,
                // so counts and end-condition are comparable with the model's full scan.
                if frames.len() != mframes.len() || end != mend {
                    ok = false;
                }
                if !ok {
                    rep.disagree("frame.read", json!({"max": max, "stream": h, "kind": kind}), &format!("{} | {}", shown.join(" "), end), &model);
                }
                rep.hit(&format!("frame.end.{end}"));
                if kind == "clean" && (frames.len() != accepted || end != "eof" || frames.iter().any(|f| f.is_err())) {
                    rep.violation("tensor_chain.tcp.framing/stream_not_split_exactly", "concatenated frames did not decode to the same messages", json!({"max": max, "stream": h}));
                }
                // the same bytes delivered in small reads (a frame split over several TCP segments) must
                // give the same frames and the same end condition as the whole buffer
                let nch = 1 + r.below(4) as usize;
                let chunks: Vec<usize> = (0..nch).map(|_| *r.pick(&[1usize, 2, 3, 5, 7, 16, 33])).collect();
                for with_timeout in [false, true] {
                    let split = guarded(std::panic::AssertUnwindSafe(|| real_read_all_trickled(&codec, &stream, &chunks, with_timeout, &rt)));
                    match split {
                        Err(p) => rep.violation("tensor_chain.tcp.read_frame/panic", &p, json!({"max": max, "stream": h, "chunks": chunks})),
                        Ok((f2, e2)) => {
                            if f2 != frames || e2 != end {
                                rep.violation(
                                    "tensor_chain.tcp.read_frame/split_read_changes_frames",
                                    "the same byte stream delivered in small reads decodes to other frames than when delivered at once",
                                    json!({"max": max, "stream": h, "chunks": chunks, "with_timeout": with_timeout,
                                           "whole": format!("{} frames, end {end}", frames.len()), "split": format!("{} frames, end {e2}", f2.len())}),
                                );
                            }
                        }
                    }
                }
                rep.hit(&format!("frame.split_reads.{nch}"));
                rep.case("frames", if !frames.is_empty() { Some(&h) } else { None });
                if rep.samples.len() < 10 {
                    rep.sample(json!({"stream":"frames","max":max,"kind":kind,"bytes":h,"end":end}));
                }
            }
        }
        // v2 split
        let n = r.below(4) as usize;
        let p = r.bytes(n);
        let imp = match codec.decode_payload_v2(&p) {
            Err(e) if tcp_err(&e, FrameOp::DecodeV2) == "empty_v2" => "err empty_v2".to_string(),
            _ => format!("ok {} {}", p.first().map_or(0, |b| b & 1), hex(p.get(1..).unwrap_or(&[]))),
        };
        // only the empty/non-empty decision and the flag split are compared (bitcode/lz4 opaque)
        rep.compare("frame.v2_split", || json!({"payload": hex(&p)}), &imp, &m.ask(&format!("v2_split {}", hex(&p))));
    }

    // ---- stream 5: v2 frames with compression negotiated (LZ4 / None), compressible and not
    let mut r = root.fork("frames_v2c");
    for _ in 0..600 * scale {
        let method = if r.chance(4, 5) { CompressionMethod::Lz4 } else { CompressionMethod::None };
        let min_size = *r.pick(&[0usize, 16, 64, 256]);
        let max = *r.pick(&[64usize, 512, 1 << 20]);
        let enabled = r.chance(5, 6);
        let cfg = CompressionConfig::default().with_method(method).with_min_size(min_size);
        let mut codec = LengthDelimitedCodec::with_compression(max, cfg);
        codec.set_compression_enabled(enabled);
        let n = *r.pick(&[0usize, 8, 40, 300, 2000]);
        let (result, kind) = match r.below(3) {
            0 => (vec![7u8; n], "compressible"),
            1 => (r.bytes(n), "incompressible"),
            _ => {
                let mut v = r.bytes(n / 2);
                v.extend(vec![0u8; n - n / 2]);
                (v, "mixed")
            }
        };
        let msg = Message::QueryResponse(QueryResponse {
            query_id: r.next_u64(),
            shard_id: r.below(4) as usize,
            result,
            execution_time_us: r.below(1000),
            success: true,
            error: None,
        });
        let ser = bitcode::serialize(&msg).unwrap();
        let comp = compression::compress(&ser, method);
        let method_flag = compression::frame_flags(method);
        let real = codec.encode_v2(&msg);
        let imp = match &real {
            Ok(f) => format!("ok {}", hex(f)),
            Err(e) => format!("err {}", tcp_err(e, FrameOp::Encode)),
        };
        let line = format!("frame_enc2c {max} {} {min_size} {method_flag} {} {}", u8::from(enabled && cfg_enabled(&codec)), hex(&ser), hex(&comp));
        rep.compare("frame.encode_v2c", || json!({"max": max, "enabled": enabled, "min_size": min_size, "method_flag": method_flag, "ser_len": ser.len(), "comp_len": comp.len(), "kind": kind}), &imp, &m.ask(&line));
        rep.hit(&format!("v2c.{kind}.{}", if comp.len() < ser.len() { "shrinks" } else { "grows" }));
        if let Ok(frame) = &real {
            rep.hit(if frame.get(4) == Some(&1) { "v2c.sent_compressed" } else { "v2c.sent_raw" });
            // oracle: the decoder must hand back the message that was encoded
            match guarded(std::panic::AssertUnwindSafe(|| codec.decode_payload_v2(&frame[4..]))) {
                Ok(Ok(back)) => {
                    if bitcode::serialize(&back).unwrap() != ser {
                        rep.violation("tensor_chain.tcp.framing.encode_v2/roundtrip_not_identity", "decode_payload_v2(encode_v2(m)) != m", json!({"kind": kind, "ser_len": ser.len(), "comp_len": comp.len(), "min_size": min_size, "flags": frame.get(4)}));
                    }
                }
                Ok(Err(e)) => rep.violation("tensor_chain.tcp.framing.encode_v2/roundtrip_not_identity", &format!("decode_payload_v2(encode_v2(m)) fails: {e:?}"), json!({"kind": kind, "ser_len": ser.len(), "comp_len": comp.len(), "min_size": min_size, "flags": frame.get(4)})),
                Err(p) => rep.violation("tensor_chain.tcp.framing.decode_payload_v2/panic", &p, json!({"kind": kind})),
            }
        }
        rep.case("frames_v2c", if ser.len() >= min_size && enabled { Some(&line) } else { None });
        if rep.samples.len() < 12 && kind == "incompressible" {
            rep.sample(json!({"stream":"frames_v2c","kind":kind,"ser_len":ser.len(),"comp_len":comp.len(),"min_size":min_size,"enabled":enabled}));
        }
    }

    // ---- stream 6: sparse vectors and the embedding validator
    stream_sparse(&mut rep, &mut m, &root, scale);
    stream_vecformat(&mut rep, &mut m, &root, scale);
    stream_limits(&mut rep, &mut m, &root, scale);

    rep.note("lossy codecs (tensor-train, quantisation) are not modelled in this stream; see DESIGN.md C20");
    rep.write(&args.out);
}
