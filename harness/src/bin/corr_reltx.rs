//! C09 correspondence + oracles: the real `relational_engine::RelationalEngine` transaction API vs the Lean
//! model `NeumannModel.RelTx` (driver `drv_reltx`).
//!
//! A script is a list of statements over 1-2 tables (two Int columns each) with hash and b-tree indexes and
//! 2-4 interleaved transactions plus non-transactional statements and index DDL.  After EVERY statement:
//!   * result / error class is compared with the model (stream `stmt`),
//!   * the full image of every table + its index configuration is compared (stream `image`),
//!   * the row-lock table (holder per row, locks per transaction, total) is compared (stream `locks`),
//!   * after commit / rollback / DDL / sweeps: every query that an index can serve (Eq through the hash index,
//!     Lt/Le/Gt/Ge through the b-tree) is compared with the model (stream `query`).
//! Independent of the model, oracles evaluated on the implementation's own outputs (`rep.violation`):
//!   * snapshot oracle: a rollback restores every row the transaction wrote to its image before the
//!     transaction's first write and changes no other row,
//!   * committed-state oracle (serial specification): whenever no transaction is open, every table equals the
//!     image built from committed work only ("as if none of a rolled-back transaction's statements had run");
//!   * exclusion oracle: a statement that changes a row another open transaction has written (updated, deleted
//!     OR inserted — dcf916e8) must have failed with a lock conflict unless that lock timed out; the writer holds
//!     the lock of every row it wrote right after its statement,
//!   * calm-rollback oracle (`rollback_restores`): a rollback of a transaction none of whose rows was interfered
//!     with after a lock expiry answers Ok,
//!   * index oracle, after EVERY statement and whether or not the model still agrees (after a model disagreement
//!     the model is no longer asked, the real run goes on under all oracles): every index-served answer (Eq on each
//!     hash-indexed column, Lt/Le/Gt/Ge on each b-tree-indexed column, all values) equals the filter of the
//!     full-scan image (no missing row, no duplicate).  Right after the rollback of an open transaction a wrong
//!     answer counts as one of the KNOWN findings only in the two situations `rollback_restores` excludes — that
//!     index was created after the transaction's first write to the table, or a row of the transaction was shared
//!     after a lock expiry; in a calm rollback it is `relational_engine.rollback/index_entry_lost_after_same_value_update`
//!     (the missing row had an indexed column written back with its current value: `undo_update_keeps_index_exact`),
//!     `…/index_answer_missing_row` or `…/duplicate_row_in_index_answer_after_calm_rollback`.  Directed same-value
//!     scripts run first; the random generator aims one update in four at an indexed column's current value,
//!   * finished-transaction oracle, lock-release / lock-expiry oracles,
//!   * foreign-lock oracle (`release_keeps_foreign_locks` / `held_lock_survives_others`): the holder of every row
//!     is read before and after EVERY statement other than a tick; a row held by an open transaction that the
//!     statement did not end must still be held by it — in particular after another transaction's commit /
//!     rollback / timeout cleanup (class `relational_engine.row_lock/foreign_lock_released_at_tx_end`), which is
//!     what breaks when `release` drops a taken-over key still listed under the OLD holder,
//!   * takeover-rollback oracle: a rollback restores the pre-image of every row the transaction wrote that nobody
//!     else has changed since — also when the row had been taken over from a timed-out holder,
//!   * lock-table bookkeeping oracles (`LockTable.lean`, Props5), after EVERY statement: (1) an open transaction that
//!     is the row_lock_holder of n rows has at least n keys in its list (`locks_held_by`) — every lock in the table is
//!     listed under its owner (class `relational_engine.<site>/lock_not_listed_under_owner`); (2) the holder of every
//!     row is an open transaction — no lock outlives its transaction, whichever way it ended and however long ago
//!     (`…/lock_outlives_transaction`); (3) a lock-conflict error names a blocking transaction that is open and held a
//!     row of the table just before the statement (`…/lock_conflict_with_ended_transaction`,
//!     `…/lock_conflict_without_held_row`).
//! Lock sweeps in the middle of a transaction's life: a transaction takes its locks statement by statement, so they
//! have different ages; `cleanup_expired_locks` may find the older ones expired and the younger ones alive and must take
//! out of the owner's key list exactly the keys it removes from the table.  Directed scripts (lock timeout 2 s, locks
//! at 0 / 1100 / 2200 ms, sweep at 2200 ms, then commit | rollback | transaction timeout; neighbours: nothing expired,
//! everything expired and re-locked, two owners, a key listed twice, takeover before / after the sweep) run first; the
//! stream `expiry_sweep` produces that shape at random.  A failing script with sleeps is shrunk by concurrent
//! single-statement removals (`shrink_sleepy`).
//! The takeover scenarios (A writes r, A's lock times out, B writes r, A ends by commit | rollback | timeout
//! cleanup while B is open, C tries to write r, B rolls back) run first as directed scripts and, with random
//! statements around that skeleton, as the stream `takeover`.
//! Statements that fail PART-WAY through a row (`CapModel.lean`, Props6): the steps inside a row of tx_insert / tx_update /
//! tx_delete each return with `?`; the one that fails in an in-memory engine is `btree_index_add` at
//! `RelationalConfig::max_btree_entries`, after the row's hash-index moves and the removal of its old b-tree entry.  The
//! streams `cap_directed` (run first) and `cap` run on engines with a cap of a few keys (the model is told the same cap),
//! so that such refusals actually occur, and follow them by rollback and the full index sweep (`exec_cap`: oracles and
//! the observations of the unchanged code are described there).
//! Time: the engine reads the wall clock (no hook); lock timeouts exist in whole seconds only.  Timeout
//! scripts run on an engine with `lock_timeout_secs = 1` (and `transaction_timeout_secs = 1` for the tx sweep),
//! `tick` = a real sleep of 1100 ms, everything else must take < 400 ms or the script is discarded.
use nverif::*;
use relational_engine::{
    Column, ColumnType, Condition, RelationalConfig, RelationalEngine, RelationalError, Schema, Value,
};
use serde_json::{json, Value as J};
use std::collections::{BTreeMap, BTreeSet, HashMap};
use std::time::{Duration, Instant};

const NCOLS: usize = 2;
/// NULL in the harness's i64 images / scripts (`Value::Null` on the engine side, `N` on the wire); never a pool value
const NULLV: i64 = i64::MIN + 1;
/// in the value list of an insert: the column is left out of the map (the engine stores NULL); `N` for the model
const OMITV: i64 = i64::MIN + 2;

fn vtok(x: i64) -> String {
    if x == NULLV || x == OMITV { "N".into() } else { x.to_string() }
}
fn vreal(x: i64) -> Value {
    if x == NULLV || x == OMITV { Value::Null } else { Value::Int(x) }
}
fn vnorm(x: i64) -> i64 {
    if x == OMITV { NULLV } else { x }
}

#[derive(Clone, Debug, PartialEq)]
enum Cond {
    All,
    Id(u64),
    Eq(usize, i64),
    Ne(usize, i64),
    Lt(usize, i64),
    Le(usize, i64),
    Gt(usize, i64),
    Ge(usize, i64),
    And(Box<Cond>, Box<Cond>),
    Or(Box<Cond>, Box<Cond>),
}

impl Cond {
    fn and(a: Cond, b: Cond) -> Cond {
        Cond::And(Box::new(a), Box::new(b))
    }
    fn or(a: Cond, b: Cond) -> Cond {
        Cond::Or(Box::new(a), Box::new(b))
    }
    fn tok(&self) -> String {
        match self {
            Cond::All => "T".into(),
            Cond::Id(i) => format!("I:{i}"),
            Cond::Eq(c, v) => format!("E:{c}:{}", vtok(*v)),
            Cond::Ne(c, v) => format!("N:{c}:{}", vtok(*v)),
            // prefix notation, `/`-separated (no parentheses needed)
            Cond::And(a, b) => format!("A/{}/{}", a.tok(), b.tok()),
            Cond::Or(a, b) => format!("O/{}/{}", a.tok(), b.tok()),
            Cond::Lt(c, v) => format!("L:{c}:{}", vtok(*v)),
            Cond::Le(c, v) => format!("LE:{c}:{}", vtok(*v)),
            Cond::Gt(c, v) => format!("G:{c}:{}", vtok(*v)),
            Cond::Ge(c, v) => format!("GE:{c}:{}", vtok(*v)),
        }
    }
    fn real(&self) -> Condition {
        let col = |c: &usize| format!("c{c}");
        match self {
            Cond::All => Condition::True,
            Cond::Id(i) => Condition::Eq("_id".into(), Value::Int(*i as i64)),
            Cond::Eq(c, v) => Condition::Eq(col(c), vreal(*v)),
            Cond::Ne(c, v) => Condition::Ne(col(c), vreal(*v)),
            Cond::And(a, b) => a.real().and(b.real()),
            Cond::Or(a, b) => a.real().or(b.real()),
            Cond::Lt(c, v) => Condition::Lt(col(c), vreal(*v)),
            Cond::Le(c, v) => Condition::Le(col(c), vreal(*v)),
            Cond::Gt(c, v) => Condition::Gt(col(c), vreal(*v)),
            Cond::Ge(c, v) => Condition::Ge(col(c), vreal(*v)),
        }
    }
    /// reference evaluation (harness side) on a row of the full-scan image
    fn holds(&self, id: u64, vals: &[i64]) -> bool {
        let g = |c: &usize| vals.get(*c).copied();
        match self {
            Cond::All => true,
            Cond::Id(i) => id == *i,
            Cond::Eq(c, v) => g(c).is_some_and(|x| x == *v),
            Cond::Ne(c, v) => g(c).is_none_or(|x| x != *v),
            Cond::And(a, b) => a.holds(id, vals) && b.holds(id, vals),
            Cond::Or(a, b) => a.holds(id, vals) || b.holds(id, vals),
            // an ordering comparison with NULL on either side is false
            Cond::Lt(c, v) => g(c).is_some_and(|x| x != NULLV && *v != NULLV && x < *v),
            Cond::Le(c, v) => g(c).is_some_and(|x| x != NULLV && *v != NULLV && x <= *v),
            Cond::Gt(c, v) => g(c).is_some_and(|x| x != NULLV && *v != NULLV && x > *v),
            Cond::Ge(c, v) => g(c).is_some_and(|x| x != NULLV && *v != NULLV && x >= *v),
        }
    }
}

impl Cond {
    /// the index `try_index_lookup` uses for this condition: (column, is_btree) — `And` takes the index of its left
    /// side when that side is served, otherwise the one of its right side; `Or` / `Ne` / `_id` / `True` are scanned
    fn served_by(&self, hash: &[usize], btree: &[usize]) -> Option<(usize, bool)> {
        match self {
            Cond::Eq(c, _) if hash.contains(c) => Some((*c, false)),
            Cond::Lt(c, _) | Cond::Le(c, _) | Cond::Gt(c, _) | Cond::Ge(c, _) if btree.contains(c) => Some((*c, true)),
            Cond::And(a, b) => a.served_by(hash, btree).or_else(|| b.served_by(hash, btree)),
            _ => None,
        }
    }
}

#[derive(Clone, Debug, PartialEq)]
enum Op {
    CreateTable,
    /// a table whose listed columns are `.nullable()`
    CreateTableN(Vec<usize>),
    Begin(usize),
    Commit(usize),
    Rollback(usize),
    TxInsert(usize, usize, Vec<i64>),
    TxUpdate(usize, usize, Cond, Vec<(usize, i64)>),
    TxDelete(usize, usize, Cond),
    TxSelect(usize, usize, Cond),
    Insert(usize, Vec<i64>),
    Update(usize, Cond, Vec<(usize, i64)>),
    Delete(usize, Cond),
    /// `batch_insert`: rows appended outside any transaction (no lock, no transaction id)
    BatchInsert(usize, Vec<Vec<i64>>),
    /// `drop_table` / `create_table` under the SAME name again (`DdlModel.lean`): refused with a lock conflict while an
    /// open transaction has uncommitted changes in the table (6f865e8a)
    DropTable(usize),
    RecreateTable(usize),
    CreateIndex(usize, usize),
    CreateBtree(usize, usize),
    DropIndex(usize, usize),
    DropBtree(usize, usize),
    Tick(u64),
    CleanupLocks,
    CleanupTxs,
    Sweep,
}

/// value list of an insert: one value per column in schema order; a list shorter than the schema leaves the
/// remaining columns out of the map, which is NULL (`N`) for the model
fn vals_tok(v: &[i64]) -> String {
    let mut t: Vec<String> = v.iter().map(|x| vtok(*x)).collect();
    while t.len() < NCOLS {
        t.push("N".into());
    }
    t.join(",")
}
fn upd_tok(u: &[(usize, i64)]) -> String {
    if u.is_empty() {
        "-".into()
    } else {
        u.iter().map(|(c, v)| format!("{c}={}", vtok(*v))).collect::<Vec<_>>().join(",")
    }
}

impl Op {
    /// text with harness handles (`h<k>`), used for reports / replays
    fn show(&self) -> String {
        self.line(&|h| format!("h{h}"))
    }
    fn line(&self, tx: &dyn Fn(usize) -> String) -> String {
        match self {
            Op::CreateTable => format!("create_table {NCOLS}"),
            Op::CreateTableN(nl) => format!("create_table {NCOLS} {}", World::nats(nl)),
            Op::Begin(_) => "begin".into(),
            Op::Commit(h) => format!("commit {}", tx(*h)),
            Op::Rollback(h) => format!("rollback {}", tx(*h)),
            Op::TxInsert(h, t, v) => format!("tx_insert {} {t} {}", tx(*h), vals_tok(v)),
            Op::TxUpdate(h, t, c, u) => format!("tx_update {} {t} {} {}", tx(*h), c.tok(), upd_tok(u)),
            Op::TxDelete(h, t, c) => format!("tx_delete {} {t} {}", tx(*h), c.tok()),
            Op::TxSelect(h, t, c) => format!("tx_select {} {t} {}", tx(*h), c.tok()),
            Op::Insert(t, v) => format!("insert {t} {}", vals_tok(v)),
            Op::Update(t, c, u) => format!("update {t} {} {}", c.tok(), upd_tok(u)),
            Op::Delete(t, c) => format!("delete {t} {}", c.tok()),
            Op::BatchInsert(t, rows) => format!("batch_insert {t} {}",
                if rows.is_empty() { "-".to_string() } else { rows.iter().map(|v| vals_tok(v)).collect::<Vec<_>>().join(";") }),
            Op::DropTable(t) => format!("drop_table {t}"),
            Op::RecreateTable(t) => format!("recreate_table {t} {NCOLS}"),
            Op::CreateIndex(t, c) => format!("create_index {t} {c}"),
            Op::CreateBtree(t, c) => format!("create_btree {t} {c}"),
            Op::DropIndex(t, c) => format!("drop_index {t} {c}"),
            Op::DropBtree(t, c) => format!("drop_btree {t} {c}"),
            Op::Tick(ms) => format!("tick {ms}"),
            Op::CleanupLocks => "cleanup_locks".into(),
            Op::CleanupTxs => "cleanup_txs".into(),
            Op::Sweep => "sweep".into(),
        }
    }
    fn site(&self) -> &'static str {
        match self {
            Op::CreateTable | Op::CreateTableN(_) => "create_table",
            Op::Begin(_) => "begin_transaction",
            Op::Commit(_) => "commit",
            Op::Rollback(_) => "rollback",
            Op::TxInsert(..) => "tx_insert",
            Op::TxUpdate(..) => "tx_update",
            Op::TxDelete(..) => "tx_delete",
            Op::TxSelect(..) => "tx_select",
            Op::Insert(..) => "insert",
            Op::Update(..) => "update",
            Op::Delete(..) => "delete_rows",
            Op::BatchInsert(..) => "batch_insert",
            Op::DropTable(_) => "drop_table",
            Op::RecreateTable(_) => "create_table",
            Op::CreateIndex(..) => "create_index",
            Op::CreateBtree(..) => "create_btree_index",
            Op::DropIndex(..) => "drop_index",
            Op::DropBtree(..) => "drop_btree_index",
            Op::Tick(_) => "lock_timeout",
            Op::CleanupLocks => "cleanup_expired_locks",
            Op::CleanupTxs => "cleanup_expired",
            Op::Sweep => "select",
        }
    }
}

#[derive(Clone, Copy, Debug, PartialEq)]
struct Cfg {
    lock_secs: u64,
    tx_secs: u64,
    /// rows hold values of `pool(cfg)`: negative numbers and both ends of i64 instead of 0..=5
    wide: bool,
    /// the script has nullable columns: NULL is a value of the pool (last entry), swept like every other value
    nulls: bool,
}

fn err_class(e: &RelationalError) -> String {
    match e {
        RelationalError::TransactionNotFound(_) => "tx_not_found".into(),
        RelationalError::TransactionInactive(_) => "tx_inactive".into(),
        RelationalError::TableNotFound(_) => "table_not_found".into(),
        RelationalError::ColumnNotFound(_) => "column_not_found".into(),
        RelationalError::LockConflict { .. } => "lock_conflict".into(),
        RelationalError::IndexAlreadyExists { .. } => "index_exists".into(),
        RelationalError::IndexNotFound { .. } => "index_not_found".into(),
        RelationalError::RollbackFailed { .. } => "rollback_failed".into(),
        RelationalError::TableAlreadyExists(_) => "table_exists".into(),
        RelationalError::NullNotAllowed(_) | RelationalError::TypeMismatch { .. } => "bad_input".into(),
        // `btree_index_add` at `max_btree_entries` (the only producer reachable from the statements driven here)
        RelationalError::ResultTooLarge { .. } => "too_large".into(),
        other => {
            let d = format!("{other:?}");
            format!("other:{}", d.split(|c: char| !c.is_alphanumeric()).next().unwrap_or("?"))
        },
    }
}

type Key = (usize, u64);
type Image = BTreeMap<u64, Vec<i64>>;

#[derive(Clone, Copy, Debug, PartialEq)]
enum HState {
    Active,
    Committed,
    RolledBack,
    Expired,
}

#[derive(Clone, Copy, Debug, PartialEq)]
enum WKind {
    InsertOnly,
    Locked,
}

struct Hd {
    real: u64,
    model: u64,
    state: HState,
    started: u64,
    first_touch: BTreeMap<Key, Option<Vec<i64>>>,
    wrote: BTreeMap<Key, WKind>,
    lock_time: BTreeMap<Key, u64>,
    interfered: BTreeSet<Key>,
    /// rows of `first_touch` whose full-scan image was changed by somebody else's statement / rollback afterwards
    clobbered: BTreeSet<Key>,
    /// step of the transaction's first statement that matched / created a row of table `t` (= first undo entry on `t`)
    first_write_step: BTreeMap<usize, usize>,
    /// (row, column): a `tx_update` of this transaction assigned the column the value the row already held
    same_val: BTreeSet<(Key, usize)>,
    /// a lock sweep ran while this transaction (open) had at least one lock past the timeout and at least one lock
    /// within it (virtual ages): the rows whose locks were alive at that sweep
    swept_partly: BTreeSet<Key>,
}

#[derive(Default)]
struct Outcome {
    violations: Vec<(String, String, usize)>,
    disagreements: Vec<(String, J, String, String)>,
    hits: Vec<String>,
    compared: BTreeMap<String, u64>,
    /// high-frequency distribution counters (reported with `hit_n`)
    counts: BTreeMap<&'static str, u64>,
    nontrivial: bool,
    discarded: bool,
    steps_done: usize,
}

impl Outcome {
    fn viol(&mut self, class: String, what: String, step: usize) {
        if !self.violations.iter().any(|v| v.0 == class) {
            self.violations.push((class, what, step));
        }
    }
    fn hit(&mut self, s: &str) {
        self.hits.push(s.to_string());
    }
}

struct World {
    eng: RelationalEngine,
    ntables: usize,
    handles: BTreeMap<usize, Hd>,
    /// table images at the last quiescent point
    base: Vec<Image>,
    /// row writes since then, in statement order: (writer handle | None = non-transactional, key, new image)
    log: Vec<(Option<usize>, Key, Option<Vec<i64>>)>,
    /// why a row may legitimately/illegitimately differ: "hole" | "expiry" | "cleanup"
    taint: BTreeMap<Key, &'static str>,
    /// indexes (table, column, is_btree) whose first wrong answer has been reported; cleared when the index is re-created
    idx_reported: BTreeSet<(usize, usize, bool)>,
    /// step at which the index (table, column, is_btree) was created
    idx_created: BTreeMap<(usize, usize, bool), usize>,
    /// highest row id ever seen alive, per table
    hi: Vec<u64>,
    /// tables dropped while an open transaction had uncommitted changes in them (regression of 6f865e8a): table ->
    /// (handles that had written it, step of the drop)
    dropped_under_tx: BTreeMap<usize, (BTreeSet<usize>, usize)>,
    /// (table, column) that had a b-tree index when the table was dropped -> step of the drop (6992261a: the in-memory
    /// tree must go with the table)
    btree_at_drop: BTreeMap<(usize, usize), usize>,
    /// step of the statement being executed (set by `exec_script`)
    step_now: usize,
    /// nullable columns per table (as created)
    nullable: Vec<Vec<usize>>,
    vnow: u64,
    lock_ms: u64,
    tx_ms: u64,
    slept: Duration,
    /// `blocking_tx` of the lock-conflict error the last statement returned (real transaction id)
    last_blocker: Option<u64>,
    /// keys whose lock has been reported as held by a transaction that is not open
    dead_reported: BTreeSet<Key>,
    /// handles reported as holding a lock that is missing from their key list (reported where it is first seen)
    unlisted_reported: BTreeSet<usize>,
}

fn rows_tok(rows: &[(u64, Vec<i64>)]) -> String {
    if rows.is_empty() {
        "-".into()
    } else {
        rows.iter()
            .map(|(id, v)| format!("{id}:{}", v.iter().map(|x| vtok(*x)).collect::<Vec<_>>().join(".")))
            .collect::<Vec<_>>()
            .join(";")
    }
}

impl World {
    fn new(cfg: Cfg) -> World {
        World::new_capped(cfg, None)
    }
    /// `btree_cap`: an engine whose ordered indexes may hold that many keys altogether (`max_btree_entries`)
    fn new_capped(cfg: Cfg, btree_cap: Option<usize>) -> World {
        let mut rc = RelationalConfig::default()
            .with_lock_timeout_secs(cfg.lock_secs)
            .with_transaction_timeout_secs(cfg.tx_secs);
        if let Some(cap) = btree_cap {
            rc = rc.with_max_btree_entries(cap);
        }
        let eng = RelationalEngine::with_config(rc);
        World {
            eng,
            ntables: 0,
            handles: BTreeMap::new(),
            base: vec![],
            log: vec![],
            taint: BTreeMap::new(),
            idx_reported: BTreeSet::new(),
            idx_created: BTreeMap::new(),
            hi: vec![],
            dropped_under_tx: BTreeMap::new(),
            btree_at_drop: BTreeMap::new(),
            step_now: 0,
            nullable: vec![],
            vnow: 0,
            lock_ms: cfg.lock_secs * 1000,
            tx_ms: cfg.tx_secs * 1000,
            slept: Duration::ZERO,
            last_blocker: None,
            dead_reported: BTreeSet::new(),
            unlisted_reported: BTreeSet::new(),
        }
    }
    fn tname(t: usize) -> String {
        format!("t{t}")
    }
    fn real_tx(&self, h: usize) -> u64 {
        self.handles.get(&h).map_or(u64::MAX - 1000 - h as u64, |x| x.real)
    }
    fn model_tx(&self, h: usize) -> String {
        self.handles.get(&h).map_or(format!("{}", 900_000 + h), |x| x.model.to_string())
    }
    fn conv_rows(rows: &[relational_engine::Row]) -> Vec<(u64, Vec<i64>)> {
        rows.iter()
            .map(|r| {
                (
                    r.id,
                    (0..NCOLS)
                        .map(|c| match r.get(&format!("c{c}")) {
                            Some(Value::Int(i)) => *i,
                            _ => NULLV,
                        })
                        .collect(),
                )
            })
            .collect()
    }
    fn select_rows(&self, t: usize, c: &Cond) -> Result<Vec<(u64, Vec<i64>)>, String> {
        match self.eng.select(&Self::tname(t), c.real()) {
            Ok(rows) => Ok(Self::conv_rows(&rows)),
            Err(e) => Err(err_class(&e)),
        }
    }
    fn image(&self, t: usize) -> Image {
        self.select_rows(t, &Cond::All).unwrap_or_default().into_iter().collect()
    }
    fn images(&self) -> Vec<Image> {
        (0..self.ntables).map(|t| self.image(t)).collect()
    }
    fn cols(v: Vec<String>) -> Vec<usize> {
        let mut c: Vec<usize> = v.iter().filter_map(|s| s.trim_start_matches('c').parse().ok()).collect();
        c.sort();
        c.dedup();
        c
    }
    fn hash_cols(&self, t: usize) -> Vec<usize> {
        Self::cols(self.eng.get_indexed_columns(&Self::tname(t)))
    }
    fn btree_cols(&self, t: usize) -> Vec<usize> {
        Self::cols(self.eng.get_btree_indexed_columns(&Self::tname(t)))
    }
    fn nats(v: &[usize]) -> String {
        if v.is_empty() {
            "-".into()
        } else {
            v.iter().map(|x| x.to_string()).collect::<Vec<_>>().join(",")
        }
    }
    /// `row_lock_holder` of every row id that can carry a lock (real transaction ids): ids are never reused, so
    /// every id up to the highest one ever seen alive (+4) is asked — also rows that are dead by now
    fn holders(&mut self, imgs: &[Image]) -> BTreeMap<Key, u64> {
        let mut m = BTreeMap::new();
        for t in 0..self.ntables.min(imgs.len()) {
            if self.hi.len() <= t {
                self.hi.resize(t + 1, 0);
            }
            self.hi[t] = self.hi[t].max(imgs[t].keys().max().copied().unwrap_or(0));
            // id 0 is no row (engine ids start at 1): a lock filed there is a lock on the wrong key
            for id in 0..=(self.hi[t] + 4) {
                if let Some(r) = self.eng.tx_manager().row_lock_holder(&Self::tname(t), id) {
                    m.insert((t, id), r);
                }
            }
        }
        m
    }
    fn active_handles(&self) -> Vec<usize> {
        self.handles.iter().filter(|(_, h)| h.state == HState::Active).map(|(k, _)| *k).collect()
    }

    /// execute one statement on the real engine; canonical result
    fn exec_real(&mut self, op: &Op) -> String {
        let blocker: std::cell::Cell<Option<u64>> = std::cell::Cell::new(None);
        let res = |r: Result<usize, RelationalError>| match r {
            Ok(n) => format!("ok {n}"),
            Err(e) => {
                if let RelationalError::LockConflict { blocking_tx, .. } = &e {
                    blocker.set(Some(*blocking_tx));
                }
                format!("err {}", err_class(&e))
            },
        };
        let unit = |r: Result<(), RelationalError>| match r {
            Ok(()) => "ok".to_string(),
            Err(e) => format!("err {}", err_class(&e)),
        };
        // OMITV: the column is left out of the map; NULLV: an explicit `Value::Null`
        let row = |v: &Vec<i64>| -> HashMap<String, Value> {
            v.iter().enumerate().filter(|(_, x)| **x != OMITV).map(|(c, x)| (format!("c{c}"), vreal(*x))).collect()
        };
        let upd = |u: &Vec<(usize, i64)>| -> HashMap<String, Value> {
            u.iter().map(|(c, x)| (format!("c{c}"), vreal(*x))).collect()
        };
        let r = match op {
            Op::CreateTable | Op::CreateTableN(_) => {
                let nl: Vec<usize> = if let Op::CreateTableN(nl) = op { nl.clone() } else { vec![] };
                let schema = Schema::new((0..NCOLS).map(|c| {
                    let col = Column::new(format!("c{c}"), ColumnType::Int);
                    if nl.contains(&c) { col.nullable() } else { col }
                }).collect());
                let t = self.ntables;
                match self.eng.create_table(&Self::tname(t), schema) {
                    Ok(()) => {
                        self.ntables += 1;
                        self.nullable.push(nl.clone());
                        self.base.push(Image::new());
                        format!("ok {t}")
                    },
                    Err(e) => format!("err {}", err_class(&e)),
                }
            },
            Op::Begin(_) => {
                let id = self.eng.begin_transaction();
                format!("begin {id}")
            },
            Op::Commit(h) => unit(self.eng.commit(self.real_tx(*h))),
            Op::Rollback(h) => unit(self.eng.rollback(self.real_tx(*h))),
            Op::TxInsert(h, t, v) => match self.eng.tx_insert(self.real_tx(*h), &Self::tname(*t), row(v)) {
                Ok(id) => format!("ok {id}"),
                Err(e) => format!("err {}", err_class(&e)),
            },
            Op::TxUpdate(h, t, c, u) => res(self.eng.tx_update(self.real_tx(*h), &Self::tname(*t), c.real(), upd(u))),
            Op::TxDelete(h, t, c) => res(self.eng.tx_delete(self.real_tx(*h), &Self::tname(*t), c.real())),
            Op::TxSelect(h, t, c) => match self.eng.tx_select(self.real_tx(*h), &Self::tname(*t), c.real()) {
                Ok(rows) => format!("rows {}", rows_tok(&Self::conv_rows(&rows))),
                Err(e) => format!("err {}", err_class(&e)),
            },
            Op::Insert(t, v) => match self.eng.insert(&Self::tname(*t), row(v)) {
                Ok(id) => format!("ok {id}"),
                Err(e) => format!("err {}", err_class(&e)),
            },
            Op::Update(t, c, u) => res(self.eng.update(&Self::tname(*t), c.real(), upd(u))),
            Op::Delete(t, c) => res(self.eng.delete_rows(&Self::tname(*t), c.real())),
            Op::BatchInsert(t, rows) => match self.eng.batch_insert(&Self::tname(*t), rows.iter().map(&row).collect()) {
                // the ids must be consecutive: reported as count + first id
                Ok(ids) => {
                    let consecutive = ids.windows(2).all(|w| w[1] == w[0] + 1);
                    format!("ok {} {}{}", ids.len(), ids.first().copied().unwrap_or(0), if consecutive { "" } else { " NOT-CONSECUTIVE" })
                },
                Err(e) => format!("err {}", err_class(&e)),
            },
            Op::DropTable(t) => {
                let btree_before = self.btree_cols(*t);
                let r = unit(self.eng.drop_table(&Self::tname(*t)));
                if r == "ok" {
                    // the committed rows of the table are gone with it
                    if let Some(b) = self.base.get_mut(*t) {
                        b.clear();
                    }
                    self.log.retain(|e| e.1 .0 != *t);
                    self.taint.retain(|k, _| k.0 != *t);
                    let writers: BTreeSet<usize> = self.handles.iter()
                        .filter(|(_, h)| h.state == HState::Active && h.first_touch.keys().any(|k| k.0 == *t)).map(|(g, _)| *g).collect();
                    if !writers.is_empty() {
                        self.dropped_under_tx.insert(*t, (writers, self.step_now));
                    }
                    for c in btree_before {
                        self.btree_at_drop.insert((*t, c), self.step_now);
                    }
                    // the indexes went with the table: one created on a later table of the name is judged anew
                    self.idx_created.retain(|k, _| k.0 != *t);
                    self.idx_reported.retain(|k| k.0 != *t);
                }
                r
            },
            Op::RecreateTable(t) => {
                let schema = Schema::new((0..NCOLS).map(|c| Column::new(format!("c{c}"), ColumnType::Int)).collect());
                let r = unit(self.eng.create_table(&Self::tname(*t), schema));
                if r == "ok" {
                    if let Some(nl) = self.nullable.get_mut(*t) {
                        nl.clear();
                    }
                }
                r
            },
            Op::CreateIndex(t, c) => unit(self.eng.create_index(&Self::tname(*t), &format!("c{c}"))),
            Op::CreateBtree(t, c) => unit(self.eng.create_btree_index(&Self::tname(*t), &format!("c{c}"))),
            Op::DropIndex(t, c) => unit(self.eng.drop_index(&Self::tname(*t), &format!("c{c}"))),
            Op::DropBtree(t, c) => unit(self.eng.drop_btree_index(&Self::tname(*t), &format!("c{c}"))),
            Op::Tick(ms) => {
                let d = Duration::from_millis(*ms);
                std::thread::sleep(d);
                self.slept += d;
                self.vnow += ms;
                "ok".into()
            },
            Op::CleanupLocks => format!("ok {}", self.eng.tx_manager().cleanup_expired_locks()),
            Op::CleanupTxs => format!("ok {}", self.eng.tx_manager().cleanup_expired()),
            Op::Sweep => "ok".into(),
        };
        self.last_blocker = blocker.get();
        r
    }
}

/// the values a script's rows can hold: 0..=5, or — `Cfg::wide` — negative numbers and both ends of i64 (the b-tree
/// keys are an offset hex encoding of the number; the hash buckets are keyed by its decimal text)
const P6: &[i64] = &[0, 1, 2, 3, 4, 5];

fn pool(cfg: Cfg) -> &'static [i64] {
    match (cfg.wide, cfg.nulls) {
        (true, false) => &[i64::MIN, -3, -1, 0, 2, i64::MAX],
        (true, true) => &[i64::MIN, -3, -1, 0, 2, i64::MAX, NULLV],
        (false, false) => P6,
        (false, true) => &[0, 1, 2, 3, 4, 5, NULLV],
    }
}

/// every query an index can serve over the value pool: Eq per hash-indexed column, ranges per b-tree-indexed
/// column, and `And` conditions whose left or right side is served by an index (the other side is only re-checked)
fn sweep_conds(hash: &[usize], btree: &[usize], pool: &[i64]) -> Vec<Cond> {
    let mut v = vec![];
    for c in hash {
        for x in pool {
            v.push(Cond::Eq(*c, *x));
        }
    }
    for c in btree {
        for (n, x) in pool.iter().enumerate() {
            v.push(Cond::Le(*c, *x));
            v.push(Cond::Ge(*c, *x));
            if n % 2 == 1 {
                v.push(Cond::Lt(*c, *x));
                v.push(Cond::Gt(*c, *x));
            }
        }
    }
    let (lo, mid, hi) = (pool[1], pool[2], pool[4]);
    for c in hash {
        let o = (c + 1) % NCOLS;
        v.push(Cond::and(Cond::Eq(*c, mid), Cond::Ne(o, mid)));
        v.push(Cond::and(Cond::Ne(o, hi), Cond::Eq(*c, hi)));
        v.push(Cond::and(Cond::or(Cond::Eq(o, lo), Cond::Ne(o, lo)), Cond::Eq(*c, lo)));
    }
    for c in btree {
        let o = (c + 1) % NCOLS;
        v.push(Cond::and(Cond::Ge(*c, lo), Cond::Le(*c, hi)));
        v.push(Cond::and(Cond::Ne(o, mid), Cond::Lt(*c, hi)));
        v.push(Cond::and(Cond::Gt(*c, lo), Cond::or(Cond::Eq(o, mid), Cond::Ge(o, hi))));
    }
    if let (Some(c), Some(b)) = (hash.first(), btree.first()) {
        v.push(Cond::and(Cond::Eq(*c, mid), Cond::Ge(*b, lo)));
        v.push(Cond::and(Cond::Ge(*b, lo), Cond::Eq(*c, mid)));
    }
    // `Or` over indexed columns must NOT be answered from one side's index
    if let Some(c) = hash.first() {
        v.push(Cond::or(Cond::Eq(*c, lo), Cond::Eq(*c, hi)));
    }
    if let Some(b) = btree.first() {
        v.push(Cond::or(Cond::Lt(*b, mid), Cond::Gt(*b, hi)));
    }
    v
}

/// Run a script on a fresh real engine (and on the model when given).
fn exec_script(ops: &[Op], cfg: Cfg, mut model: Option<&mut Model>) -> Outcome {
    let mut out = Outcome::default();
    let mut w = World::new(cfg);
    let started = Instant::now();
    if let Some(m) = model.as_deref_mut() {
        let a = m.ask(&format!("init {} {}", w.lock_ms, w.tx_ms));
        if a != "ok" {
            out.disagreements.push(("stmt".into(), json!("init"), "ok".into(), a));
            return out;
        }
    }
    let script_json = || json!({"cfg": {"lock_timeout_secs": cfg.lock_secs, "transaction_timeout_secs": cfg.tx_secs, "wide_values": cfg.wide, "nullable_columns": cfg.nulls},
                                 "script": ops.iter().map(|o| o.show()).collect::<Vec<_>>()});
    let cmp = |out: &mut Outcome, stream: &str, step: usize, what: &str, imp: &str, mdl: &str| -> bool {
        *out.compared.entry(stream.to_string()).or_insert(0) += 1;
        if imp != mdl {
            let mut j = script_json();
            j["at_step"] = json!(step);
            j["query"] = json!(what);
            out.disagreements.push((stream.to_string(), j, imp.to_string(), mdl.to_string()));
            false
        } else {
            true
        }
    };
    let mut last_site = "create_table";
    // Once the model has answered differently (recorded as a disagreement) it is no longer asked: the REAL run goes
    // on to the end of the script and every oracle keeps being evaluated on the real engine's own answers, so a
    // regression that first shows as a model/implementation difference still gets its failing input.
    let mut diverged = false;
    macro_rules! mdl {
        () => {
            if diverged { None } else { model.as_deref_mut() }
        };
    }
    for (step, op) in ops.iter().enumerate() {
        out.steps_done = step + 1;
        w.step_now = step;
        let before = w.images();
        let holders_before = if matches!(op, Op::Tick(_) | Op::Sweep) { BTreeMap::new() } else { w.holders(&before) };
        let r_real = w.exec_real(op);
        let site = op.site();
        if !matches!(op, Op::Sweep) {
            last_site = site;
        }
        let after = w.images();
        // ---- model statement
        let mut r_cmp = r_real.clone();
        if let Some(m) = mdl!() {
            if !matches!(op, Op::Sweep) {
                let line = op.line(&|h| w.model_tx(h));
                let a = m.ask(&line);
                if let Op::Begin(h) = op {
                    // alpha-rename: remember the model's id for this handle
                    let mid = a.strip_prefix("ok ").and_then(|x| x.parse::<u64>().ok());
                    let rid = r_real.strip_prefix("begin ").and_then(|x| x.parse::<u64>().ok());
                    match (mid, rid) {
                        (Some(mid), Some(rid)) => {
                            w.handles.insert(*h, new_hd(rid, mid, w.vnow));
                            r_cmp = a.clone();
                        },
                        _ => {
                            cmp(&mut out, "stmt", step, &line, &r_real, &a);
                            diverged = true;
                            if let Some(rid) = rid {
                                w.handles.insert(*h, new_hd(rid, 0, w.vnow));
                            }
                        },
                    }
                }
                if !diverged && !cmp(&mut out, "stmt", step, &line, &r_cmp, &a) {
                    diverged = true;
                }
            }
        } else if let Op::Begin(h) = op {
            if let Some(rid) = r_real.strip_prefix("begin ").and_then(|x| x.parse::<u64>().ok()) {
                w.handles.insert(*h, new_hd(rid, 0, w.vnow));
            }
        }
        let ok = r_real.starts_with("ok") || r_real.starts_with("begin") || r_real.starts_with("rows");
        if ok {
            match op {
                Op::TxInsert(_, _, v) | Op::Insert(_, v) => {
                    if v.contains(&OMITV) {
                        out.hit("null_stored:omitted");
                    }
                    if v.contains(&NULLV) {
                        out.hit("null_stored:explicit");
                    }
                },
                Op::TxUpdate(_, _, c, u) | Op::Update(_, c, u) => {
                    if r_real != "ok 0" && u.iter().any(|p| p.1 == NULLV) {
                        out.hit("null_assigned_by_update");
                    }
                    if c.tok().contains(":N") {
                        out.hit("null_compared_in_condition");
                    }
                },
                Op::TxDelete(_, _, c) | Op::Delete(_, c) | Op::TxSelect(_, _, c) => {
                    if c.tok().contains(":N") {
                        out.hit("null_compared_in_condition");
                    }
                },
                _ => {},
            }
        }
        out.hit(&format!("op:{site}:{}", if ok { "ok".to_string() } else { r_real.replace("err ", "") }));
        if ok {
            if let Op::CreateIndex(t, c) | Op::CreateBtree(t, c) = op {
                // a freshly built index: judged anew
                let key = (*t, *c, matches!(op, Op::CreateBtree(..)));
                w.idx_created.insert(key, step);
                w.idx_reported.remove(&key);
            }
        }

        // ---- drop_table next to open transactions (6f865e8a; `drop_table_refused_while_open_transaction_wrote_table`,
        // `accepted_drop_table_leaves_no_undo_entry_behind`): the drop is accepted iff no open transaction has
        // uncommitted changes in the table — decided from the harness's own record of who wrote what
        if let Op::DropTable(t) = op {
            let writers: Vec<usize> = w.handles.iter()
                .filter(|(_, h)| h.state == HState::Active && h.first_touch.keys().any(|k| k.0 == *t)).map(|(g, _)| *g).collect();
            if ok && !writers.is_empty() {
                out.viol("relational_engine.drop_table/accepted_under_open_transaction".into(),
                         format!("{} accepted although open transaction(s) {:?} have uncommitted changes in the table (rows {:?}): their undo entries \
                                  and row locks still name it", op.show(), writers.iter().map(|g| format!("h{g}")).collect::<Vec<_>>(),
                                 writers.iter().flat_map(|g| w.handles[g].first_touch.keys().filter(|k| k.0 == *t).map(|k| k.1)).collect::<Vec<_>>()), step);
            } else if r_real == "err lock_conflict" {
                if writers.is_empty() {
                    out.viol("relational_engine.drop_table/refused_without_open_writer".into(),
                             format!("{} refused with a lock conflict although no open transaction has uncommitted changes in the table", op.show()), step);
                } else {
                    out.hit("drop_table_refused:open_transaction_wrote_table");
                }
            } else if ok {
                out.hit(if w.active_handles().is_empty() { "drop_table_accepted:no_transaction_open" } else { "drop_table_accepted:open_transactions_elsewhere" });
            }
        }
        if let (Op::RecreateTable(_), true) = (op, ok) {
            out.hit("table_recreated_under_same_name");
        }

        // ---- diff of the real full-scan images
        let mut diff: Vec<(Key, Option<Vec<i64>>, Option<Vec<i64>>)> = vec![];
        for t in 0..before.len().min(after.len()) {
            let keys: BTreeSet<u64> = before[t].keys().chain(after[t].keys()).copied().collect();
            for k in keys {
                let (b, a) = (before[t].get(&k), after[t].get(&k));
                if b != a {
                    diff.push(((t, k), b.cloned(), a.cloned()));
                }
            }
        }
        if !diff.is_empty() {
            out.nontrivial = true;
            // whose statement this is; every OTHER open transaction that wrote one of the changed rows no longer
            // finds it as it left it
            let actor: Option<usize> = match op {
                Op::TxInsert(h, ..) | Op::TxUpdate(h, ..) | Op::TxDelete(h, ..) | Op::Commit(h) | Op::Rollback(h) => Some(*h),
                _ => None,
            };
            for (k, _, _) in &diff {
                for (g, hd) in w.handles.iter_mut() {
                    if Some(*g) != actor && hd.state == HState::Active && hd.first_touch.contains_key(k) {
                        hd.clobbered.insert(*k);
                    }
                }
            }
        }

        // ---- oracles on the implementation's own behaviour
        // NOT NULL: whatever ran (a statement, a rollback), no live row holds NULL in a column that refuses it
        for (k, _, post) in &diff {
            if let Some(v) = post {
                let nl = w.nullable.get(k.0).cloned().unwrap_or_default();
                if let Some(c) = (0..NCOLS).find(|c| v.get(*c) == Some(&NULLV) && !nl.contains(c)) {
                    out.viol(format!("relational_engine.{site}/null_in_non_nullable_column"),
                             format!("{}: row {k:?} is now {} although column c{c} is not nullable", op.show(), vals_tok(v)), step);
                }
            }
        }
        let writer: Option<Option<usize>> = match op {
            Op::TxInsert(h, ..) | Op::TxUpdate(h, ..) | Op::TxDelete(h, ..) => Some(Some(*h)),
            Op::Insert(..) | Op::Update(..) | Op::Delete(..) | Op::BatchInsert(..) => Some(None),
            _ => None,
        };
        if let Some(wr) = writer {
            if let Some(h) = wr {
                let usable = w.handles.get(&h).is_some_and(|x| x.state == HState::Active);
                if !usable && ok {
                    out.viol("relational_engine.tx/finished_tx_accepted".into(),
                             format!("{} accepted for a transaction that is not open", op.show()), step);
                }
            }
            if !ok && !diff.is_empty() {
                out.viol(format!("relational_engine.{site}/failed_statement_changed_rows"),
                         format!("{} returned {r_real} but changed {:?}", op.show(), diff), step);
            }
            if ok {
                // rows the statement locked (update/delete lock every matching row, insert locks the row it
                // creates — dcf916e8)
                let locked: Vec<Key> = match op {
                    Op::TxUpdate(_, t, c, _) | Op::TxDelete(_, t, c) | Op::Update(t, c, _) | Op::Delete(t, c) =>
                        before.get(*t).map(|img| img.iter().filter(|(id, v)| c.holds(**id, v)).map(|(id, _)| (*t, *id)).collect()).unwrap_or_default(),
                    Op::TxInsert(_, t, _) | Op::Insert(t, _) =>
                        r_real.strip_prefix("ok ").and_then(|x| x.parse::<u64>().ok()).map(|id| vec![(*t, id)]).unwrap_or_default(),
                    _ => vec![],
                };
                // exclusion oracle
                let touched: BTreeSet<Key> = diff.iter().map(|d| d.0).chain(locked.iter().copied()).collect();
                let mut meddled: BTreeSet<Key> = BTreeSet::new();
                for k in &touched {
                    for (g, hd) in w.handles.iter_mut() {
                        if Some(*g) == wr || hd.state != HState::Active {
                            continue;
                        }
                        if let Some(kind) = hd.wrote.get(k) {
                            hd.interfered.insert(*k);
                            meddled.insert(*k);
                            match kind {
                                // unreachable since dcf916e8 (every written row is locked); kept so that a
                                // regression of the fix is reported under its original class
                                WKind::InsertOnly => {
                                    w.taint.insert(*k, "hole");
                                    out.viol(
                                        "relational_engine.tx_insert/uncommitted_insert_not_locked".into(),
                                        format!("{} succeeded on row {k:?} inserted by open transaction h{g}: the uncommitted row is not \
                                                 locked, so another transaction can modify or delete it", op.show()), step)
                                },
                                WKind::Locked => {
                                    let age = w.vnow - hd.lock_time.get(k).copied().unwrap_or(0);
                                    if age <= w.lock_ms {
                                        out.viol(format!("relational_engine.{site}/no_lock_conflict"),
                                                 format!("{} succeeded on row {k:?} modified by open transaction h{g} whose lock is {age} ms old", op.show()), step);
                                    } else {
                                        w.taint.entry(*k).or_insert("expiry");
                                        out.hit("write_after_lock_expiry");
                                    }
                                },
                            }
                        }
                    }
                }
                for (k, _, post) in &diff {
                    w.log.push((wr, *k, post.clone()));
                }
                if let Some(h) = wr {
                    // same-value assignments: the statement wrote a column back with the value the row already held
                    // (the engine still records an index change old == new for it when the column is indexed)
                    let mut same: Vec<(Key, usize)> = vec![];
                    if let Op::TxUpdate(_, t, _, u) = op {
                        let (hc, bc) = (w.hash_cols(*t), w.btree_cols(*t));
                        for k in &locked {
                            let Some(pre) = before.get(k.0).and_then(|img| img.get(&k.1)) else { continue };
                            for (c, v) in u {
                                if pre.get(*c) == Some(v) {
                                    same.push((*k, *c));
                                    if hc.contains(c) {
                                        out.hit("same_value_tx_update:hash_indexed_column");
                                    }
                                    if bc.contains(c) {
                                        out.hit("same_value_tx_update:btree_indexed_column");
                                    }
                                }
                            }
                        }
                    }
                    if let Some(hd) = w.handles.get_mut(&h) {
                        if !locked.is_empty() || !diff.is_empty() {
                            if let Op::TxInsert(_, t, _) | Op::TxUpdate(_, t, ..) | Op::TxDelete(_, t, _) = op {
                                hd.first_write_step.entry(*t).or_insert(step);
                            }
                        }
                        hd.same_val.extend(same);
                        for (k, pre, _) in &diff {
                            hd.first_touch.entry(*k).or_insert_with(|| pre.clone());
                        }
                        for k in &locked {
                            // a matched row counts as written even when the statement left its values unchanged
                            // (the engine records an undo entry and takes the lock for it)
                            let pre = before.get(k.0).and_then(|img| img.get(&k.1)).cloned();
                            hd.first_touch.entry(*k).or_insert(pre);
                            // modified_row_locked oracle: the writer holds the lock of every row it wrote
                            let held = w.eng.tx_manager().row_lock_holder(&World::tname(k.0), k.1) == Some(hd.real);
                            if matches!(op, Op::TxInsert(..)) && !held {
                                hd.wrote.entry(*k).or_insert(WKind::InsertOnly);
                                out.viol("relational_engine.tx_insert/uncommitted_insert_not_locked".into(),
                                         format!("{}: the inserted row {k:?} is not locked by its transaction", op.show()), step);
                                continue;
                            }
                            if !held {
                                out.viol(format!("relational_engine.{site}/modified_row_not_locked"),
                                         format!("{}: row {k:?} written by h{h} is not locked by it right after the statement", op.show()), step);
                            }
                            hd.wrote.insert(*k, WKind::Locked);
                            hd.lock_time.insert(*k, w.vnow);
                        }
                        // this transaction built on another open transaction's uncommitted / expired-lock row
                        hd.interfered.extend(meddled.iter().copied());
                    }
                }
            }
        }
        if let Op::TxSelect(h, t, c) = op {
            // the read side of the phase check: a finished / unknown transaction cannot read, an open one reads exactly
            // what `select` answers (no snapshot, no read lock), and reading changes nothing
            let usable = w.handles.get(h).is_some_and(|x| x.state == HState::Active);
            if !usable && ok {
                out.viol("relational_engine.tx/finished_tx_accepted".into(),
                         format!("{} answered for a transaction that is not open", op.show()), step);
            }
            if !diff.is_empty() {
                out.viol("relational_engine.tx_select/changed_rows".into(), format!("{} changed {:?}", op.show(), diff), step);
            }
            if usable && *t < w.ntables {
                out.hit("tx_select_by_open_tx");
                match w.select_rows(*t, c) {
                    Ok(rows) => {
                        let want = format!("rows {}", rows_tok(&rows));
                        if r_real != want {
                            out.viol("relational_engine.tx_select/differs_from_select".into(),
                                     format!("{} = [{r_real}], select of the same condition = [{want}]", op.show()), step);
                        }
                    },
                    // a table dropped meanwhile: both must fail the same way
                    Err(e) if r_real == format!("err {e}") => out.hit("tx_select_on_dropped_table"),
                    Err(e) => out.viol("relational_engine.tx_select/differs_from_select".into(),
                                       format!("{} = [{r_real}], select of the same condition fails with {e}", op.show()), step),
                }
            } else if !usable {
                out.hit("tx_select_by_finished_tx");
            }
        }
        let mut ended: Option<usize> = None;
        let mut ended_all: Vec<usize> = vec![];
        match op {
            Op::Commit(h) | Op::Rollback(h) => {
                let was_active = w.handles.get(h).is_some_and(|x| x.state == HState::Active);
                let is_commit = matches!(op, Op::Commit(_));
                if !was_active {
                    if ok {
                        out.viol("relational_engine.tx/finished_tx_accepted".into(),
                                 format!("{} accepted for a transaction that is not open", op.show()), step);
                    }
                    if !diff.is_empty() {
                        out.viol(format!("relational_engine.{site}/failed_statement_changed_rows"),
                                 format!("{} on a finished transaction changed {:?}", op.show(), diff), step);
                    }
                } else if is_commit {
                    if !ok {
                        out.viol("relational_engine.commit/open_tx_refused".into(), format!("{} -> {r_real}", op.show()), step);
                    }
                    if !diff.is_empty() {
                        out.viol("relational_engine.commit/changed_rows".into(),
                                 format!("commit changed rows {:?}", diff), step);
                    }
                    w.handles.get_mut(h).unwrap().state = HState::Committed;
                    ended = Some(*h);
                    ended_all.push(*h);
                } else {
                    if r_real == "err rollback_failed" {
                        out.hit("rollback_failed_returned");
                    }
                    // snapshot oracle
                    let hd = w.handles.get_mut(h).unwrap();
                    if !ok && hd.interfered.is_empty() {
                        out.viol("relational_engine.rollback/failed_without_interference".into(),
                                 format!("{} -> {r_real} although no row of the transaction was touched by anybody else", op.show()), step);
                    }
                    hd.state = HState::RolledBack;
                    for (k, pre) in &hd.first_touch {
                        if hd.interfered.contains(k) {
                            out.hit("rollback_of_interfered_row");
                            // the row was shared with another open transaction (lock expiry / takeover); if nobody
                            // else has changed it since this transaction's first write, the rollback must still
                            // put back exactly what this transaction found
                            if !hd.clobbered.contains(k) {
                                out.hit("rollback_of_taken_over_row_checked");
                                let now_v = after.get(k.0).and_then(|img| img.get(&k.1)).cloned();
                                if &now_v != pre {
                                    out.viol("relational_engine.rollback/row_not_restored".into(),
                                             format!("row {k:?} (shared with another transaction after a lock expiry, unchanged by anybody else \
                                                      since): before the transaction's first write {pre:?}, after rollback {now_v:?}"), step);
                                }
                            }
                            continue;
                        }
                        let now_v = after.get(k.0).and_then(|img| img.get(&k.1)).cloned();
                        if &now_v != pre {
                            out.viol("relational_engine.rollback/row_not_restored".into(),
                                     format!("row {k:?}: before the transaction's first write {pre:?}, after rollback {now_v:?}"), step);
                        }
                    }
                    for (k, b, a) in &diff {
                        if !hd.first_touch.contains_key(k) {
                            out.viol("relational_engine.rollback/untouched_row_changed".into(),
                                     format!("row {k:?} never written by the transaction changed {b:?} -> {a:?}"), step);
                        }
                    }
                    ended = Some(*h);
                    ended_all.push(*h);
                }
            },
            Op::CleanupTxs => {
                let expired: Vec<usize> = w.handles.iter()
                    .filter(|(_, hd)| hd.state == HState::Active && w.vnow - hd.started > w.tx_ms).map(|(k, _)| *k).collect();
                for h in expired {
                    w.handles.get_mut(&h).unwrap().state = HState::Expired;
                    let keys: Vec<Key> = w.log.iter().filter(|e| e.0 == Some(h)).map(|e| e.1).collect();
                    for k in keys {
                        w.taint.insert(k, "cleanup");
                    }
                    out.hit("tx_expired_by_cleanup");
                    ended = Some(h);
                    ended_all.push(h);
                }
            },
            Op::CleanupLocks => {
                // the shape the per-key removal of `cleanup_expired_locks` exists for: an OPEN transaction with at least
                // one lock past the timeout and at least one within it (virtual ages; a row re-locked later counts with
                // its latest lock).  The rows whose locks were alive are remembered until the transaction ends.
                let (vnow, lock_ms) = (w.vnow, w.lock_ms);
                for hd in w.handles.values_mut() {
                    if hd.state != HState::Active {
                        continue;
                    }
                    let dead = hd.lock_time.values().filter(|at| vnow - **at > lock_ms).count();
                    let alive: Vec<Key> = hd.lock_time.iter().filter(|(_, at)| vnow - **at <= lock_ms).map(|(k, _)| *k).collect();
                    if dead > 0 && !alive.is_empty() {
                        hd.swept_partly.extend(alive);
                        out.hit("lock_sweep:owner_with_expired_and_live_locks");
                    } else if dead > 0 {
                        out.hit("lock_sweep:owner_with_expired_locks_only");
                    } else if !alive.is_empty() {
                        out.hit("lock_sweep:owner_with_live_locks_only");
                    }
                }
            },
            Op::Tick(_) => {
                // expiry oracle: a lock older than the timeout no longer has a holder
                for (g, hd) in &w.handles {
                    if hd.state != HState::Active {
                        continue;
                    }
                    for (k, at) in &hd.lock_time {
                        if w.vnow - at > w.lock_ms
                            && w.eng.tx_manager().row_lock_holder(&World::tname(k.0), k.1) == Some(hd.real)
                        {
                            out.viol("relational_engine.lock_timeout/lock_not_expired".into(),
                                     format!("lock of h{g} on {k:?} still held {} ms after acquisition", w.vnow - at), step);
                        }
                    }
                }
            },
            _ => {},
        }
        // foreign-lock oracle (`release_keeps_foreign_locks`, `held_lock_survives_others`): a row held before the
        // statement by a transaction that is still open afterwards is still held by it.  The engine's clock is the
        // wall clock, so a lock within 600 ms of its timeout (virtual age) is not judged.
        let holders_after = if matches!(op, Op::Tick(_) | Op::Sweep) { BTreeMap::new() } else { w.holders(&after) };
        if !holders_before.is_empty() {
            for (k, r) in &holders_before {
                let Some((g, hd)) = w.handles.iter().find(|(_, hd)| hd.real == *r) else { continue };
                if hd.state != HState::Active || holders_after.get(k) == Some(r) {
                    continue;
                }
                let age = w.vnow - hd.lock_time.get(k).copied().unwrap_or(w.vnow);
                if age + 600 > w.lock_ms {
                    out.hit("foreign_lock_check_skipped_near_expiry");
                    continue;
                }
                let now_h = match holders_after.get(k) {
                    Some(x) => match w.handles.iter().find(|(_, h2)| h2.real == *x) {
                        Some((g2, _)) => format!("h{g2}"),
                        None => "an internal transaction".to_string(),
                    },
                    None => "nobody".to_string(),
                };
                if !ended_all.is_empty() {
                    out.viol("relational_engine.row_lock/foreign_lock_released_at_tx_end".into(),
                             format!("{} ended {:?}; row {k:?} was locked by open transaction h{g} ({age} ms ago, timeout {} ms) and is now \
                                      locked by {now_h}: the end of one transaction removed another transaction's live row lock",
                                     op.show(), ended_all.iter().map(|h| format!("h{h}")).collect::<Vec<_>>(), w.lock_ms), step);
                } else {
                    out.viol("relational_engine.row_lock/held_lock_lost_without_tx_end".into(),
                             format!("{}: row {k:?} was locked by open transaction h{g} ({age} ms ago, timeout {} ms) and is now locked by \
                                      {now_h} although h{g} did not end", op.show(), w.lock_ms), step);
                }
            }
            if !ended_all.is_empty() {
                out.hit("foreign_lock_check_at_tx_end");
                if holders_before.values().any(|r| w.handles.values().any(|hd| hd.real == *r && hd.state == HState::Active)) {
                    out.hit("foreign_lock_check_at_tx_end:other_open_tx_holds_locks");
                }
                // the situation `release` must get right: a row the ended transaction had locked (its key is still in
                // that transaction's list) is by now held by another open transaction
                if ended_all.iter().any(|h| w.handles[h].wrote.keys().any(|k| holders_before.get(k).is_some_and(|r| {
                    *r != w.handles[h].real && w.handles.values().any(|hd| hd.real == *r && hd.state == HState::Active)
                }))) {
                    out.hit(&format!("old_holder_ended_while_new_holder_open:{site}"));
                }
            }
        }
        // ---- lock-table bookkeeping oracles (`every_lock_is_listed_under_its_owner`, `no_lock_outlives_its_transaction`,
        // `lock_conflict_names_a_live_transaction`), on the engine's own answers after EVERY statement:
        if !matches!(op, Op::Tick(_) | Op::Sweep) {
            // (1) every lock in the table is in its owner's key list: an open transaction that is the row_lock_holder of n
            //     rows has at least n keys listed (`locks_held_by`; the list may hold more — re-locked rows, rows taken
            //     over by somebody else).  A lock that is in the table and in no list is one `release` will never find.
            let open: Vec<(usize, u64)> = w.handles.iter().filter(|(_, hd)| hd.state == HState::Active).map(|(g, hd)| (*g, hd.real)).collect();
            for (g, real) in &open {
                let held: Vec<Key> = holders_after.iter().filter(|(_, r)| *r == real).map(|(k, _)| *k).collect();
                let listed = w.eng.tx_manager().locks_held_by(*real);
                if !held.is_empty() {
                    out.hit("lock_listing_check");
                    if listed > held.len() {
                        out.hit("lock_listing_check:list_longer_than_rows_held");
                    }
                }
                if held.len() > listed && w.unlisted_reported.insert(*g) {
                    out.viol(format!("relational_engine.{site}/lock_not_listed_under_owner"),
                             format!("after {}: open transaction h{g} is the row_lock_holder of {} row(s) {held:?} but locks_held_by(h{g}) = {listed}: a lock \
                                      that is in the lock table is missing from its owner's key list, so the release at the owner's commit / rollback / \
                                      timeout cannot find it", op.show(), held.len()), step);
                }
            }
            // (2) no lock outlives its transaction: the holder of every row is an open transaction
            for (k, r) in &holders_after {
                if w.eng.is_transaction_active(*r) || w.dead_reported.contains(k) {
                    continue;
                }
                w.dead_reported.insert(*k);
                let who = match w.handles.iter().find(|(_, hd)| hd.real == *r) {
                    Some((g, hd)) => format!("h{g} ({})", match hd.state {
                        HState::Committed => "committed", HState::RolledBack => "rolled back", HState::Expired => "removed by cleanup_expired", HState::Active => "open?" }),
                    None => "an internal transaction of a non-transactional statement".to_string(),
                };
                let swept = w.handles.values().any(|hd| hd.real == *r && hd.swept_partly.contains(k));
                out.viol(format!("relational_engine.{site}/lock_outlives_transaction"),
                         format!("after {}: row {k:?} is locked (row_lock_holder) by {who}, which is not an open transaction{}", op.show(),
                                 if swept { "; its lock was alive when cleanup_expired_locks removed an older, expired lock of the same transaction" } else { "" }), step);
            }
            // (3) a lock conflict names a live transaction that held one of the table's rows just before the statement
            if let (Op::TxUpdate(_, t, ..) | Op::TxDelete(_, t, _) | Op::Update(t, ..) | Op::Delete(t, _), "err lock_conflict") = (op, r_real.as_str()) {
                if let Some(b) = w.last_blocker {
                    out.hit("lock_conflict_blocker_check");
                    let who = match w.handles.iter().find(|(_, hd)| hd.real == b) {
                        Some((g, _)) => format!("h{g}"),
                        None => format!("transaction {b} (not one of the script's)"),
                    };
                    if !w.eng.is_transaction_active(b) {
                        out.viol(format!("relational_engine.{site}/lock_conflict_with_ended_transaction"),
                                 format!("{} refused with a lock conflict naming {who} as the blocking transaction, which is not an open transaction: \
                                          a lock it left behind keeps writers out", op.show()), step);
                    } else if !holders_before.iter().any(|(k, r)| k.0 == *t && *r == b) {
                        out.viol(format!("relational_engine.{site}/lock_conflict_without_held_row"),
                                 format!("{} refused with a lock conflict naming {who}, which was the row_lock_holder of no row of t{t} just before the \
                                          statement (holders: {holders_before:?})", op.show()), step);
                    }
                }
            }
        }
        // a transaction that a lock sweep found partly expired has now ended: the rows whose locks were alive at the sweep
        // are checked by the lock-release oracle below and by (2) from here on
        for h in &ended_all {
            if !w.handles[h].swept_partly.is_empty() {
                out.hit(&format!("partly_expired_owner_ended:{site}"));
            }
        }
        // inserted-row lock oracle: `tx_insert` locks the row it creates and nothing else — no other key (another row,
        // or the non-row id 0) gets a new holder through it
        if let (Op::TxInsert(h, t, _), true) = (op, ok) {
            let new_id = r_real.strip_prefix("ok ").and_then(|x| x.parse::<u64>().ok()).unwrap_or(0);
            if let Some(real) = w.handles.get(h).filter(|x| x.state == HState::Active).map(|x| x.real) {
                let holders_after = w.holders(&after);
                out.hit("tx_insert_lock_check");
                if holders_after.get(&(*t, new_id)) == Some(&real) {
                    out.hit("tx_insert_lock_check:new_row_held_by_inserter");
                }
                for (k, r) in &holders_after {
                    if *k != (*t, new_id) && *r == real && holders_before.get(k) != Some(r) {
                        out.viol("relational_engine.tx_insert/lock_taken_on_other_row".into(),
                                 format!("{} created row ({t},{new_id}) but its transaction now also holds the lock of {k:?}, which it did not hold before \
                                          (row_lock_holder before: {:?}); the new row's holder is {:?}", op.show(), holders_before.get(k),
                                         holders_after.get(&(*t, new_id))), step);
                    }
                }
            }
        }
        if let Some(h) = ended {
            if matches!(op, Op::Commit(_) | Op::Rollback(_)) {
                // the end of a transaction that wrote an INDEXED column back with its current value (index oracle below)
                let sv: Vec<(usize, usize)> = w.handles[&h].same_val.iter().map(|(k, c)| (k.0, *c)).collect();
                let mut seen: BTreeSet<&'static str> = BTreeSet::new();
                for (t, c) in sv {
                    if w.hash_cols(t).contains(&c) {
                        seen.insert("hash");
                    }
                    if w.btree_cols(t).contains(&c) {
                        seen.insert("btree");
                    }
                }
                for kind in seen {
                    out.hit(&format!("{site}_after_same_value_update:{kind}_index_checked"));
                }
            }
            // lock release oracle
            let real = w.handles[&h].real;
            let mut left = w.eng.tx_manager().locks_held_by(real);
            for t in 0..w.ntables {
                for id in 1..=(after[t].keys().max().copied().unwrap_or(0) + 4) {
                    if w.eng.tx_manager().row_lock_holder(&World::tname(t), id) == Some(real) {
                        left += 1;
                    }
                }
            }
            if left != 0 {
                out.viol(format!("relational_engine.{site}/lock_not_released"),
                         format!("{left} lock(s) of h{h} remain after {}", op.show()), step);
            }
            // committed-state oracle at quiescence: the tables equal the last quiescent image plus, in statement
            // order, the row writes of non-transactional statements and of transactions that COMMITTED
            if w.active_handles().is_empty() {
                out.hit("quiescent_check");
                let mut want = w.base.clone();
                for (wr, k, post) in &w.log {
                    let counts = match wr {
                        None => true,
                        Some(h) => w.handles.get(h).is_some_and(|x| x.state == HState::Committed),
                    };
                    if counts {
                        match post {
                            Some(v) => { want[k.0].insert(k.1, v.clone()); },
                            None => { want[k.0].remove(&k.1); },
                        }
                    }
                }
                for t in 0..w.ntables {
                    let keys: BTreeSet<u64> = after[t].keys().chain(want[t].keys()).copied().collect();
                    for k in keys {
                        let (r, c) = (after[t].get(&k), want[t].get(&k));
                        if r == c {
                            continue;
                        }
                        let msg = format!("no transaction open: row ({t},{k}) is {r:?}; committed work alone gives {c:?}");
                        match w.taint.get(&(t, k)).copied() {
                            Some("hole") => {
                                if r.is_some() && c.is_none() {
                                    out.viol("relational_engine.rollback/phantom_row".into(),
                                             format!("{msg} (inserted by a rolled-back transaction, deleted by another one that rolled back later)"), step);
                                } else {
                                    out.hit("consequence_of_unlocked_insert:state_differs");
                                }
                            },
                            Some("expiry") => out.viol("relational_engine.rollback/committed_write_undone_after_lock_expiry".into(),
                                                       format!("{msg} (the rolled-back transaction's row lock had timed out while it stayed open)"), step),
                            Some("cleanup") => out.viol("relational_engine.cleanup_expired/uncommitted_change_kept".into(),
                                                        format!("{msg} (cleanup_expired dropped the timed-out transaction without applying its undo log)"), step),
                            _ => out.viol(format!("relational_engine.{site}/state_differs_from_committed_work"), msg, step),
                        }
                    }
                }
                w.base = after.clone();
                w.log.clear();
                w.taint.clear();
            }
        }

        // ---- observation of the whole state: model comparison + index oracle
        let full = matches!(op, Op::Commit(_) | Op::Rollback(_) | Op::Sweep | Op::CreateIndex(..) | Op::CreateBtree(..)
            | Op::DropIndex(..) | Op::DropBtree(..) | Op::CleanupTxs | Op::CleanupLocks | Op::Insert(..) | Op::Update(..) | Op::Delete(..) | Op::BatchInsert(..))
            || step + 1 == ops.len();
        let lock_step = full || matches!(op, Op::TxUpdate(..) | Op::TxDelete(..) | Op::Tick(_));
        for t in 0..w.ntables {
            let (hc, bc) = (w.hash_cols(t), w.btree_cols(t));
            if let Some(m) = mdl!() {
                let rows: Vec<(u64, Vec<i64>)> = after[t].iter().map(|(k, v)| (*k, v.clone())).collect();
                let img = if w.eng.table_exists(&World::tname(t)) {
                    format!("img {}|H:{}|B:{}", rows_tok(&rows), World::nats(&hc), World::nats(&bc))
                } else {
                    "err table_not_found".to_string()
                };
                let a = m.ask(&format!("image {t}"));
                if !cmp(&mut out, "image", step, &format!("image {t}"), &img, &a) {
                    diverged = true;
                }
            }
            // index oracle after EVERY statement (real engine only, whether or not the model still agrees): an
            // index-served answer is the filter of the full-scan image.  Model comparison of the same answers on
            // `full` steps.
            for c in sweep_conds(&hc, &bc, pool(cfg)) {
                // the index that serves this condition (`And`: the first served side)
                let key = match c.served_by(&hc, &bc) {
                    Some((col, bt)) => (t, col, bt),
                    None => (t, usize::MAX, false),
                };
                if matches!(c, Cond::And(..)) {
                    *out.counts.entry(if key.2 { "and_condition_served_by_btree_index" } else { "and_condition_served_by_hash_index" }).or_insert(0) += 1;
                }
                let real = w.select_rows(t, &c);
                let want: Vec<(u64, Vec<i64>)> = after[t].iter().filter(|(id, v)| c.holds(**id, v)).map(|(k, v)| (*k, v.clone())).collect();
                if let Ok(got) = &real {
                    if got != &want && !w.idx_reported.contains(&key) {
                        w.idx_reported.insert(key);
                        let ids: Vec<u64> = got.iter().map(|r| r.0).collect();
                        let mut uniq = ids.clone();
                        uniq.dedup();
                        let missing_ids: Vec<u64> = want.iter().filter(|r| !ids.contains(&r.0)).map(|r| r.0).collect();
                        let missing = !missing_ids.is_empty();
                        let dup = uniq.len() != ids.len();
                        // the rollback of an open transaction that has just run (None for every other statement)
                        let rb = match op {
                            Op::Rollback(h) if ended == Some(*h) => w.handles.get(h),
                            _ => None,
                        };
                        // 6992261a: a b-tree index created on a table whose NAME carried a b-tree index on the same column when
                        // an earlier table of that name was dropped answers a row twice — the dropped table's tree was
                        // still filed under the name (`drop_table_keeps_btree_map_witness`)
                        let stale_tree = key.2 && dup && !missing
                            && w.btree_at_drop.get(&(t, key.1)).is_some_and(|ds| w.idx_created.get(&key).is_some_and(|ci| ci > ds));
                        if stale_tree {
                            out.viol("relational_engine.btree_index/stale_in_memory_tree_after_drop_table".into(),
                                     format!("select t{t} {} through the b-tree index = [{}], full scan + filter = [{}]; the index was created at step {} on a table \
                                              created after `drop_table t{t}` (step {}), and the dropped table had a b-tree index on c{}: its in-memory tree \
                                              outlived the table", c.tok(), rows_tok(got), rows_tok(&want), w.idx_created[&key], w.btree_at_drop[&(t, key.1)], key.1), step);
                            continue;
                        }
                        let mut extra = String::new();
                        let kind = match rb {
                            Some(hd) => {
                                // the two situations `rollback_restores` excludes (known findings): the index was created
                                // after the transaction's first write to the table, or one of its rows was shared with
                                // another transaction after a lock expiry
                                let ddl = w.idx_created.get(&key).zip(hd.first_write_step.get(&t)).is_some_and(|(ci, fw)| ci > fw);
                                let expiry = !hd.interfered.is_empty();
                                if ddl || expiry {
                                    if missing { "index_entry_not_restored" } else if dup { "duplicate_row_in_index_answer" } else { "index_answer_wrong" }
                                } else if missing {
                                    // calm rollback (no lock expiry, index older than the transaction's writes)
                                    let sv: Vec<u64> = missing_ids.iter().copied().filter(|id| hd.same_val.contains(&((t, *id), key.1))).collect();
                                    if !sv.is_empty() {
                                        extra = format!("; the rolled-back transaction had assigned c{} of row(s) {sv:?} the value the row already held \
                                                         (tx_update with old value == new value on an indexed column), no lock expired and the index \
                                                         existed before the transaction's first write", key.1);
                                        "index_entry_lost_after_same_value_update"
                                    } else {
                                        extra = "; no lock expired and the index existed before the transaction's first write".into();
                                        "index_answer_missing_row"
                                    }
                                } else if dup {
                                    extra = "; no lock expired and the index existed before the transaction's first write".into();
                                    "duplicate_row_in_index_answer_after_calm_rollback"
                                } else {
                                    "index_answer_wrong"
                                }
                            },
                            None => if missing { "index_answer_missing_row" } else if dup { "duplicate_row_in_index_answer" } else { "index_answer_wrong" },
                        };
                        let site2 = if matches!(op, Op::Sweep) { last_site } else { site };
                        out.viol(format!("relational_engine.{site2}/{kind}"),
                                 format!("select t{t} {} through the index = [{}], full scan + filter = [{}]{extra}", c.tok(), rows_tok(got), rows_tok(&want)), step);
                    }
                }
                // model comparison of the same answers: simple conditions on every `full` step, compound ones at the
                // points where an index answer is most at risk (end of a transaction, explicit sweep, end of script)
                let ask_model = full && (!matches!(c, Cond::And(..) | Cond::Or(..))
                    || matches!(op, Op::Commit(_) | Op::Rollback(_) | Op::Sweep) || step + 1 == ops.len());
                if ask_model {
                    if let Some(m) = mdl!() {
                        let real_s = match &real {
                            Ok(r) => format!("rows {}", rows_tok(r)),
                            Err(e) => format!("err {e}"),
                        };
                        let q = format!("select {t} {}", c.tok());
                        let a = m.ask(&q);
                        if !cmp(&mut out, "query", step, &q, &real_s, &a) {
                            diverged = true;
                        }
                    }
                }
            }
            // lock table
            if !lock_step {
                continue;
            }
            let maxid = before.get(t).and_then(|i| i.keys().max().copied()).unwrap_or(0).max(after[t].keys().max().copied().unwrap_or(0)) + 2;
            for id in 1..=maxid {
                if let Some(m) = mdl!() {
                    let real = match w.eng.tx_manager().row_lock_holder(&World::tname(t), id) {
                        Some(r) => match w.handles.values().find(|h| h.real == r) {
                            Some(h) => format!("h {}", h.model),
                            None => "h internal".to_string(),
                        },
                        None => "h -".into(),
                    };
                    let q = format!("holder {t} {id}");
                    let a = m.ask(&q);
                    if !cmp(&mut out, "locks", step, &q, &real, &a) {
                        diverged = true;
                    }
                }
            }
        }
        if lock_step {
            let hs: Vec<(u64, u64)> = w.handles.values().map(|h| (h.real, h.model)).collect();
            for (real, mid) in hs {
                if let Some(m) = mdl!() {
                    let q = format!("held {mid}");
                    let a = m.ask(&q);
                    let r = format!("n {}", w.eng.tx_manager().locks_held_by(real));
                    if !cmp(&mut out, "locks", step, &q, &r, &a) {
                        diverged = true;
                    }
                }
                if let Some(m) = mdl!() {
                    let q = format!("active {mid}");
                    let a = m.ask(&q);
                    let r = format!("{}", w.eng.is_transaction_active(real));
                    if !cmp(&mut out, "locks", step, &q, &r, &a) {
                        diverged = true;
                    }
                }
            }
            {
                // active_transaction_count: exactly the transactions begun through the API and not yet ended (the
                // internal transaction of a non-transactional statement ends inside the call)
                let n_real = w.eng.active_transaction_count();
                let n_open = w.handles.values().filter(|h| h.state == HState::Active).count();
                if n_real != n_open {
                    out.viol("relational_engine.active_transaction_count/wrong_count".into(),
                             format!("after {}: active_transaction_count = {n_real}, open transactions = {n_open}", op.show()), step);
                }
                if let Some(m) = mdl!() {
                    let a = m.ask("nactive");
                    if !cmp(&mut out, "locks", step, "nactive", &format!("n {n_real}"), &a) {
                        diverged = true;
                    }
                }
            }
            if let Some(m) = mdl!() {
                let a = m.ask("nlocks");
                let r = format!("n {}", w.eng.tx_manager().active_lock_count());
                if !cmp(&mut out, "locks", step, "nlocks", &r, &a) {
                    diverged = true;
                }
            }
        }
        // timing guard for timeout scripts
        if cfg.lock_secs <= 2 && started.elapsed().saturating_sub(w.slept) > Duration::from_millis(400) {
            out.discarded = true;
            return out;
        }
        // REGRESSION of 6f865e8a (`rollback_never_touches_table_created_after_own_writes`,
        // `undo_entries_name_existing_tables`): a table was dropped under a transaction that had written it, and that
        // transaction now rolls back.  What the snapshot oracle has just reported about THIS rollback is filed under one
        // class computed from the trace: the undo reached the rows of a table created under the name since the drop, or
        // the rollback found no table and failed.
        if let Op::Rollback(h) = op {
            let hit: Vec<usize> = w.dropped_under_tx.iter().filter(|(_, (ws, _))| ws.contains(h)).map(|(t, _)| *t).collect();
            if ended == Some(*h) && !hit.is_empty() {
                let recreated: Vec<usize> = hit.iter().copied().filter(|t| {
                    let at = w.dropped_under_tx[t].1;
                    ops[..step].iter().enumerate().any(|(i, o)| i > at && matches!(o, Op::RecreateTable(t2) if t2 == t))
                }).collect();
                let new_rows_changed: Vec<&(Key, Option<Vec<i64>>, Option<Vec<i64>>)> = diff.iter().filter(|d| recreated.contains(&d.0 .0)).collect();
                let class = if !new_rows_changed.is_empty() {
                    Some("relational_engine.drop_table/open_transaction_undo_applied_to_recreated_table")
                } else if !ok {
                    Some("relational_engine.drop_table/open_transaction_rollback_fails_after_drop")
                } else {
                    None
                };
                if let Some(class) = class {
                    let (mine, rest): (Vec<_>, Vec<_>) = std::mem::take(&mut out.violations).into_iter()
                        .partition(|v| v.2 == step && v.0.starts_with("relational_engine.rollback/"));
                    out.violations = rest;
                    let detail = mine.iter().map(|v| format!("[{}] {}", v.0, v.1)).collect::<Vec<_>>().join(" || ");
                    out.viol(class.to_string(),
                             format!("table(s) {:?} were dropped while h{h} had uncommitted changes in them{}; {} -> {r_real}; rows of the table created \
                                      since that changed: {:?}{}{detail}", hit.iter().map(|t| World::tname(*t)).collect::<Vec<_>>(),
                                     if recreated.is_empty() { "" } else { " and created again under the same name" }, op.show(),
                                     new_rows_changed, if detail.is_empty() { "" } else { " — " }), step);
                }
            }
        }
    }
    out
}

fn new_hd(real: u64, model: u64, now: u64) -> Hd {
    Hd {
        real,
        model,
        state: HState::Active,
        started: now,
        first_touch: BTreeMap::new(),
        wrote: BTreeMap::new(),
        lock_time: BTreeMap::new(),
        interfered: BTreeSet::new(),
        clobbered: BTreeSet::new(),
        first_write_step: BTreeMap::new(),
        same_val: BTreeSet::new(),
        swept_partly: BTreeSet::new(),
    }
}

// ------------------------------------------------------------------ generators

/// one comparison (or `_id` lookup, or `True`) over the value pool
fn gen_atom(rng: &mut Rng, maxid: u64, pool: &[i64]) -> Cond {
    let c = rng.below(NCOLS as u64) as usize;
    let v = *rng.pick(pool);
    match rng.below(13) {
        0..=4 => Cond::Id(1 + rng.below(maxid.max(1))),
        5..=6 => Cond::Eq(c, v),
        7 => Cond::Lt(c, v),
        8 => Cond::Le(c, v),
        9 => Cond::Gt(c, v),
        10 => Cond::Ge(c, v),
        11 => Cond::Ne(c, v),
        _ => Cond::All,
    }
}
/// a condition: mostly one comparison; one in five is an `And` / `Or` (sometimes nested) — the set of rows a
/// statement locks and changes is whatever the whole condition matches
fn gen_cond(rng: &mut Rng, maxid: u64, pool: &[i64]) -> Cond {
    match rng.below(15) {
        0 => Cond::and(gen_atom(rng, maxid, pool), gen_atom(rng, maxid, pool)),
        1 => Cond::or(gen_atom(rng, maxid, pool), gen_atom(rng, maxid, pool)),
        2 => {
            let inner = if rng.chance(1, 2) {
                Cond::or(gen_atom(rng, maxid, pool), gen_atom(rng, maxid, pool))
            } else {
                Cond::and(gen_atom(rng, maxid, pool), gen_atom(rng, maxid, pool))
            };
            if rng.chance(1, 2) { Cond::and(inner, gen_atom(rng, maxid, pool)) } else { Cond::or(gen_atom(rng, maxid, pool), inner) }
        },
        _ => gen_atom(rng, maxid, pool),
    }
}
fn gen_vals(rng: &mut Rng, pool: &[i64]) -> Vec<i64> {
    (0..NCOLS).map(|_| *rng.pick(pool)).collect()
}
fn gen_upd(rng: &mut Rng, pool: &[i64]) -> Vec<(usize, i64)> {
    match rng.below(4) {
        0 => vec![(0, *rng.pick(pool)), (1, *rng.pick(pool))],
        1 => vec![(1, *rng.pick(pool))],
        _ => vec![(0, *rng.pick(pool))],
    }
}

/// What the generator believes the tables look like while it writes a script (no lock expiry in these streams:
/// a statement that matches a row written by another open transaction fails as a whole).  Used only to AIM
/// statements — e.g. an update that assigns an indexed column the value the row currently holds; the harness never
/// relies on it being right (the executor recomputes everything from the real engine's answers).
#[derive(Default)]
struct Sim {
    rows: Vec<BTreeMap<u64, Vec<i64>>>,
    next_id: Vec<u64>,
    owner: BTreeMap<Key, usize>,
    undo: BTreeMap<usize, Vec<(Key, Option<Vec<i64>>)>>,
    indexed: Vec<BTreeSet<(usize, bool)>>,
    /// false while the table name is unused (dropped and not created again)
    exists: Vec<bool>,
}

impl Sim {
    fn write(&mut self, h: Option<usize>, k: Key, new: Option<Vec<i64>>) {
        let old = self.rows[k.0].get(&k.1).cloned();
        if let Some(h) = h {
            self.undo.entry(h).or_default().push((k, old));
            self.owner.insert(k, h);
        }
        match new {
            Some(v) => { self.rows[k.0].insert(k.1, v); },
            None => { self.rows[k.0].remove(&k.1); },
        }
    }
    fn matched(&self, h: Option<usize>, t: usize, c: &Cond) -> Option<Vec<u64>> {
        if self.exists.get(t) != Some(&true) {
            return None;
        }
        let ids: Vec<u64> = self.rows.get(t)?.iter().filter(|(id, v)| c.holds(**id, v)).map(|(id, _)| *id).collect();
        if ids.iter().any(|id| self.owner.get(&(t, *id)).is_some_and(|o| Some(*o) != h)) {
            return None; // lock conflict
        }
        Some(ids)
    }
    fn apply(&mut self, op: &Op) {
        let open = |s: &Sim, h: &usize| s.undo.contains_key(h);
        match op {
            Op::CreateTable | Op::CreateTableN(_) => {
                self.rows.push(BTreeMap::new());
                self.next_id.push(1);
                self.indexed.push(BTreeSet::new());
                self.exists.push(true);
            },
            // refused while an open transaction has uncommitted changes in the table; otherwise rows, indexes and the
            // row-id counter go with the name
            Op::DropTable(t) => {
                if self.exists.get(*t) == Some(&true) && !self.undo.values().any(|log| log.iter().any(|e| e.0 .0 == *t)) {
                    self.exists[*t] = false;
                    self.rows[*t].clear();
                    self.next_id[*t] = 1;
                    self.indexed[*t].clear();
                    self.owner.retain(|k, _| k.0 != *t);
                }
            },
            Op::RecreateTable(t) => {
                if self.exists.get(*t) == Some(&false) {
                    self.exists[*t] = true;
                }
            },
            Op::Begin(h) => { self.undo.insert(*h, vec![]); },
            Op::Commit(h) => {
                if self.undo.remove(h).is_some() {
                    self.owner.retain(|_, o| o != h);
                }
            },
            Op::Rollback(h) => {
                if let Some(log) = self.undo.remove(h) {
                    for (k, old) in log.into_iter().rev() {
                        match old {
                            Some(v) => { self.rows[k.0].insert(k.1, v); },
                            None => { self.rows[k.0].remove(&k.1); },
                        }
                    }
                    self.owner.retain(|_, o| o != h);
                }
            },
            Op::TxInsert(_, t, v) | Op::Insert(t, v) => {
                let h = if let Op::TxInsert(h, ..) = op { Some(*h) } else { None };
                if self.exists.get(*t) != Some(&true) || v.len() != NCOLS || h.is_some_and(|h| !open(self, &h)) {
                    return;
                }
                let id = self.next_id[*t];
                self.next_id[*t] += 1;
                self.write(h, (*t, id), Some(v.iter().map(|x| vnorm(*x)).collect()));
            },
            Op::TxUpdate(_, t, c, u) | Op::Update(t, c, u) => {
                let h = if let Op::TxUpdate(h, ..) = op { Some(*h) } else { None };
                if h.is_some_and(|h| !open(self, &h)) || u.iter().any(|(c, _)| *c >= NCOLS) {
                    return;
                }
                let Some(ids) = self.matched(h, *t, c) else { return };
                for id in ids {
                    let mut v = self.rows[*t][&id].clone();
                    for (c, x) in u {
                        v[*c] = *x;
                    }
                    self.write(h, (*t, id), Some(v));
                }
            },
            Op::TxDelete(_, t, c) | Op::Delete(t, c) => {
                let h = if let Op::TxDelete(h, ..) = op { Some(*h) } else { None };
                if h.is_some_and(|h| !open(self, &h)) {
                    return;
                }
                let Some(ids) = self.matched(h, *t, c) else { return };
                for id in ids {
                    self.write(h, (*t, id), None);
                }
            },
            Op::BatchInsert(t, rows) => {
                if self.exists.get(*t) != Some(&true) || rows.iter().any(|v| v.len() != NCOLS) {
                    return;
                }
                for v in rows {
                    let id = self.next_id[*t];
                    self.next_id[*t] += 1;
                    self.write(None, (*t, id), Some(v.iter().map(|x| vnorm(*x)).collect()));
                }
            },
            Op::CreateIndex(t, c) | Op::CreateBtree(t, c) => {
                if self.exists.get(*t) != Some(&true) {
                    return;
                }
                if let Some(ix) = self.indexed.get_mut(*t) {
                    ix.insert((*c, matches!(op, Op::CreateBtree(..))));
                }
            },
            Op::DropIndex(t, c) | Op::DropBtree(t, c) => {
                if let Some(ix) = self.indexed.get_mut(*t) {
                    ix.remove(&(*c, matches!(op, Op::DropBtree(..))));
                }
            },
            _ => {},
        }
    }
    /// an update by `h` (None = non-transactional) that assigns an INDEXED column (any column when the table has no
    /// index) of a row `h` may write the value that row holds right now; the second column, when named, gets its
    /// current value too or a random one
    fn same_value_update(&self, rng: &mut Rng, h: Option<usize>, t: usize, pool: &[i64]) -> Option<(Cond, Vec<(usize, i64)>)> {
        if self.exists.get(t) != Some(&true) {
            return None;
        }
        let free: Vec<(u64, Vec<i64>)> = self.rows.get(t)?.iter()
            .filter(|(id, _)| self.owner.get(&(t, **id)).is_none_or(|o| Some(*o) == h))
            .map(|(id, v)| (*id, v.clone())).collect();
        if free.is_empty() {
            return None;
        }
        let (id, vals) = rng.pick(&free).clone();
        let cols: Vec<usize> = self.indexed[t].iter().map(|(c, _)| *c).collect();
        let c = if cols.is_empty() { rng.below(NCOLS as u64) as usize } else { *rng.pick(&cols) };
        let other = (c + 1) % NCOLS;
        let mut upd = match rng.below(4) {
            0 => vec![(c, vals[c]), (other, vals[other])],
            1 => vec![(c, vals[c]), (other, *rng.pick(pool))],
            _ => vec![(c, vals[c])],
        };
        upd.sort();
        let cond = match rng.below(8) {
            0..=3 => Cond::Id(id),
            4..=5 => Cond::Eq(c, vals[c]),
            6 => Cond::Ge(other, vals[other]),
            _ => Cond::All,
        };
        Some((cond, upd))
    }
}

/// NULL goes to nullable columns (explicitly or by leaving the column out); a NULL the generator drew for a column
/// that refuses it is kept one time in eight (the statement must then fail as a whole with NullNotAllowed)
fn gen_vals_n(rng: &mut Rng, nullable: &[usize], pool: &[i64]) -> Vec<i64> {
    let mut v = gen_vals(rng, pool);
    for (c, x) in v.iter_mut().enumerate() {
        if *x == NULLV {
            if nullable.contains(&c) {
                if rng.chance(1, 2) {
                    *x = OMITV;
                }
            } else if !rng.chance(1, 8) {
                *x = pool[0];
            }
        }
    }
    v
}
fn gen_upd_n(rng: &mut Rng, nullable: &[usize], pool: &[i64]) -> Vec<(usize, i64)> {
    let mut u = gen_upd(rng, pool);
    for (c, x) in u.iter_mut() {
        if *x == NULLV && !nullable.contains(c) && !rng.chance(1, 8) {
            *x = pool[0];
        }
    }
    u
}

/// random script: setup (tables, indexes, committed rows), 2-4 interleaved transactions, all ended at the end.
/// One update in four is aimed (`Sim::same_value_update`) at writing an indexed column back with its current value.
fn gen_script(rng: &mut Rng, len: usize, ddl: bool, pool: &[i64]) -> Vec<Op> {
    // `pool` ends with NULLV when the script has nullable columns
    let nulls = pool.last() == Some(&NULLV);
    let mut sim = Sim::default();
    let mut synced = 0usize;
    let nt = if rng.chance(1, 3) { 2 } else { 1 };
    let mut ops = vec![];
    let mut nullable: Vec<Vec<usize>> = vec![];
    for _ in 0..nt {
        let nl: Vec<usize> = if nulls { (0..NCOLS).filter(|_| rng.chance(2, 3)).collect() } else { vec![] };
        ops.push(if nl.is_empty() { Op::CreateTable } else { Op::CreateTableN(nl.clone()) });
        nullable.push(nl);
    }
    let mut approx_rows = vec![0u64; nt];
    for t in 0..nt {
        for c in 0..NCOLS {
            if rng.chance(3, 5) {
                ops.push(Op::CreateIndex(t, c));
            }
            if rng.chance(3, 5) {
                ops.push(Op::CreateBtree(t, c));
            }
        }
        for _ in 0..rng.range(1, 4) {
            ops.push(Op::Insert(t, gen_vals_n(rng, nullable.get(t).map_or(&[][..], |v| &v[..]), pool)));
            approx_rows[t] += 1;
        }
    }
    let max_tx = rng.range(2, 4) as usize;
    let mut next_h = 0usize;
    let mut open: Vec<usize> = vec![];
    let mut finished: Vec<usize> = vec![];
    for _ in 0..len {
        while synced < ops.len() {
            sim.apply(&ops[synced]);
            synced += 1;
        }
        let t = rng.below(nt as u64) as usize;
        let roll = rng.below(100);
        if open.is_empty() || (open.len() < max_tx && roll < 12) {
            ops.push(Op::Begin(next_h));
            open.push(next_h);
            next_h += 1;
            continue;
        }
        let h = *rng.pick(&open);
        match roll {
            0..=26 => {
                let aimed = if rng.chance(1, 4) { sim.same_value_update(rng, Some(h), t, pool) } else { None };
                match aimed {
                    Some((c, u)) => ops.push(Op::TxUpdate(h, t, c, u)),
                    None => ops.push(Op::TxUpdate(h, t, gen_cond(rng, approx_rows[t], pool), gen_upd_n(rng, nullable.get(t).map_or(&[][..], |v| &v[..]), pool))),
                }
            },
            27..=41 => {
                ops.push(Op::TxInsert(h, t, gen_vals_n(rng, nullable.get(t).map_or(&[][..], |v| &v[..]), pool)));
                approx_rows[t] += 1;
            },
            42..=52 => ops.push(Op::TxDelete(h, t, gen_cond(rng, approx_rows[t], pool))),
            53..=60 => {
                ops.push(Op::Commit(h));
                open.retain(|x| *x != h);
                finished.push(h);
            },
            61..=72 => {
                ops.push(Op::Rollback(h));
                open.retain(|x| *x != h);
                finished.push(h);
            },
            73..=77 => {
                if rng.chance(2, 5) {
                    // batch_insert: 0-3 rows appended outside any transaction; one batch in six has a row that lacks a
                    // column (refused as a whole unless that column is nullable) or names an unknown table
                    let nl = nullable.get(t).map_or(&[][..], |v| &v[..]);
                    let mut rows: Vec<Vec<i64>> = (0..rng.below(4)).map(|_| gen_vals_n(rng, nl, pool)).collect();
                    let mut tt = t;
                    match rng.below(12) {
                        0 => rows.push(vec![*rng.pick(pool)]),
                        1 => tt = 9,
                        _ => {},
                    }
                    approx_rows[t] += rows.len() as u64;
                    ops.push(Op::BatchInsert(tt, rows));
                } else {
                    ops.push(Op::Insert(t, gen_vals_n(rng, nullable.get(t).map_or(&[][..], |v| &v[..]), pool)));
                    approx_rows[t] += 1;
                }
            },
            78..=82 => {
                let aimed = if rng.chance(1, 4) { sim.same_value_update(rng, None, t, pool) } else { None };
                match aimed {
                    Some((c, u)) => ops.push(Op::Update(t, c, u)),
                    None => ops.push(Op::Update(t, gen_cond(rng, approx_rows[t], pool), gen_upd_n(rng, nullable.get(t).map_or(&[][..], |v| &v[..]), pool))),
                }
            },
            83..=85 => ops.push(Op::Delete(t, gen_cond(rng, approx_rows[t], pool))),
            86..=91 => {
                if ddl {
                    let c = rng.below(NCOLS as u64) as usize;
                    // one DDL statement in six drops the table (refused while an open transaction has written it); a name
                    // that is unused is mostly created again (row ids restart, no index, nothing of the old table left)
                    let gone = sim.exists.get(t) == Some(&false);
                    let k = if gone && rng.chance(2, 3) { 5 } else { rng.below(6) };
                    ops.push(match k {
                        0 => Op::CreateIndex(t, c),
                        1 => Op::CreateBtree(t, c),
                        2 => Op::DropIndex(t, c),
                        3 => Op::DropBtree(t, c),
                        4 => Op::DropTable(t),
                        _ => Op::RecreateTable(t),
                    });
                    if k == 4 {
                        approx_rows[t] = approx_rows[t].min(3);
                    }
                } else {
                    ops.push(Op::Sweep);
                }
            },
            92..=95 => {
                // finished / never-begun transaction
                let g = if !finished.is_empty() && rng.chance(3, 4) { *rng.pick(&finished) } else { 77 };
                ops.push(match rng.below(6) {
                    0 => Op::Commit(g),
                    1 => Op::Rollback(g),
                    2 => Op::TxInsert(g, t, gen_vals_n(rng, nullable.get(t).map_or(&[][..], |v| &v[..]), pool)),
                    3 => Op::TxUpdate(g, t, Cond::All, gen_upd_n(rng, nullable.get(t).map_or(&[][..], |v| &v[..]), pool)),
                    4 => Op::TxSelect(g, t, gen_cond(rng, approx_rows[t], pool)),
                    _ => Op::TxDelete(g, t, Cond::All),
                });
            },
            // statements that must fail as a whole and change nothing: unknown table, unknown column, a row without
            // one of its (non-nullable) columns — transactional and non-transactional
            96 => ops.push(match rng.below(6) {
                0 => Op::TxUpdate(h, 9, Cond::All, gen_upd_n(rng, nullable.get(t).map_or(&[][..], |v| &v[..]), pool)),
                1 => Op::TxInsert(h, 9, gen_vals_n(rng, nullable.get(t).map_or(&[][..], |v| &v[..]), pool)),
                2 => Op::TxDelete(h, 9, gen_cond(rng, 3, pool)),
                3 => Op::Update(9, Cond::All, gen_upd_n(rng, nullable.get(t).map_or(&[][..], |v| &v[..]), pool)),
                4 => Op::Delete(9, Cond::All),
                _ => Op::Insert(9, gen_vals_n(rng, nullable.get(t).map_or(&[][..], |v| &v[..]), pool)),
            }),
            97 => ops.push(match rng.below(5) {
                0 | 1 => Op::TxUpdate(h, t, Cond::All, vec![(7, 1)]),
                2 => Op::Update(t, Cond::All, vec![(7, 1)]),
                3 => Op::TxInsert(h, t, vec![*rng.pick(pool)]),
                _ => Op::Insert(t, vec![*rng.pick(pool)]),
            }),
            98 => ops.push(Op::TxSelect(h, t, gen_cond(rng, approx_rows[t], pool))),
            // 30 s lock timeout: the lock sweep finds nothing expired and must change nothing
            _ => ops.push(if rng.chance(1, 2) { Op::CleanupLocks } else { Op::Sweep }),
        }
    }
    rng.shuffle(&mut open);
    for h in open {
        ops.push(if rng.chance(1, 2) { Op::Rollback(h) } else { Op::Commit(h) });
    }
    ops.push(Op::Sweep);
    ops
}

/// hand-written scenarios (run first): the suspected holes and the basic contract
fn directed() -> Vec<(&'static str, Cfg, Vec<Op>)> {
    use Op::*;
    let long = Cfg { lock_secs: 30, tx_secs: 60, wide: false, nulls: false };
    let short = Cfg { lock_secs: 1, tx_secs: 60, wide: false, nulls: false };
    let short_tx = Cfg { lock_secs: 1, tx_secs: 1, wide: false, nulls: false };
    let base = |idx: bool| {
        let mut v = vec![CreateTable];
        if idx {
            v.extend([CreateIndex(0, 0), CreateBtree(0, 0), CreateBtree(0, 1)]);
        }
        v.extend([Insert(0, vec![1, 1]), Insert(0, vec![2, 2]), Insert(0, vec![3, 3])]);
        v
    };
    let mut out = vec![];
    // LOCK SWEEP IN THE MIDDLE OF A TRANSACTION'S LIFE (`LockTable.lean`, Props5: `every_lock_is_listed_under_its_owner`,
    // `no_lock_outlives_its_transaction`, `lock_sweep_unlists_exactly_the_locks_it_removes`,
    // `sweep_then_end_frees_every_row_of_the_transaction`; the sweep that forgets the owner's whole key list:
    // `sweep_forgetting_owner_list_leaks_lock_witness`).  A transaction takes its locks statement by statement, so they
    // have different ages.  Lock timeout 2 s: A = h0 locks row 1 at 0 ms and row 2 at 1100 ms; at 2200 ms the lock on
    // row 1 has expired, the lock on row 2 has not; `cleanup_expired_locks` runs in that window (it may drop only the
    // expired lock, from the table AND from A's key list); then A ends — commit | rollback | transaction timeout.  After
    // every statement the bookkeeping oracles run; B = h1 must get every row of A at once.
    let mid = Cfg { lock_secs: 2, tx_secs: 60, wide: false, nulls: false };
    let mid_tx = Cfg { lock_secs: 2, tx_secs: 3, wide: false, nulls: false };
    for (name, end_a) in [("partial_expiry_sweep_then_commit", Commit(0)), ("partial_expiry_sweep_then_rollback", Rollback(0))] {
        let mut s = base(true);
        s.extend([Begin(0), TxUpdate(0, 0, Cond::Id(1), vec![(0, 4)]), Tick(1100), TxUpdate(0, 0, Cond::Id(2), vec![(1, 0)]), Tick(1100), CleanupLocks, end_a,
                  Begin(1), TxUpdate(1, 0, Cond::Id(2), vec![(0, 5)]), TxDelete(1, 0, Cond::Id(1)), Update(0, Cond::Id(3), vec![(0, 0)]), Commit(1), Sweep]);
        out.push((name, mid, s));
    }
    // the owner is removed by the TRANSACTION sweep (3 s) while its younger lock (taken at 2200 ms, swept past at once) is
    // 1100 ms old: `cleanup_expired` releases by the same key list
    let mut s = base(true);
    s.extend([Begin(0), TxUpdate(0, 0, Cond::Id(1), vec![(0, 4)]), Tick(1100), Begin(1), Tick(1100), TxUpdate(0, 0, Cond::Id(2), vec![(1, 0)]), CleanupLocks, Tick(1100), CleanupTxs,
              TxUpdate(1, 0, Cond::Id(2), vec![(0, 5)]), TxUpdate(1, 0, Cond::Id(1), vec![(1, 5)]), Commit(0), Commit(1), Sweep]);
    out.push(("partial_expiry_sweep_then_tx_timeout", mid_tx, s));
    // neighbours.  (a) three generations of locks, a sweep after each tick, an insert among them; (b) the sweep finds ALL of
    // the owner's locks expired, the owner locks again afterwards (a fresh list) and ends; (c) the sweep finds nothing
    // expired; (d) two owners, each partly expired, a row locked twice by one statement after the other (the key is
    // listed twice), the second owner takes an expired row of the first over after the sweep, the first ends, then the
    // second; (e) takeover BEFORE the sweep: the old holder's list still names the row that is now somebody else's
    let mut s = base(true);
    s.extend([Begin(0), TxUpdate(0, 0, Cond::Id(1), vec![(0, 4)]), Tick(1100), CleanupLocks, TxInsert(0, 0, vec![4, 4]), TxDelete(0, 0, Cond::Id(2)), Tick(1100), CleanupLocks,
              TxUpdate(0, 0, Cond::Id(3), vec![(1, 1)]), Begin(1), TxUpdate(1, 0, Cond::Id(4), vec![(0, 0)]), TxUpdate(1, 0, Cond::Id(1), vec![(0, 2)]), Rollback(0),
              TxUpdate(1, 0, Cond::All, vec![(1, 2)]), Commit(1), Sweep]);
    out.push(("partial_expiry_three_generations", mid, s));
    let mut s = base(true);
    s.extend([Begin(0), TxUpdate(0, 0, Cond::Id(1), vec![(0, 4)]), TxUpdate(0, 0, Cond::Id(2), vec![(0, 4)]), Tick(2100), CleanupLocks, TxUpdate(0, 0, Cond::Id(3), vec![(0, 4)]),
              CleanupLocks, Commit(0), Begin(1), TxUpdate(1, 0, Cond::All, vec![(1, 2)]), Rollback(1), Sweep]);
    out.push(("full_expiry_sweep_then_relock_then_commit", mid, s));
    let mut s = base(true);
    s.extend([Begin(0), TxUpdate(0, 0, Cond::Id(1), vec![(0, 4)]), Tick(1100), TxUpdate(0, 0, Cond::Id(2), vec![(0, 4)]), CleanupLocks, Begin(1),
              TxUpdate(1, 0, Cond::Id(1), vec![(0, 0)]), TxUpdate(1, 0, Cond::Id(2), vec![(0, 0)]), Rollback(0), TxUpdate(1, 0, Cond::All, vec![(1, 2)]), Commit(1), Sweep]);
    out.push(("sweep_with_nothing_expired_then_rollback", mid, s));
    let mut s = base(true);
    s.extend([Begin(0), Begin(1), TxUpdate(0, 0, Cond::Id(1), vec![(0, 4)]), TxUpdate(0, 0, Cond::Id(1), vec![(1, 4)]), TxUpdate(1, 0, Cond::Id(3), vec![(0, 5)]), Tick(1100),
              TxUpdate(0, 0, Cond::Id(2), vec![(0, 4)]), TxInsert(1, 0, vec![5, 5]), Tick(1100), CleanupLocks, TxUpdate(1, 0, Cond::Id(1), vec![(0, 0)]),
              TxUpdate(1, 0, Cond::Id(2), vec![(0, 0)]), Commit(0), TxUpdate(1, 0, Cond::Id(2), vec![(0, 0)]), Begin(2), TxUpdate(2, 0, Cond::Id(1), vec![(1, 1)]),
              TxUpdate(2, 0, Cond::Id(3), vec![(1, 1)]), Rollback(1), TxUpdate(2, 0, Cond::All, vec![(1, 3)]), Commit(2), Sweep]);
    out.push(("partial_expiry_two_owners_takeover_after_sweep", mid, s));
    let mut s = base(true);
    s.extend([Begin(0), TxUpdate(0, 0, Cond::Id(1), vec![(0, 4)]), Tick(1100), TxUpdate(0, 0, Cond::Id(2), vec![(0, 4)]), Tick(1100), Begin(1), TxUpdate(1, 0, Cond::Id(1), vec![(0, 0)]),
              CleanupLocks, Commit(0), TxUpdate(1, 0, Cond::Id(2), vec![(0, 0)]), Begin(2), TxUpdate(2, 0, Cond::Id(1), vec![(1, 1)]), TxUpdate(2, 0, Cond::Id(2), vec![(1, 1)]),
              Rollback(1), TxUpdate(2, 0, Cond::All, vec![(1, 3)]), Commit(2), Sweep]);
    out.push(("takeover_before_sweep_then_old_holder_commits", mid, s));
    // REGRESSION CASES OF REPAIRED DEFECTS, run first.
    // 6f865e8a — drop_table next to an open transaction that has written the table (`DdlModel.lean`,
    // `drop_table_refused_while_open_transaction_wrote_table`, `rollback_never_touches_table_created_after_own_writes`;
    // before the fix: `drop_table_ignores_open_transaction_witness`).  (a) the drop is refused with a lock conflict, the
    // re-creation with TableAlreadyExists, the rollback is clean and the drop is accepted afterwards; before the fix the
    // rollback found no table and failed; (b) before the fix a table created under the same name meanwhile got the undo
    // applied to ITS rows: committed row 1 overwritten with the dropped table's old values, committed row 4 deleted;
    // (c) control: the open transaction wrote ANOTHER table — drop, re-create, rollback are all accepted and clean.
    let mut s = base(false);
    s.extend([Begin(0), TxUpdate(0, 0, Cond::Id(1), vec![(0, 4)]), TxInsert(0, 0, vec![4, 4]), DropTable(0), Rollback(0), Sweep, DropTable(0), DropTable(0),
              RecreateTable(0), RecreateTable(0), Insert(0, vec![2, 2]), Sweep]);
    out.push(("drop_table_under_open_tx_then_rollback", long, s));
    let mut s = base(false);
    s.extend([Begin(0), TxUpdate(0, 0, Cond::Id(1), vec![(0, 4)]), TxDelete(0, 0, Cond::Id(2)), TxInsert(0, 0, vec![4, 4]), DropTable(0), RecreateTable(0),
              Insert(0, vec![5, 5]), Insert(0, vec![5, 0]), Insert(0, vec![0, 5]), Insert(0, vec![3, 2]), Sweep, Rollback(0), Sweep]);
    out.push(("drop_recreate_under_open_tx_then_rollback", long, s));
    let mut s = base(false);
    s.extend([CreateTable, Insert(1, vec![1, 1]), Begin(0), TxUpdate(0, 1, Cond::All, vec![(0, 2)]), TxSelect(0, 0, Cond::All), DropTable(0), RecreateTable(0),
              Insert(0, vec![5, 5]), TxInsert(0, 1, vec![3, 3]), Rollback(0), Begin(1), TxUpdate(1, 0, Cond::All, vec![(1, 1)]), Rollback(1), Sweep]);
    out.push(("drop_recreate_table_untouched_by_open_tx", long, s));
    // the guard is the undo log, not the row locks: refused for every kind of write (update, delete, insert, a matched row
    // left unchanged), by whichever of two transactions wrote the table; accepted once the writers have ended — by commit
    // or by rollback — while a transaction that only READ the table is still open; unknown table
    let mut s = base(true);
    s.extend([Begin(0), Begin(1), Begin(2), TxSelect(2, 0, Cond::All), DropTable(9), TxUpdate(0, 0, Cond::Id(2), vec![(1, 2)]), DropTable(0),
              TxDelete(1, 0, Cond::Id(3)), DropTable(0), Commit(0), DropTable(0), TxInsert(1, 0, vec![4, 4]), Rollback(1), Sweep, DropTable(0), Sweep,
              TxSelect(2, 0, Cond::All), TxInsert(2, 0, vec![1, 1]), RecreateTable(0), TxInsert(2, 0, vec![1, 1]), DropTable(0), Commit(2), DropTable(0), Sweep]);
    out.push(("drop_table_refused_until_writers_end", long, s));
    // 6992261a — the in-memory b-tree maps go with the table (`recreated_table_index_answers_exact`; before the fix:
    // `drop_table_keeps_btree_map_witness`): indexes on c0 (hash + b-tree) and c1 (b-tree), three rows; drop, re-create,
    // new rows, the same indexes again: every range answer through the new b-tree indexes is the filter of the scan
    // (before the fix the dropped table's keys were still filed under the name and rows came back twice)
    let mut s = base(true);
    s.extend([Sweep, DropTable(0), RecreateTable(0), Insert(0, vec![5, 5]), Insert(0, vec![1, 0]), CreateBtree(0, 0), Sweep, CreateIndex(0, 0),
              Insert(0, vec![2, 2]), CreateBtree(0, 1), Sweep, Begin(0), TxUpdate(0, 0, Cond::All, vec![(0, 3)]), TxDelete(0, 0, Cond::Id(2)), Sweep, Rollback(0), Sweep,
              DropTable(0), RecreateTable(0), CreateBtree(0, 1), Insert(0, vec![0, 0]), Sweep]);
    out.push(("drop_recreate_then_create_btree_index", long, s));
    // FIRST (no sleeps): a transactional UPDATE that writes an INDEXED column back with the value the row already holds
    // (ORM-style "write all columns"), then rollback — `undo_update_keeps_index_exact`: the undo entry has
    // old value == new value, and the row must still be found through the hash index (Eq) and the b-tree index (ranges)
    // exactly as by the full scan (index oracle after every statement).  c0 hash-indexed, c1 b-tree-indexed.
    let sv_base = || vec![CreateTable, CreateIndex(0, 0), CreateBtree(0, 1), Insert(0, vec![1, 3]), Insert(0, vec![1, 5]), Insert(0, vec![2, 4])];
    for (name, body) in [
        // the seed demo's shape: both indexed columns rewritten unchanged
        ("same_value_update_rollback_hash_and_btree", vec![Begin(0), TxUpdate(0, 0, Cond::Id(2), vec![(0, 1), (1, 5)]), Sweep, Rollback(0), Sweep]),
        ("same_value_update_rollback_hash_only", vec![Begin(0), TxUpdate(0, 0, Cond::Id(2), vec![(0, 1)]), Rollback(0), Sweep]),
        ("same_value_update_rollback_btree_only", vec![Begin(0), TxUpdate(0, 0, Cond::Id(2), vec![(1, 5)]), Rollback(0), Sweep]),
        // same value on one of two updated columns
        ("same_value_on_hash_column_other_changes", vec![Begin(0), TxUpdate(0, 0, Cond::Id(2), vec![(0, 1), (1, 2)]), Rollback(0), Sweep]),
        ("same_value_on_btree_column_other_changes", vec![Begin(0), TxUpdate(0, 0, Cond::Id(2), vec![(0, 4), (1, 5)]), Rollback(0), Sweep]),
        // several rows matched: rows 1 and 2 keep their value, row 3 changes
        ("same_value_update_many_rows", vec![Begin(0), TxUpdate(0, 0, Cond::All, vec![(0, 1)]), Sweep, Rollback(0), Sweep]),
        ("same_value_update_rows_by_index_lookup", vec![Begin(0), TxUpdate(0, 0, Cond::Eq(0, 1), vec![(0, 1), (1, 0)]), Rollback(0), Sweep]),
        // chains on one row inside the transaction
        ("same_value_then_changing_update", vec![Begin(0), TxUpdate(0, 0, Cond::Id(2), vec![(0, 1), (1, 5)]), TxUpdate(0, 0, Cond::Id(2), vec![(0, 3), (1, 0)]), Rollback(0), Sweep]),
        ("changing_then_same_value_update", vec![Begin(0), TxUpdate(0, 0, Cond::Id(2), vec![(0, 3), (1, 0)]), TxUpdate(0, 0, Cond::Id(2), vec![(0, 3), (1, 0)]), Rollback(0), Sweep]),
        ("same_value_update_then_delete", vec![Begin(0), TxUpdate(0, 0, Cond::Id(2), vec![(0, 1), (1, 5)]), TxDelete(0, 0, Cond::Id(2)), Rollback(0), Sweep]),
        ("insert_then_same_value_update", vec![Begin(0), TxInsert(0, 0, vec![4, 4]), TxUpdate(0, 0, Cond::Id(4), vec![(0, 4), (1, 4)]), Sweep, Rollback(0), Sweep]),
        // two transactions, the other one commits
        ("same_value_update_two_txs", vec![Begin(0), Begin(1), TxUpdate(0, 0, Cond::Id(2), vec![(0, 1), (1, 5)]), TxUpdate(1, 0, Cond::Id(1), vec![(0, 1), (1, 3)]),
                                           Commit(1), Rollback(0), Sweep]),
        // controls: a -> b then b -> a in one transaction; same-value update then COMMIT; non-transactional same-value update
        ("control_update_there_and_back_rollback", vec![Begin(0), TxUpdate(0, 0, Cond::Id(2), vec![(0, 4), (1, 0)]), TxUpdate(0, 0, Cond::Id(2), vec![(0, 1), (1, 5)]), Rollback(0), Sweep]),
        ("control_same_value_update_commit", vec![Begin(0), TxUpdate(0, 0, Cond::Id(2), vec![(0, 1), (1, 5)]), Commit(0), Sweep]),
        ("control_same_value_update_nontx", vec![Update(0, Cond::Id(2), vec![(0, 1), (1, 5)]), Sweep, Begin(0), TxUpdate(0, 0, Cond::Id(2), vec![(0, 0)]), Rollback(0), Sweep]),
    ] {
        let mut s = sv_base();
        s.extend(body);
        out.push((name, long, s));
    }
    // compound conditions: the rows a statement locks and changes are the rows the WHOLE condition matches — an `And`
    // narrows, an `Or` widens; a conflict on one matched row leaves every other matched row untouched and unlocked
    let mut s = base(true);
    s.extend([Begin(0), Begin(1),
              TxUpdate(0, 0, Cond::and(Cond::Eq(0, 1), Cond::Ge(1, 1)), vec![(1, 4)]),
              TxUpdate(1, 0, Cond::or(Cond::Eq(0, 1), Cond::Eq(0, 3)), vec![(1, 0)]),
              TxUpdate(1, 0, Cond::and(Cond::Ne(0, 1), Cond::or(Cond::Le(1, 2), Cond::Id(1))), vec![(1, 5)]),
              TxDelete(1, 0, Cond::and(Cond::Ne(0, 1), Cond::Gt(1, 2))),
              TxDelete(0, 0, Cond::or(Cond::Id(3), Cond::Lt(0, 0))),
              TxUpdate(0, 0, Cond::Ne(1, 9), vec![(0, 2)]),
              Update(0, Cond::and(Cond::Ge(0, 2), Cond::Le(0, 2)), vec![(1, 1)]),
              Delete(0, Cond::or(Cond::Id(1), Cond::Id(2))),
              Sweep, Rollback(1), TxUpdate(0, 0, Cond::or(Cond::Id(2), Cond::Id(3)), vec![(0, 0)]), Sweep, Rollback(0), Sweep]);
    out.push(("compound_condition_lock_set", long, s));
    // `And` answered through an index (left side hash, right side b-tree, both) before / after writes and rollback
    let mut s = sv_base();
    s.extend([Sweep, Begin(0), TxUpdate(0, 0, Cond::and(Cond::Eq(0, 1), Cond::Ge(1, 4)), vec![(0, 2), (1, 5)]),
              TxDelete(0, 0, Cond::and(Cond::Ne(0, 1), Cond::Le(1, 4))), TxInsert(0, 0, vec![2, 4]),
              TxSelect(0, 0, Cond::and(Cond::Eq(0, 2), Cond::Ge(1, 4))), TxSelect(0, 0, Cond::and(Cond::Ne(1, 3), Cond::Eq(0, 2))),
              Sweep, Rollback(0), Sweep]);
    out.push(("and_condition_through_index_rollback", long, s));
    // tx_select: an open transaction reads what `select` answers (its own and other transactions' uncommitted work
    // included); a committed / rolled-back / never-begun transaction id is refused
    let mut s = base(true);
    s.extend([Begin(0), TxSelect(0, 0, Cond::All), TxUpdate(0, 0, Cond::Id(1), vec![(0, 4)]), TxInsert(0, 0, vec![4, 4]),
              TxSelect(0, 0, Cond::and(Cond::Eq(0, 4), Cond::Ge(1, 0))), Begin(1), TxSelect(1, 0, Cond::Ge(0, 4)), TxSelect(1, 9, Cond::All),
              TxDelete(1, 0, Cond::Id(2)), TxSelect(0, 0, Cond::All), Commit(0), TxSelect(0, 0, Cond::All), TxSelect(1, 0, Cond::Eq(0, 4)),
              Rollback(1), TxSelect(1, 0, Cond::All), TxSelect(77, 0, Cond::All), Sweep]);
    out.push(("tx_select_open_and_finished", long, s));
    // every way a statement can fail: it fails as a whole, changes no row, no index entry, no lock
    let mut s = base(true);
    s.extend([Begin(0), TxUpdate(0, 0, Cond::Id(1), vec![(0, 4)]),
              TxInsert(0, 9, vec![1, 1]), TxInsert(0, 0, vec![1]), TxUpdate(0, 0, Cond::All, vec![(7, 1)]), TxUpdate(0, 9, Cond::All, vec![(0, 1)]),
              TxDelete(0, 9, Cond::All), Insert(0, vec![1]), Insert(9, vec![1, 1]), Update(9, Cond::All, vec![(0, 1)]),
              Update(0, Cond::All, vec![(7, 1)]), Delete(9, Cond::All), Begin(1),
              TxUpdate(1, 0, Cond::All, vec![(1, 0)]), TxDelete(1, 0, Cond::Ge(0, 0)), Update(0, Cond::All, vec![(1, 0)]), Delete(0, Cond::Ne(1, 9)),
              TxSelect(1, 0, Cond::All), Sweep, Rollback(0), Commit(1), Sweep]);
    out.push(("failed_statements_change_nothing", long, s));
    // values outside 0..5: negative numbers and both ends of i64 in hash buckets and b-tree keys
    let wide = Cfg { lock_secs: 30, tx_secs: 60, wide: true, nulls: false };
    let mut s = vec![CreateTable, CreateIndex(0, 0), CreateBtree(0, 0), CreateBtree(0, 1),
                     Insert(0, vec![i64::MIN, i64::MAX]), Insert(0, vec![-1, 0]), Insert(0, vec![0, -1]), Insert(0, vec![i64::MAX, i64::MIN]),
                     Insert(0, vec![-3, 2]), Sweep];
    s.extend([Begin(0), TxUpdate(0, 0, Cond::Lt(0, 0), vec![(0, i64::MAX)]), TxDelete(0, 0, Cond::and(Cond::Ge(1, 0), Cond::Ne(0, i64::MAX))),
              TxInsert(0, 0, vec![i64::MIN, i64::MIN]), TxUpdate(0, 0, Cond::Eq(0, i64::MAX), vec![(1, -3)]), Sweep, Rollback(0), Sweep,
              Begin(1), TxUpdate(1, 0, Cond::Id(1), vec![(0, -1), (1, -1)]), TxDelete(1, 0, Cond::Le(0, -3)), Commit(1), Sweep]);
    out.push(("extreme_values_hash_and_btree", wide, s));
    // NULL in indexed columns: c0 nullable (hash + b-tree), c1 not; rows stored with an omitted / explicit NULL; updates
    // NULL -> value and value -> NULL, delete by `= NULL`, an insert that leaves the nullable column out; a NULL for the
    // column that refuses it fails as a whole; rollback and commit; every Eq / range answer (NULL included) is swept
    let nul = Cfg { lock_secs: 30, tx_secs: 60, wide: false, nulls: true };
    for (name, end) in [("null_values_indexed_rollback", Rollback(0)), ("null_values_indexed_commit", Commit(0))] {
        let mut s = vec![CreateTableN(vec![0]), CreateIndex(0, 0), CreateBtree(0, 0), CreateBtree(0, 1),
                         Insert(0, vec![OMITV, 1]), Insert(0, vec![NULLV, 2]), Insert(0, vec![3, 3]), Insert(0, vec![1, NULLV]), Insert(0, vec![1, OMITV]), Sweep];
        s.extend([Begin(0), TxUpdate(0, 0, Cond::Id(1), vec![(0, 4)]), TxUpdate(0, 0, Cond::Id(3), vec![(0, NULLV)]),
                  TxSelect(0, 0, Cond::Eq(0, NULLV)), TxSelect(0, 0, Cond::Ne(0, NULLV)), TxSelect(0, 0, Cond::Le(0, NULLV)), Sweep,
                  TxDelete(0, 0, Cond::Eq(0, NULLV)), TxInsert(0, 0, vec![OMITV, 5]), TxInsert(0, 0, vec![NULLV, 0]), TxInsert(0, 0, vec![1, NULLV]),
                  TxUpdate(0, 0, Cond::All, vec![(1, NULLV)]), TxUpdate(0, 0, Cond::and(Cond::Ne(0, NULLV), Cond::Ge(1, 0)), vec![(0, NULLV)]),
                  TxUpdate(0, 0, Cond::Eq(0, NULLV), vec![(0, NULLV), (1, 2)]), Update(0, Cond::All, vec![(1, NULLV)]), Sweep, end, Sweep]);
        out.push((name, nul, s));
    }
    // batch_insert next to open transactions: it takes no lock and no transaction id, never conflicts, is refused as a
    // whole when one row is bad, and its rows are committed work that a later rollback of anybody leaves alone
    let mut s = base(true);
    s.extend([Begin(0), TxUpdate(0, 0, Cond::All, vec![(1, 4)]), TxInsert(0, 0, vec![4, 4]),
              BatchInsert(0, vec![vec![5, 5], vec![1, 0]]), BatchInsert(0, vec![vec![2, 2], vec![3]]), BatchInsert(0, vec![]), BatchInsert(9, vec![]),
              BatchInsert(9, vec![vec![1, 1]]), Begin(1), TxUpdate(1, 0, Cond::Ge(0, 5), vec![(0, 0)]), TxDelete(1, 0, Cond::Id(6)),
              TxUpdate(0, 0, Cond::Id(6), vec![(0, 1)]), TxSelect(0, 0, Cond::All), Sweep, Rollback(0), BatchInsert(0, vec![vec![0, 0]]), Sweep, Rollback(1), Sweep]);
    out.push(("batch_insert_beside_open_transactions", long, s));
    // both index kinds on the SAME column (hash c0 + b-tree c0 + b-tree c1)
    let mut s = base(true);
    s.extend([Begin(0), TxUpdate(0, 0, Cond::Id(1), vec![(0, 1)]), TxUpdate(0, 0, Cond::All, vec![(1, 2)]), Sweep, Rollback(0), Sweep]);
    out.push(("same_value_update_rollback_both_kinds_one_column", long, s));
    // lock takeover, then the OLD holder ends while the NEW holder is open (`release_keeps_foreign_locks`,
    // `taken_over_lock_survives_old_holder_end`).  A = h0 writes rows 1 and 3 and idles past the lock timeout (not the
    // transaction timeout); B = h1 takes row 1 over by update and row 3 by delete; A ends — commit | rollback |
    // cleanup_expired (lock 2 s / tx 3 s: A times out at 3.2 s while B's 1.1 s old locks are fresh); after every
    // statement the foreign-lock oracle requires B to still hold its rows; C = h2 and non-transactional statements on
    // B's rows must get a lock conflict; B's rollback puts back what B found; then C gets through.
    let slow = Cfg { lock_secs: 2, tx_secs: 3, wide: false, nulls: false };
    for (name, cfg, first_tick, end_a) in [
        ("takeover_old_holder_commits", short, 1100u64, vec![Commit(0)]),
        ("takeover_old_holder_rolls_back", short, 1100, vec![Rollback(0)]),
        ("takeover_old_holder_cleaned_up", slow, 2100, vec![Tick(1100), CleanupTxs, Commit(0)]),
    ] {
        let mut s = base(true);
        s.extend([Begin(0), TxUpdate(0, 0, Cond::Id(1), vec![(0, 4)]), TxUpdate(0, 0, Cond::Id(3), vec![(1, 0)]), Tick(first_tick),
                  Begin(1), TxUpdate(1, 0, Cond::Id(1), vec![(0, 5)]), TxDelete(1, 0, Cond::Id(3))]);
        s.extend(end_a);
        s.extend([Begin(2), TxUpdate(2, 0, Cond::Id(1), vec![(0, 0)]), TxDelete(2, 0, Cond::Id(1)), TxUpdate(2, 0, Cond::Id(3), vec![(0, 0)]),
                  TxUpdate(2, 0, Cond::All, vec![(1, 2)]), Update(0, Cond::Id(1), vec![(0, 0)]), Delete(0, Cond::Id(1)), Sweep,
                  Rollback(1), Sweep, TxUpdate(2, 0, Cond::Id(1), vec![(1, 3)]), Commit(2), Sweep]);
        out.push((name, cfg, s));
    }
    // basic: rollback of insert+update+delete with both index kinds on the same column
    let mut s = base(true);
    s.extend([Begin(0), TxInsert(0, 0, vec![4, 4]), TxUpdate(0, 0, Cond::Id(1), vec![(0, 5)]), TxDelete(0, 0, Cond::Id(2)),
              TxUpdate(0, 0, Cond::Id(4), vec![(0, 0), (1, 0)]), TxDelete(0, 0, Cond::Id(4)), Sweep, Rollback(0), Sweep]);
    out.push(("basic_rollback", long, s));
    let mut s = base(true);
    s.extend([Begin(0), TxInsert(0, 0, vec![4, 4]), TxUpdate(0, 0, Cond::Id(1), vec![(0, 5)]), TxDelete(0, 0, Cond::Id(2)), Commit(0), Sweep,
              Commit(0), Rollback(0), TxInsert(0, 0, vec![1, 1]), TxUpdate(0, 0, Cond::All, vec![(0, 1)]), TxDelete(0, 0, Cond::All), Sweep]);
    out.push(("basic_commit_then_reuse", long, s));
    // exclusion: B blocked on A's updated / deleted rows, non-transactional statements too
    let mut s = base(true);
    s.extend([Begin(0), Begin(1), TxUpdate(0, 0, Cond::Id(1), vec![(0, 4)]), TxDelete(0, 0, Cond::Id(2)),
              TxUpdate(1, 0, Cond::Id(1), vec![(0, 0)]), TxDelete(1, 0, Cond::Id(1)), TxUpdate(1, 0, Cond::Id(2), vec![(0, 0)]),
              TxUpdate(1, 0, Cond::All, vec![(1, 0)]), Update(0, Cond::Id(1), vec![(0, 0)]), Delete(0, Cond::All),
              TxUpdate(1, 0, Cond::Id(3), vec![(1, 5)]), TxUpdate(0, 0, Cond::Id(3), vec![(1, 0)]),
              Rollback(0), TxUpdate(1, 0, Cond::Id(1), vec![(0, 0)]), Commit(1), Sweep]);
    out.push(("exclusion", long, s));
    // hole 1: B deletes / updates a row A inserted and has not committed; rollbacks in both orders
    for (name, b_op, order) in [
        ("insert_hole_delete_rbA_rbB", TxDelete(1, 0, Cond::Id(4)), [Rollback(0), Rollback(1)]),
        ("insert_hole_delete_rbB_rbA", TxDelete(1, 0, Cond::Id(4)), [Rollback(1), Rollback(0)]),
        ("insert_hole_update_rbA_rbB", TxUpdate(1, 0, Cond::Id(4), vec![(0, 5)]), [Rollback(0), Rollback(1)]),
        ("insert_hole_update_rbB_rbA", TxUpdate(1, 0, Cond::Id(4), vec![(0, 5)]), [Rollback(1), Rollback(0)]),
        ("insert_hole_update_cmB_rbA", TxUpdate(1, 0, Cond::Id(4), vec![(0, 5)]), [Commit(1), Rollback(0)]),
        ("insert_hole_delete_rbA_cmB", TxDelete(1, 0, Cond::Id(4)), [Rollback(0), Commit(1)]),
    ] {
        let mut s = base(true);
        s.extend([Begin(0), Begin(1), TxInsert(0, 0, vec![4, 4]), b_op]);
        s.extend(order);
        s.push(Sweep);
        out.push((name, long, s));
    }
    // hole 2: an index created between a transaction's write and its rollback
    let mut s = base(false);
    s.extend([Begin(0), TxUpdate(0, 0, Cond::Id(1), vec![(0, 4)]), CreateIndex(0, 0), CreateBtree(0, 0), Sweep, Rollback(0), Sweep]);
    out.push(("index_created_during_tx_update", long, s));
    let mut s = base(false);
    s.extend([Begin(0), TxDelete(0, 0, Cond::Id(1)), CreateIndex(0, 0), CreateBtree(0, 0), Rollback(0), Sweep]);
    out.push(("index_created_during_tx_delete", long, s));
    let mut s = base(false);
    s.extend([Begin(0), TxInsert(0, 0, vec![4, 4]), CreateIndex(0, 0), CreateBtree(0, 0), Rollback(0), Sweep]);
    out.push(("index_created_during_tx_insert", long, s));
    let mut s = base(true);
    s.extend([Begin(0), TxUpdate(0, 0, Cond::Id(1), vec![(0, 4)]), DropIndex(0, 0), DropBtree(0, 0), CreateIndex(0, 0), CreateBtree(0, 0), Rollback(0), Sweep]);
    out.push(("index_recreated_during_tx", long, s));
    // hole 3: undo writes entries into an index that does not exist; a later create keeps them
    let mut s = vec![CreateTable, CreateIndex(0, 0), Insert(0, vec![1, 1])];
    s.extend([Begin(0), TxUpdate(0, 0, Cond::Id(1), vec![(0, 2)]), Rollback(0), Update(0, Cond::Id(1), vec![(0, 3)]), CreateBtree(0, 0), Sweep]);
    out.push(("undo_writes_missing_btree", long, s));
    let mut s = vec![CreateTable, CreateIndex(0, 0), Insert(0, vec![1, 1])];
    s.extend([Begin(0), TxDelete(0, 0, Cond::Id(1)), Rollback(0), Update(0, Cond::Id(1), vec![(0, 3)]), CreateBtree(0, 0), Sweep]);
    out.push(("undo_delete_writes_missing_btree", long, s));
    // timeouts
    let mut s = base(true);
    s.extend([Begin(0), Begin(1), TxUpdate(0, 0, Cond::Id(1), vec![(0, 4)]), TxUpdate(1, 0, Cond::Id(1), vec![(0, 5)]), Tick(1100),
              TxUpdate(1, 0, Cond::Id(1), vec![(0, 5)]), Commit(1), Rollback(0), Sweep]);
    out.push(("lock_expiry_then_rollback", short, s));
    // lock expiry, the other transaction DELETES and commits the row: the undo's restore_row fails (RollbackFailed)
    let mut s = base(true);
    s.extend([Begin(0), Begin(1), TxUpdate(0, 0, Cond::Id(1), vec![(0, 4)]), Tick(1100), TxDelete(1, 0, Cond::Id(1)), Commit(1), Rollback(0), Sweep]);
    out.push(("lock_expiry_delete_then_rollback", short, s));
    let mut s = base(true);
    s.extend([Begin(0), Begin(1), TxUpdate(0, 0, Cond::Id(1), vec![(0, 4)]), TxDelete(0, 0, Cond::Id(2)), Tick(1100), CleanupLocks,
              TxDelete(1, 0, Cond::Id(2)), TxUpdate(0, 0, Cond::Id(1), vec![(1, 0)]), TxUpdate(1, 0, Cond::Id(1), vec![(0, 5)]), Commit(0), Commit(1), Sweep]);
    out.push(("lock_expiry_cleanup_relock", short, s));
    let mut s = base(true);
    s.extend([Begin(0), TxUpdate(0, 0, Cond::Id(1), vec![(0, 4)]), TxInsert(0, 0, vec![5, 5]), Tick(1100), Begin(1), CleanupTxs,
              Commit(0), TxUpdate(1, 0, Cond::Id(1), vec![(0, 2)]), Rollback(1), Sweep]);
    out.push(("tx_expiry_cleanup", short_tx, s));
    // drop_table and timeouts: an expired row lock does not open the table for a drop (the writer's undo entries are
    // still there); a transaction removed by cleanup_expired no longer blocks it (its changes stay: known finding)
    let mut s = base(false);
    s.extend([Begin(0), TxUpdate(0, 0, Cond::Id(1), vec![(0, 4)]), Tick(1100), DropTable(0), CleanupLocks, DropTable(0), Rollback(0), DropTable(0), RecreateTable(0), Sweep]);
    out.push(("drop_table_refused_after_lock_expiry", short, s));
    let mut s = base(false);
    s.extend([Begin(0), TxUpdate(0, 0, Cond::Id(1), vec![(0, 4)]), Tick(1100), DropTable(0), CleanupTxs, DropTable(0), RecreateTable(0), Insert(0, vec![1, 1]), Rollback(0), Sweep]);
    out.push(("drop_table_accepted_after_tx_timeout_cleanup", short_tx, s));
    out
}

/// short timeout scripts: 2 transactions, writes, one or two ticks, sweeps
fn gen_timeout_script(rng: &mut Rng) -> (Cfg, Vec<Op>) {
    let cfg = if rng.chance(1, 3) { Cfg { lock_secs: 1, tx_secs: 1, wide: false, nulls: false } } else { Cfg { lock_secs: 1, tx_secs: 60, wide: false, nulls: false } };
    let mut ops = vec![Op::CreateTable, Op::CreateIndex(0, 0), Op::CreateBtree(0, 1)];
    for _ in 0..3 {
        ops.push(Op::Insert(0, gen_vals(rng, P6)));
    }
    ops.extend([Op::Begin(0), Op::Begin(1)]);
    let mut ticks = 0;
    let mut open = vec![0usize, 1];
    for _ in 0..rng.range(6, 10) {
        if open.is_empty() {
            break;
        }
        let h = *rng.pick(&open);
        match rng.below(12) {
            0..=4 => ops.push(Op::TxUpdate(h, 0, gen_cond(rng, 4, P6), gen_upd(rng, P6))),
            5 => ops.push(Op::TxDelete(h, 0, gen_cond(rng, 4, P6))),
            6 => ops.push(Op::TxInsert(h, 0, gen_vals(rng, P6))),
            7..=8 if ticks < 2 => {
                ops.push(Op::Tick(1100));
                ticks += 1;
            },
            9 => ops.push(Op::CleanupLocks),
            10 if cfg.tx_secs == 1 => ops.push(Op::CleanupTxs),
            11 => {
                ops.push(if rng.chance(1, 2) { Op::Commit(h) } else { Op::Rollback(h) });
                open.retain(|x| *x != h);
            },
            _ => ops.push(Op::Update(0, gen_cond(rng, 4, P6), gen_upd(rng, P6))),
        }
    }
    for h in open {
        ops.push(if rng.chance(1, 2) { Op::Rollback(h) } else { Op::Commit(h) });
    }
    ops.push(Op::Sweep);
    (cfg, ops)
}

/// random statements around the takeover skeleton: A writes, A's locks time out, B writes (often the same rows),
/// A ends while B is open (commit | rollback | timeout cleanup), C and non-transactional statements try B's rows,
/// B and C end in random order
fn gen_takeover_script(rng: &mut Rng) -> (Cfg, Vec<Op>) {
    let cleanup = rng.chance(1, 5);
    let cfg = if cleanup { Cfg { lock_secs: 2, tx_secs: 3, wide: false, nulls: false } } else { Cfg { lock_secs: 1, tx_secs: 60, wide: false, nulls: false } };
    let mut ops = vec![Op::CreateTable, Op::CreateIndex(0, 0), Op::CreateBtree(0, 1)];
    for _ in 0..3 {
        ops.push(Op::Insert(0, gen_vals(rng, P6)));
    }
    let write = |rng: &mut Rng, h: usize, wide: bool| -> Op {
        let c = if wide && rng.chance(1, 3) { Cond::All } else { gen_cond(rng, 4, P6) };
        match rng.below(8) {
            0..=4 => Op::TxUpdate(h, 0, c, gen_upd(rng, P6)),
            5..=6 => Op::TxDelete(h, 0, c),
            _ => Op::TxInsert(h, 0, gen_vals(rng, P6)),
        }
    };
    ops.push(Op::Begin(0));
    ops.push(Op::TxUpdate(0, 0, if rng.chance(1, 2) { Cond::All } else { gen_cond(rng, 3, P6) }, gen_upd(rng, P6)));
    for _ in 0..rng.below(3) {
        ops.push(write(rng, 0, true));
    }
    ops.push(Op::Tick(if cleanup { 2100 } else { 1100 }));
    if rng.chance(1, 4) {
        ops.push(Op::CleanupLocks);
    }
    ops.push(Op::Begin(1));
    for _ in 0..rng.range(1, 3) {
        ops.push(write(rng, 1, true));
    }
    if rng.chance(1, 3) {
        ops.push(write(rng, 0, false));
    }
    // the old holder ends while the new holder is open
    if cleanup {
        ops.extend([Op::Tick(1100), Op::CleanupTxs]);
    } else {
        ops.push(if rng.chance(1, 2) { Op::Commit(0) } else { Op::Rollback(0) });
    }
    ops.push(Op::Begin(2));
    for _ in 0..rng.range(1, 3) {
        ops.push(write(rng, 2, true));
    }
    if rng.chance(1, 2) {
        ops.push(if rng.chance(1, 2) { Op::Update(0, gen_cond(rng, 4, P6), gen_upd(rng, P6)) } else { Op::Delete(0, gen_cond(rng, 4, P6)) });
    }
    if rng.chance(1, 3) {
        ops.push(Op::CleanupLocks);
    }
    if rng.chance(1, 2) {
        ops.push(write(rng, 1, false));
    }
    let mut open = vec![1usize, 2];
    rng.shuffle(&mut open);
    for (n, h) in open.into_iter().enumerate() {
        ops.push(if rng.chance(1, 2) { Op::Rollback(h) } else { Op::Commit(h) });
        if n == 0 && rng.chance(1, 2) {
            let other = if h == 1 { 2 } else { 1 };
            ops.push(write(rng, other, true));
        }
    }
    ops.push(Op::Sweep);
    (cfg, ops)
}

/// lock sweeps in the middle of transactions' lives (lock timeout 2 s): 1-2 transactions take row locks in two or three
/// GENERATIONS separated by ticks of 1100 ms — mostly on distinct rows, sometimes the same row again —, so that at
/// 2200 ms the first generation has expired and the later ones have not; `cleanup_expired_locks` runs in that window
/// (5 scripts in 6; also once before anything has expired in 1 of 3); then the owners end — commit | rollback, or by the
/// transaction sweep (transaction timeout 3 s: second generation taken at 2200 ms, swept past at once, cleanup_expired at
/// 3300 ms) — and another transaction plus non-transactional statements write every row the owners had locked, row by
/// row (a leftover lock of an ended owner refuses them) and all at once
fn gen_expiry_sweep_script(rng: &mut Rng) -> (Cfg, Vec<Op>) {
    let by_tx_sweep = rng.chance(1, 5);
    let cfg = Cfg { lock_secs: 2, tx_secs: if by_tx_sweep { 3 } else { 60 }, wide: false, nulls: false };
    let mut ops = vec![Op::CreateTable, Op::CreateIndex(0, 0), Op::CreateBtree(0, 1)];
    let nrows = rng.range(4, 6) as u64;
    for _ in 0..nrows {
        ops.push(Op::Insert(0, gen_vals(rng, P6)));
    }
    let two = rng.chance(1, 2);
    ops.push(Op::Begin(0));
    if two {
        ops.push(Op::Begin(1));
    }
    let owners: Vec<usize> = if two { vec![0, 1] } else { vec![0] };
    // rows not yet locked by anybody, handed out to the generations
    let mut free: Vec<u64> = (1..=nrows).collect();
    rng.shuffle(&mut free);
    let mut locked: Vec<u64> = vec![];
    let mut next_id = nrows + 1;
    let generation = |rng: &mut Rng, ops: &mut Vec<Op>, free: &mut Vec<u64>, locked: &mut Vec<u64>, next_id: &mut u64| {
        for h in &owners {
            for _ in 0..rng.range(1, 2) {
                match (rng.below(8), free.pop()) {
                    (0, _) | (_, None) => {
                        ops.push(Op::TxInsert(*h, 0, gen_vals(rng, P6)));
                        locked.push(*next_id);
                        *next_id += 1;
                    },
                    (1..=2, Some(id)) => {
                        ops.push(Op::TxDelete(*h, 0, Cond::Id(id)));
                        locked.push(id);
                    },
                    (_, Some(id)) => {
                        ops.push(Op::TxUpdate(*h, 0, Cond::Id(id), gen_upd(rng, P6)));
                        locked.push(id);
                    },
                }
            }
        }
    };
    generation(rng, &mut ops, &mut free, &mut locked, &mut next_id);
    ops.push(Op::Tick(1100));
    if rng.chance(1, 3) {
        ops.push(Op::CleanupLocks);
    }
    if by_tx_sweep {
        // the third transaction begins late: it survives the transaction sweep
        ops.push(Op::Begin(2));
        ops.push(Op::Tick(1100));
        generation(rng, &mut ops, &mut free, &mut locked, &mut next_id);
    } else {
        generation(rng, &mut ops, &mut free, &mut locked, &mut next_id);
        if rng.chance(1, 4) {
            // a row of the first generation locked again by its owner's next statement: listed twice, young again
            let h = *rng.pick(&owners);
            ops.push(Op::TxUpdate(h, 0, Cond::Id(locked[0]), gen_upd(rng, P6)));
        }
        ops.push(Op::Tick(1100));
    }
    let swept = rng.chance(5, 6);
    if swept {
        ops.push(Op::CleanupLocks);
    }
    if !by_tx_sweep {
        if rng.chance(1, 3) {
            // a third generation after the sweep
            generation(rng, &mut ops, &mut free, &mut locked, &mut next_id);
        }
        ops.push(Op::Begin(2));
        if rng.chance(1, 3) {
            // while the owners are open: an expired row can be taken, a live one refuses
            ops.push(Op::TxUpdate(2, 0, Cond::Id(*rng.pick(&locked)), gen_upd(rng, P6)));
        }
    }
    // the owners end
    if by_tx_sweep {
        ops.extend([Op::Tick(1100), Op::CleanupTxs]);
        if rng.chance(1, 2) {
            ops.push(Op::CleanupLocks);
        }
    } else {
        let mut order = owners.clone();
        rng.shuffle(&mut order);
        for h in order {
            ops.push(if rng.chance(1, 2) { Op::Commit(h) } else { Op::Rollback(h) });
            if rng.chance(1, 4) {
                ops.push(Op::CleanupLocks);
            }
        }
    }
    // everybody else writes the rows the owners had locked
    let mut probe = locked.clone();
    rng.shuffle(&mut probe);
    for id in probe.into_iter().take(4) {
        ops.push(match rng.below(6) {
            0 => Op::Update(0, Cond::Id(id), gen_upd(rng, P6)),
            1 => Op::TxDelete(2, 0, Cond::Id(id)),
            _ => Op::TxUpdate(2, 0, Cond::Id(id), gen_upd(rng, P6)),
        });
    }
    ops.push(Op::TxUpdate(2, 0, Cond::All, gen_upd(rng, P6)));
    ops.push(if rng.chance(1, 2) { Op::Commit(2) } else { Op::Rollback(2) });
    ops.push(Op::Sweep);
    (cfg, ops)
}

/// Shrinker for scripts with real sleeps: rounds of single-statement removals, all candidates of a round run
/// concurrently on their own engines (real engine only, no model).  A round first tries to drop every statement whose
/// removal alone keeps the violation class at once, else the first of them.  Returns the script and its message.
fn shrink_sleepy(ops: &[Op], cfg: Cfg, class: &str, what: String) -> (Vec<Op>, String) {
    let run_all = |cands: Vec<Vec<Op>>| -> Vec<Option<String>> {
        let hs: Vec<std::thread::JoinHandle<Option<String>>> = cands.into_iter().map(|c| {
            let cls = class.to_string();
            std::thread::spawn(move || {
                let out = exec_script(&c, cfg, None);
                if out.discarded { None } else { out.violations.into_iter().find(|v| v.0 == cls).map(|v| v.1) }
            })
        }).collect();
        hs.into_iter().map(|h| h.join().unwrap_or(None)).collect()
    };
    let mut cur: Vec<Op> = ops.to_vec();
    let mut msg = what;
    for _round in 0..8 {
        if cur.len() <= 2 {
            break;
        }
        let cands: Vec<Vec<Op>> = (0..cur.len()).map(|i| cur.iter().enumerate().filter(|(j, _)| *j != i).map(|(_, o)| o.clone()).collect()).collect();
        let res = run_all(cands);
        let removable: Vec<usize> = res.iter().enumerate().filter(|(_, r)| r.is_some()).map(|(i, _)| i).collect();
        if removable.is_empty() {
            break;
        }
        if removable.len() > 1 {
            let all: Vec<Op> = cur.iter().enumerate().filter(|(j, _)| !removable.contains(j)).map(|(_, o)| o.clone()).collect();
            if let Some(Some(m)) = run_all(vec![all.clone()]).into_iter().next() {
                cur = all;
                msg = m;
                continue;
            }
        }
        let i = removable[0];
        msg = res[i].clone().unwrap_or(msg);
        cur.remove(i);
    }
    (cur, msg)
}

/// Scripts with real sleeps run concurrently, each on its own engine and its own model driver process (they spend
/// their time asleep).  A script discarded by the timing guard is retried twice.  Results in input order.
fn run_sleepers(driver: &str, jobs: Vec<(Cfg, Vec<Op>)>) -> Vec<Outcome> {
    let handles: Vec<std::thread::JoinHandle<Outcome>> = jobs
        .into_iter()
        .map(|(cfg, ops)| {
            let driver = driver.to_string();
            std::thread::spawn(move || {
                let mut out = Outcome::default();
                for _ in 0..3 {
                    let mut m = Model::spawn(&driver);
                    out = exec_script(&ops, cfg, Some(&mut m));
                    if !out.discarded {
                        break;
                    }
                }
                out
            })
        })
        .collect();
    handles.into_iter().map(|h| h.join().expect("sleeper thread panicked")).collect()
}

// ------------------------------------------------------------------ below statement granularity
//
// `tx_update` / `tx_delete` read their rows by a scan and only then take the row locks; since fcb86137 they read the
// locked rows again and work on what they find then.  The cases here put other transactions' committed work INTO that
// gap.  Through the yield sites `relational.tx_{update,delete}.after_scan` (23d1986f, cfg(neumann_verif)) the
// interleaving is forced deterministically by the scheduler and compared with the Lean model of the two halves
// (`RaceModel.lean`: scan_update / apply_update …, `second_half_is_safe_for_any_scan`).  Oracles on the real engine's
// own answers (regression of fcb86137 = `scan_before_lock_*_witness`): a rolled-back A leaves exactly the others'
// committed work (class relational_engine.tx_update|tx_delete/committed_write_lost_scan_before_lock), every index
// answer is the filter of the scan, a statement that fails has changed nothing.  A two-thread stress run is an extra.

struct RaceCase {
    name: &'static str,
    /// indexes: (column, is_btree)
    indexes: Vec<(usize, bool)>,
    rows: Vec<Vec<i64>>,
    /// A's statement: update (cond, SET list) or delete (cond)
    a_cond: Cond,
    a_upd: Option<Vec<(usize, i64)>>,
    /// non-transactional statements of somebody else, run between A's scan and A's locks
    gap: Vec<Op>,
    a_commits: bool,
}

fn race_cases() -> Vec<RaceCase> {
    let rows = || vec![vec![1, 1], vec![2, 2], vec![3, 3]];
    vec![
        RaceCase { name: "update_in_gap_then_rollback", indexes: vec![(0, false), (1, true)], rows: rows(),
                   a_cond: Cond::Ge(0, 0), a_upd: Some(vec![(1, 4)]), gap: vec![Op::Update(0, Cond::Id(1), vec![(0, 5)])], a_commits: false },
        RaceCase { name: "update_same_column_in_gap_then_rollback", indexes: vec![(0, false), (0, true)], rows: rows(),
                   a_cond: Cond::Id(1), a_upd: Some(vec![(0, 4)]), gap: vec![Op::Update(0, Cond::Id(1), vec![(0, 5)])], a_commits: false },
        RaceCase { name: "update_same_column_in_gap_then_commit", indexes: vec![(0, false), (0, true)], rows: rows(),
                   a_cond: Cond::Id(1), a_upd: Some(vec![(0, 4)]), gap: vec![Op::Update(0, Cond::Id(1), vec![(0, 5)])], a_commits: true },
        RaceCase { name: "delete_in_gap_then_update_rollback", indexes: vec![(0, false)], rows: rows(),
                   a_cond: Cond::All, a_upd: Some(vec![(1, 0)]), gap: vec![Op::Delete(0, Cond::Id(2))], a_commits: false },
        RaceCase { name: "delete_in_gap_then_delete_rollback", indexes: vec![(0, false), (1, true)], rows: rows(),
                   a_cond: Cond::Le(0, 2), a_upd: None, gap: vec![Op::Delete(0, Cond::Id(2)), Op::Update(0, Cond::Id(1), vec![(1, 5)])], a_commits: false },
        RaceCase { name: "row_leaves_condition_in_gap", indexes: vec![(0, false)], rows: rows(),
                   a_cond: Cond::Eq(0, 1), a_upd: Some(vec![(1, 4)]), gap: vec![Op::Update(0, Cond::Id(1), vec![(0, 3)])], a_commits: true },
        RaceCase { name: "control_nothing_in_gap", indexes: vec![(0, false), (1, true)], rows: rows(),
                   a_cond: Cond::Ge(0, 2), a_upd: Some(vec![(0, 0), (1, 4)]), gap: vec![Op::Insert(0, vec![4, 4])], a_commits: false },
    ]
}

fn race_image(eng: &RelationalEngine) -> Image {
    eng.select("t0", Condition::True).map(|r| World::conv_rows(&r)).unwrap_or_default().into_iter().collect()
}

/// every index-served answer of table t0 against the filter of its full scan; first wrong one
fn race_index_check(eng: &RelationalEngine, hc: &[usize], bc: &[usize]) -> Option<String> {
    let img = race_image(eng);
    for c in sweep_conds(hc, bc, P6) {
        let got = eng.select("t0", c.real()).map(|r| World::conv_rows(&r)).unwrap_or_default();
        let want: Vec<(u64, Vec<i64>)> = img.iter().filter(|(id, v)| c.holds(**id, v)).map(|(k, v)| (*k, v.clone())).collect();
        if got != want {
            return Some(format!("select t0 {} through the index = [{}], full scan + filter = [{}]", c.tok(), rows_tok(&got), rows_tok(&want)));
        }
    }
    None
}

/// One scheduled case.  Returns (hook seen, findings as (class, what), model disagreements).
fn run_race_case(case: &RaceCase, model: &mut Model) -> (bool, Vec<(String, String)>, Vec<(String, String, String)>) {
    use std::sync::{Arc, Mutex};
    let eng = Arc::new(RelationalEngine::with_config(RelationalConfig::default().with_lock_timeout_secs(30).with_transaction_timeout_secs(60)));
    let schema = Schema::new((0..NCOLS).map(|c| Column::new(format!("c{c}"), ColumnType::Int)).collect());
    eng.create_table("t0", schema).unwrap();
    let mut lines: Vec<String> = vec!["init 30000 60000".into(), format!("create_table {NCOLS}")];
    for (c, bt) in &case.indexes {
        if *bt { eng.create_btree_index("t0", &format!("c{c}")).unwrap(); } else { eng.create_index("t0", &format!("c{c}")).unwrap(); }
        lines.push(format!("{} 0 {c}", if *bt { "create_btree" } else { "create_index" }));
    }
    for r in &case.rows {
        eng.insert("t0", r.iter().enumerate().map(|(c, x)| (format!("c{c}"), Value::Int(*x))).collect()).unwrap();
        lines.push(format!("insert 0 {}", vals_tok(r)));
    }
    let hc: Vec<usize> = case.indexes.iter().filter(|i| !i.1).map(|i| i.0).collect();
    let bc: Vec<usize> = case.indexes.iter().filter(|i| i.1).map(|i| i.0).collect();
    let tx = eng.begin_transaction();
    let site = if case.a_upd.is_some() { "tx_update" } else { "tx_delete" };
    let a_res: Arc<Mutex<String>> = Arc::new(Mutex::new(String::new()));
    let b_res: Arc<Mutex<(Vec<String>, Image)>> = Arc::new(Mutex::new((vec![], Image::new())));
    let to_map = |u: &Vec<(usize, i64)>| -> HashMap<String, Value> { u.iter().map(|(c, x)| (format!("c{c}"), vreal(*x))).collect() };
    let (e1, r1, cond1, upd1) = (eng.clone(), a_res.clone(), case.a_cond.real(), case.a_upd.as_ref().map(to_map));
    let task_a: Box<dyn FnOnce() + Send> = Box::new(move || {
        let r = match upd1 {
            Some(u) => e1.tx_update(tx, "t0", cond1, u),
            None => e1.tx_delete(tx, "t0", cond1),
        };
        *r1.lock().unwrap() = match r {
            Ok(n) => format!("ok {n}"),
            Err(RelationalError::StorageError(_)) => "err storage".into(),
            Err(e) => format!("err {}", err_class(&e)),
        };
    });
    let (e2, r2, gap) = (eng.clone(), b_res.clone(), case.gap.clone());
    let task_b: Box<dyn FnOnce() + Send> = Box::new(move || {
        let mut out = vec![];
        for op in &gap {
            let r = match op {
                Op::Update(_, c, u) => e2.update("t0", c.real(), u.iter().map(|(c, x)| (format!("c{c}"), vreal(*x))).collect()).map(|n| format!("ok {n}")),
                Op::Delete(_, c) => e2.delete_rows("t0", c.real()).map(|n| format!("ok {n}")),
                Op::Insert(_, v) => e2.insert("t0", v.iter().enumerate().map(|(c, x)| (format!("c{c}"), vreal(*x))).collect()).map(|n| format!("ok {n}")),
                _ => Ok("skipped".to_string()),
            };
            out.push(r.unwrap_or_else(|e| format!("err {}", err_class(&e))));
        }
        let img = race_image(&e2);
        *r2.lock().unwrap() = (out, img);
    });
    // schedule: A up to the gap between its scan and its locks, then B to the end, then A to the end
    let mut reached = false;
    let trace = nverif::sched::run_threads(vec![task_a, task_b], |_, parked| {
        if parked.iter().any(|p| p.0 == 0 && p.1.ends_with(".after_scan")) {
            reached = true;
        }
        let want = if reached && parked.iter().any(|p| p.0 == 1) { 1 } else { 0 };
        parked.iter().position(|p| p.0 == want).unwrap_or(0)
    });
    let hook = trace.iter().any(|s| s.site.ends_with(".after_scan"));
    let mut findings: Vec<(String, String)> = vec![];
    let mut dis: Vec<(String, String, String)> = vec![];
    let a_result = a_res.lock().unwrap().clone();
    let (b_results, gap_image) = b_res.lock().unwrap().clone();
    if !hook {
        // the engine has no yield point there: A ran to its end before B started — nothing to judge
        let _ = eng.rollback(tx);
        return (false, findings, dis);
    }
    let script = format!("rows {:?}; A (open): {site} {} {}; in the gap between A's scan and A's locks: {:?} -> {:?}; then A's second half -> {a_result}; then A {}",
        case.rows, case.a_cond.tok(), case.a_upd.as_ref().map_or(String::new(), |u| upd_tok(u)),
        case.gap.iter().map(|o| o.show()).collect::<Vec<_>>(), b_results, if case.a_commits { "commits" } else { "rolls back" });
    // ---- the model of the two halves
    let mut ask = |m: &mut Model, q: String, real: Option<&str>| {
        let a = m.ask(&q);
        if let Some(r) = real {
            if a != r {
                dis.push((q, r.to_string(), a));
            }
        }
    };
    for l in &lines {
        ask(model, l.clone(), None);
    }
    let mtx = model.ask("begin").strip_prefix("ok ").unwrap_or("0").to_string();
    match &case.a_upd {
        Some(u) => ask(model, format!("scan_update {mtx} 0 {} {}", case.a_cond.tok(), upd_tok(u)), None),
        None => ask(model, format!("scan_delete {mtx} 0 {}", case.a_cond.tok()), None),
    }
    for (op, r) in case.gap.iter().zip(b_results.iter()) {
        // insert answers the row id on the wire
        ask(model, op.line(&|h| h.to_string()), Some(r.as_str()));
    }
    // the second half as the code is (fcb86137): the scanned ids are locked, the rows read again
    match &case.a_upd {
        Some(u) => ask(model, format!("apply_update {mtx} 0 {} {}", case.a_cond.tok(), upd_tok(u)), Some(a_result.as_str())),
        None => ask(model, format!("apply_delete {mtx} 0 {}", case.a_cond.tok()), Some(a_result.as_str())),
    }
    let img_tok = |eng: &RelationalEngine| {
        let rows: Vec<(u64, Vec<i64>)> = race_image(eng).into_iter().collect();
        format!("img {}|H:{}|B:{}", rows_tok(&rows), World::nats(&hc), World::nats(&bc))
    };
    ask(model, "image 0".into(), Some(img_tok(&eng).as_str()));
    // ---- oracles on the real engine
    if a_result.starts_with("err") && a_result != "err lock_conflict" && race_image(&eng) != gap_image {
        findings.push((format!("relational_engine.{site}/failed_statement_changed_rows_scan_before_lock"),
                       format!("{script}: the statement answered {a_result} after it had changed rows")));
    }
    let end = if case.a_commits { eng.commit(tx) } else { eng.rollback(tx) };
    let end_s = match &end { Ok(()) => "ok".to_string(), Err(e) => format!("err {}", err_class(e)) };
    ask(model, format!("{} {mtx}", if case.a_commits { "commit" } else { "rollback" }), Some(end_s.as_str()));
    ask(model, "image 0".into(), Some(img_tok(&eng).as_str()));
    for c in sweep_conds(&hc, &bc, P6) {
        let got = eng.select("t0", c.real()).map(|r| World::conv_rows(&r)).unwrap_or_default();
        ask(model, format!("select 0 {}", c.tok()), Some(format!("rows {}", rows_tok(&got)).as_str()));
    }
    if !case.a_commits {
        // "as if none of A's statements had run": the tables are what the others' committed work made of them
        let now = race_image(&eng);
        if now != gap_image || end.is_err() {
            findings.push((format!("relational_engine.{site}/committed_write_lost_scan_before_lock"),
                format!("{script} -> {end_s}: table is {:?}; the committed work of the others alone gives {:?}", now, gap_image)));
        }
    }
    if let Some(w) = race_index_check(&eng, &hc, &bc) {
        findings.push((format!("relational_engine.{site}/index_inconsistent_scan_before_lock"), format!("{script}: {w}")));
    }
    (true, findings, dis)
}

/// Without the hook: two real threads.  B commits `rounds` updates of column c1 of row 1 (each one a non-transactional
/// `update`); A keeps updating c0 of the same row inside a transaction and rolling back.  B is the only one whose work
/// is ever committed, so at the end c1 must be B's last successful value and the hash index on c1 must find the row.
fn race_stress(nrows: i64, rounds: i64) -> Option<String> {
    use std::sync::atomic::{AtomicBool, Ordering};
    use std::sync::Arc;
    let eng = Arc::new(RelationalEngine::new());
    let schema = Schema::new((0..NCOLS).map(|c| Column::new(format!("c{c}"), ColumnType::Int)).collect());
    eng.create_table("t0", schema).unwrap();
    eng.create_index("t0", "c1").unwrap();
    let rows: Vec<HashMap<String, Value>> = (0..nrows).map(|i| HashMap::from([("c0".to_string(), Value::Int(i)), ("c1".to_string(), Value::Int(0))])).collect();
    let _ = eng.batch_insert("t0", rows).unwrap();
    let stop = Arc::new(AtomicBool::new(false));
    let (e2, stop2) = (eng.clone(), stop.clone());
    let a = std::thread::spawn(move || {
        let mut n = 0u64;
        while !stop2.load(Ordering::Relaxed) {
            let tx = e2.begin_transaction();
            if e2.tx_update(tx, "t0", Condition::Eq("_id".into(), Value::Int(1)), HashMap::from([("c0".to_string(), Value::Int(-1))])).is_ok() {
                n += 1;
            }
            let _ = e2.rollback(tx);
        }
        n
    });
    let mut last = 0;
    for i in 1..=rounds {
        if eng.update("t0", Condition::Eq("_id".into(), Value::Int(1)), HashMap::from([("c1".to_string(), Value::Int(i))])).is_ok() {
            last = i;
        }
    }
    stop.store(true, Ordering::SeqCst);
    let a_ok = a.join().unwrap_or(0);
    let row = eng.select("t0", Condition::Eq("_id".into(), Value::Int(1))).ok()?;
    let c1 = match row.first().and_then(|r| r.get("c1")) { Some(Value::Int(x)) => *x, _ => i64::MIN };
    let via = eng.select("t0", Condition::Eq("c1".into(), Value::Int(last))).map(|r| r.iter().any(|x| x.id == 1)).unwrap_or(false);
    if c1 != last || !via {
        Some(format!("two threads on a {nrows}-row table: B committed {rounds} non-transactional updates of row 1 (last value {last}); A ran {a_ok} \
                      tx_update + rollback on the same row; afterwards c1 of row 1 = {c1} (committed updates lost by A's rollbacks) and the hash \
                      index on c1 {} the row under {last}", if via { "finds" } else { "does not find" }))
    } else {
        None
    }
}

// ------------------------------------------------------------------ `_id` indexes (real engine only)
//
// A hash / b-tree index on the system column `_id` is maintained by special cases of tx_insert, tx_delete and the
// undo (the value is the row id, not a stored column).  Not in the Lean model; the index oracle needs no model:
// every `_id = k` (hash) and `_id <=/>= k` (b-tree) answer must be the filter of the full scan — before, inside and
// after transactions that insert, update, delete and then roll back or commit.

fn id_index_stream(rep: &mut Report, seed_rng: &mut Rng, n: usize) {
    let id_conds = |maxid: i64| -> Vec<Condition> {
        let mut v = vec![];
        for k in 0..=maxid + 1 {
            v.push(Condition::Eq("_id".into(), Value::Int(k)));
            v.push(Condition::Le("_id".into(), Value::Int(k)));
            v.push(Condition::Ge("_id".into(), Value::Int(k)));
            v.push(Condition::Gt("_id".into(), Value::Int(k)).and(Condition::Ne("c0".into(), Value::Int(0))));
        }
        v
    };
    let holds = |c: &Condition, id: u64, vals: &[i64]| -> bool {
        fn go(c: &Condition, id: i64, vals: &[i64]) -> bool {
            let get = |col: &str| -> Option<i64> { if col == "_id" { Some(id) } else { col.trim_start_matches('c').parse::<usize>().ok().and_then(|i| vals.get(i).copied()) } };
            let int = |v: &Value| if let Value::Int(i) = v { Some(*i) } else { None };
            match c {
                Condition::True => true,
                Condition::Eq(col, v) => get(col).is_some() && get(col) == int(v),
                Condition::Ne(col, v) => get(col) != int(v),
                Condition::Le(col, v) => get(col).zip(int(v)).is_some_and(|(a, b)| a <= b),
                Condition::Ge(col, v) => get(col).zip(int(v)).is_some_and(|(a, b)| a >= b),
                Condition::Lt(col, v) => get(col).zip(int(v)).is_some_and(|(a, b)| a < b),
                Condition::Gt(col, v) => get(col).zip(int(v)).is_some_and(|(a, b)| a > b),
                Condition::And(a, b) => go(a, id, vals) && go(b, id, vals),
                Condition::Or(a, b) => go(a, id, vals) || go(b, id, vals),
                _ => false,
            }
        }
        go(c, id as i64, vals)
    };
    for case in 0..n {
        let mut rng = seed_rng.fork(&format!("id{case}"));
        let eng = RelationalEngine::new();
        let schema = Schema::new((0..NCOLS).map(|c| Column::new(format!("c{c}"), ColumnType::Int)).collect());
        eng.create_table("t0", schema).unwrap();
        let mut script: Vec<String> = vec![];
        let early = case % 2 == 0;
        let mk = |eng: &RelationalEngine, script: &mut Vec<String>| {
            script.push("create_index _id; create_btree_index _id".into());
            (eng.create_index("t0", "_id").is_ok(), eng.create_btree_index("t0", "_id").is_ok())
        };
        if early {
            mk(&eng, &mut script);
        }
        for _ in 0..rng.range(2, 4) {
            let v = gen_vals(&mut rng, P6);
            script.push(format!("insert {}", vals_tok(&v)));
            let _ = eng.insert("t0", v.iter().enumerate().map(|(c, x)| (format!("c{c}"), Value::Int(*x))).collect());
        }
        if !early {
            mk(&eng, &mut script);
        }
        let mut wrong: Option<String> = None;
        let check = |eng: &RelationalEngine, script: &Vec<String>, site: &str, wrong: &mut Option<String>| {
            if wrong.is_some() {
                return;
            }
            let img: Vec<(u64, Vec<i64>)> = eng.select("t0", Condition::True).map(|r| World::conv_rows(&r)).unwrap_or_default();
            let maxid = img.iter().map(|r| r.0).max().unwrap_or(0) as i64 + 2;
            for c in id_conds(maxid) {
                let got = eng.select("t0", c.clone()).map(|r| World::conv_rows(&r)).unwrap_or_default();
                let want: Vec<(u64, Vec<i64>)> = img.iter().filter(|(id, v)| holds(&c, *id, v)).cloned().collect();
                if got != want {
                    *wrong = Some(format!("{site}|after [{}]: select {c:?} = [{}], full scan + filter = [{}]", script.join("; "), rows_tok(&got), rows_tok(&want)));
                    return;
                }
            }
        };
        check(&eng, &script, "setup", &mut wrong);
        for round in 0..2 {
            let tx = eng.begin_transaction();
            script.push("begin".into());
            for _ in 0..rng.range(2, 5) {
                let id = 1 + rng.below(6) as i64;
                let (what, site) = match rng.below(4) {
                    0 => {
                        let v = gen_vals(&mut rng, P6);
                        let r = eng.tx_insert(tx, "t0", v.iter().enumerate().map(|(c, x)| (format!("c{c}"), Value::Int(*x))).collect());
                        (format!("tx_insert {} -> {:?}", vals_tok(&v), r.is_ok()), "tx_insert")
                    },
                    1 => {
                        let r = eng.tx_delete(tx, "t0", Condition::Le("_id".into(), Value::Int(id)).and(Condition::Ge("_id".into(), Value::Int(id - 1))));
                        (format!("tx_delete _id in [{}..{id}] -> {:?}", id - 1, r.ok()), "tx_delete")
                    },
                    2 => {
                        let r = eng.tx_update(tx, "t0", Condition::Eq("_id".into(), Value::Int(id)), HashMap::from([("c0".to_string(), Value::Int(rng.range(0, 5)))]));
                        (format!("tx_update _id={id} -> {:?}", r.ok()), "tx_update")
                    },
                    _ => {
                        let r = eng.tx_delete(tx, "t0", Condition::Eq("_id".into(), Value::Int(id)));
                        (format!("tx_delete _id={id} -> {:?}", r.ok()), "tx_delete")
                    },
                };
                script.push(what);
                check(&eng, &script, site, &mut wrong);
            }
            let site = if (case + round) % 2 == 0 {
                script.push(format!("rollback -> {:?}", eng.rollback(tx).is_ok()));
                "rollback"
            } else {
                script.push(format!("commit -> {:?}", eng.commit(tx).is_ok()));
                "commit"
            };
            check(&eng, &script, site, &mut wrong);
        }
        rep.case("id_index", Some(&script.join("|")));
        rep.hit("id_index_script");
        if let Some(w) = wrong {
            let (site, what) = w.split_once('|').unwrap_or(("select", w.as_str()));
            rep.violation(&format!("relational_engine.{site}/id_index_answer_wrong"), what, json!({"script": script}));
        }
    }
}

/// PROBE (real engine only, an observation — not part of the modelled statement set): `create_index` /
/// `create_btree_index` by somebody else in the gap between A's scan and A's locks.  `tx_update` reads the table's index
/// lists BEFORE its scan, so an index created in the gap is not maintained by A's second half.  Index DDL concurrent with
/// a running statement is outside the model's statement set (`calm` covers index DDL between statements only); what the
/// probe sees is recorded with `rep.observe` for the coordinator to decide.
fn race_ddl_probe(rep: &mut Report) {
    use std::sync::Arc;
    for btree in [false, true] {
        let eng = Arc::new(RelationalEngine::with_config(RelationalConfig::default().with_lock_timeout_secs(30).with_transaction_timeout_secs(60)));
        let schema = Schema::new((0..NCOLS).map(|c| Column::new(format!("c{c}"), ColumnType::Int)).collect());
        eng.create_table("t0", schema).unwrap();
        for r in [[1i64, 1], [2, 2]] {
            eng.insert("t0", r.iter().enumerate().map(|(c, x)| (format!("c{c}"), Value::Int(*x))).collect()).unwrap();
        }
        let tx = eng.begin_transaction();
        let e1 = eng.clone();
        let task_a: Box<dyn FnOnce() + Send> = Box::new(move || {
            let _ = e1.tx_update(tx, "t0", Condition::Eq("_id".into(), Value::Int(1)), HashMap::from([("c1".to_string(), Value::Int(4))]));
        });
        let e2 = eng.clone();
        let task_b: Box<dyn FnOnce() + Send> = Box::new(move || {
            let _ = if btree { e2.create_btree_index("t0", "c1") } else { e2.create_index("t0", "c1") };
        });
        let mut reached = false;
        let trace = nverif::sched::run_threads(vec![task_a, task_b], |_, parked| {
            if parked.iter().any(|p| p.0 == 0 && p.1.ends_with(".after_scan")) {
                reached = true;
            }
            let want = if reached && parked.iter().any(|p| p.0 == 1) { 1 } else { 0 };
            parked.iter().position(|p| p.0 == want).unwrap_or(0)
        });
        if !trace.iter().any(|s| s.site.ends_with(".after_scan")) {
            let _ = eng.rollback(tx);
            rep.hit("race_ddl_probe:hook_absent");
            continue;
        }
        let _ = eng.commit(tx);
        let (hc, bc): (Vec<usize>, Vec<usize>) = if btree { (vec![], vec![1]) } else { (vec![1], vec![]) };
        match race_index_check(&eng, &hc, &bc) {
            Some(w) => {
                rep.hit(&format!("race_ddl_probe:{}:index_answer_wrong", if btree { "btree" } else { "hash" }));
                rep.observe(json!({"class": format!("relational_engine.tx_update/index_created_between_scan_and_lock_not_maintained:{}", if btree { "btree" } else { "hash" }),
                    "what": format!("rows [1,1],[2,2]; A: tx_update _id=1 set c1=4; in the gap between A's scan and A's locks somebody runs {} on c1; A's statement ends, A commits: {w} \
                                     (tx_update read the table's index lists before its scan)", if btree { "create_btree_index" } else { "create_index" }),
                    "inside_quantifier": "undecided: index DDL concurrent with a running statement (the model's statements are index DDL BETWEEN statements)"}));
            },
            None => rep.hit(&format!("race_ddl_probe:{}:clean", if btree { "btree" } else { "hash" })),
        }
    }
}

/// the scheduled cases (deterministic); returns whether the yield sites were there
fn race_scheduled(rep: &mut Report, model: &mut Model, tally: &mut Tally) -> bool {
    let mut hook_seen = false;
    for case in race_cases() {
        let (hook, findings, dis) = run_race_case(&case, model);
        rep.case("race", if hook { Some(case.name) } else { None });
        rep.hit(&format!("race:{}:{}", case.name, if hook { "scheduled" } else { "hook_absent" }));
        hook_seen |= hook;
        for (q, imp, mdl) in dis {
            rep.disagree("race.split_statement", json!({"case": case.name, "query": q}), &imp, &mdl);
        }
        for (class, what) in findings {
            rep.hit(&format!("violation:{class}"));
            let n = tally.per_class.entry(class.clone()).or_insert(0);
            *n += 1;
            if *n > 2 {
                continue;
            }
            rep.violation(&class, &what, json!({
                "case": case.name,
                "setup": {"table": "t0 (c0, c1 Int)", "indexes": case.indexes.iter().map(|(c, bt)| format!("{} on c{c}", if *bt { "b-tree" } else { "hash" })).collect::<Vec<_>>(),
                          "rows": case.rows},
                "A": format!("begin; {} t0 {} {}", if case.a_upd.is_some() { "tx_update" } else { "tx_delete" }, case.a_cond.tok(),
                             case.a_upd.as_ref().map_or(String::new(), |u| upd_tok(u))),
                "schedule": "A runs to the yield site relational.tx_update.after_scan / relational.tx_delete.after_scan (rows read, locks not yet held); \
                             then the statements of `in_the_gap` run to their end (each one non-transactional, i.e. committed); then A's statement \
                             runs to its end; then A ends",
                "in_the_gap": case.gap.iter().map(|o| o.show()).collect::<Vec<_>>(),
                "A_ends_by": if case.a_commits { "commit" } else { "rollback" },
            }));
        }
    }
    if !hook_seen {
        rep.note("the yield sites relational.tx_{update,delete}.after_scan (23d1986f) are not in this tree: the scheduled scan-before-lock cases did NOT run; \
                  only the two-thread stress run looks at the gap between a statement's scan and its row locks");
    }
    hook_seen
}

/// the stress run (real threads, no scheduler): cheap, not deterministic — an extra beside the scheduled cases
fn race_stress_stream(rep: &mut Report, thorough: bool, hook_seen: bool) {
    let (nrows, rounds) = if thorough { (4000, 400) } else { (2000, 120) };
    rep.case("race", None);
    match race_stress(nrows, rounds) {
        Some(what) => {
            rep.hit("race_stress:lost_update_seen");
            rep.violation("relational_engine.tx_update/committed_write_lost_scan_before_lock", &what,
                          json!({"case": "two_thread_stress", "rows": nrows, "committed_updates_by_B": rounds, "deterministic": false,
                                 "scheduled_cases_ran": hook_seen}));
        },
        None => rep.hit("race_stress:clean"),
    }
}

// ------------------------------------------------------------------ statements that fail part-way (b-tree entry cap)
//
// `CapModel.lean`: every step inside a row of tx_insert / tx_update / tx_delete returns with `?`; the one that can fail in
// an in-memory engine is `btree_index_add` at `RelationalConfig::max_btree_entries` (ResultTooLarge), which strikes AFTER
// the row's hash-index moves and the removal of its old b-tree entry.  The scripts below run on engines with a cap of a
// few keys, so such failures actually occur, and follow them by rollback and the full index sweep.
//
// Oracles on the real engine's own answers (independent of the model):
//   * a rollback that answers Ok restores the pre-image of every row the transaction touched — also rows matched by a
//     statement that failed part-way — and after it every index-served answer (Eq through each hash index, the ranges
//     through each b-tree index) is the filter of the full scan: classes
//     relational_engine.rollback/index_entry_not_restored_after_failed_statement, …/duplicate_row_in_index_answer_after_failed_statement,
//     …/row_not_restored_after_failed_statement (the transaction had a statement refused at the cap), and the generic
//     …/index_answer_missing_row, …/row_not_restored otherwise;
//   * a non-transactional update / delete refused at the cap has rolled itself back: no row changed, every index answer
//     exact (relational_engine.update/failed_statement_changed_rows, …/index_entry_not_restored_after_failed_statement);
//   * a tx_update / tx_delete that fails changes no row content (…/failed_statement_changed_rows);
//   * a rollback refuses (RollbackFailed) only when somebody else wrote between the transaction's first write and its
//     rollback (relational_engine.rollback/failed_without_interference);
//   * the index sweep runs after EVERY statement; the rows a refused statement matched are left out of it while that
//     transaction is open (their index entries are legitimately half-moved until it rolls back) and come back in at its
//     rollback.
// Behaviour of the UNCHANGED code that these scripts expose and that is recorded with `observe` (candidate findings, see
// the end of `main`), with the affected rows left out of later sweeps: a refused tx_insert / insert leaves its row behind;
// a rollback whose re-insertion of a b-tree key is refused at the cap because another writer used the freed capacity;
// a commit after a refused statement makes the half-moved row permanent.

struct CapHd {
    open: bool,
    first_touch: BTreeMap<Key, Option<Vec<i64>>>,
    clobbered: BTreeSet<Key>,
    /// rows matched by statements of this transaction that were refused at the cap
    partial: BTreeSet<Key>,
    /// somebody else wrote (any table: the cap is engine wide) after this transaction's first write
    foreign_write: bool,
    /// the transaction wrote a row that a refused insert had left behind (alive, without its b-tree entry): what its
    /// statements and their undo do to the key count no longer cancel
    wrote_leftover_row: bool,
    /// the transaction went on writing a row that one of its own refused statements had left half-moved (old b-tree
    /// entry gone, slab row unchanged): the later statement's undo entry describes the slab row, not the index
    rewrote_half_moved_row: bool,
}

fn cap_json(cap: usize, ops: &[Op]) -> J {
    json!({"cfg": {"max_btree_entries": cap, "lock_timeout_secs": 30, "transaction_timeout_secs": 60},
           "script": ops.iter().map(|o| o.show()).collect::<Vec<_>>()})
}

/// Run a script on a fresh engine with `max_btree_entries = cap` (and on the model, told the same cap, when given).
fn exec_cap(ops: &[Op], cap: usize, mut model: Option<&mut Model>) -> Outcome {
    let cfg = Cfg { lock_secs: 30, tx_secs: 60, wide: false, nulls: false };
    let mut out = Outcome::default();
    let mut w = World::new_capped(cfg, Some(cap));
    if let Some(m) = model.as_deref_mut() {
        let a = m.ask(&format!("init {} {}", w.lock_ms, w.tx_ms));
        let b = m.ask(&format!("cap {cap}"));
        if a != "ok" || b != "ok" {
            out.disagreements.push(("stmt".into(), json!("init/cap"), "ok".into(), format!("{a} / {b}")));
            return out;
        }
    }
    let cmp = |out: &mut Outcome, stream: &str, step: usize, what: &str, imp: &str, mdl: &str| -> bool {
        *out.compared.entry(stream.to_string()).or_insert(0) += 1;
        if imp != mdl {
            let mut j = cap_json(cap, ops);
            j["at_step"] = json!(step);
            j["query"] = json!(what);
            out.disagreements.push((stream.to_string(), j, imp.to_string(), mdl.to_string()));
            false
        } else {
            true
        }
    };
    let mut diverged = false;
    macro_rules! mdl {
        () => {
            if diverged { None } else { model.as_deref_mut() }
        };
    }
    let mut hds: BTreeMap<usize, CapHd> = BTreeMap::new();
    // rows left out of the index sweeps for good (candidate findings of the unchanged code, recorded with `observe`)
    let mut taint: BTreeSet<Key> = BTreeSet::new();
    let mut idx_reported: BTreeSet<(usize, usize, bool)> = BTreeSet::new();
    for (step, op) in ops.iter().enumerate() {
        out.steps_done = step + 1;
        w.step_now = step;
        let before = w.images();
        let r_real = w.exec_real(op);
        let site = op.site();
        let after = w.images();
        // ---- model statement
        if !matches!(op, Op::Sweep) {
            if let Some(m) = mdl!() {
                let line = op.line(&|h| w.model_tx(h));
                let a = m.ask(&line);
                if let Op::Begin(h) = op {
                    let mid = a.strip_prefix("ok ").and_then(|x| x.parse::<u64>().ok());
                    let rid = r_real.strip_prefix("begin ").and_then(|x| x.parse::<u64>().ok());
                    match (mid, rid) {
                        (Some(mid), Some(rid)) => { w.handles.insert(*h, new_hd(rid, mid, 0)); },
                        _ => {
                            cmp(&mut out, "stmt", step, &line, &r_real, &a);
                            diverged = true;
                            if let Some(rid) = rid {
                                w.handles.insert(*h, new_hd(rid, 0, 0));
                            }
                        },
                    }
                } else if !cmp(&mut out, "stmt", step, &line, &r_real, &a) {
                    diverged = true;
                }
            } else if let Op::Begin(h) = op {
                if let Some(rid) = r_real.strip_prefix("begin ").and_then(|x| x.parse::<u64>().ok()) {
                    w.handles.insert(*h, new_hd(rid, 0, 0));
                }
            }
        }
        if let Op::Begin(h) = op {
            hds.insert(*h, CapHd { open: true, first_touch: BTreeMap::new(), clobbered: BTreeSet::new(), partial: BTreeSet::new(), foreign_write: false, wrote_leftover_row: false, rewrote_half_moved_row: false });
        }
        let ok = r_real.starts_with("ok") || r_real.starts_with("begin") || r_real.starts_with("rows");
        let too_large = r_real == "err too_large";
        out.hit(&format!("cap:op:{site}:{}", if ok { "ok".to_string() } else { r_real.replace("err ", "") }));

        // ---- diff of the real full-scan images
        let mut diff: Vec<(Key, Option<Vec<i64>>, Option<Vec<i64>>)> = vec![];
        for t in 0..before.len().min(after.len()) {
            let keys: BTreeSet<u64> = before[t].keys().chain(after[t].keys()).copied().collect();
            for k in keys {
                let (b, a) = (before[t].get(&k), after[t].get(&k));
                if b != a {
                    diff.push(((t, k), b.cloned(), a.cloned()));
                }
            }
        }
        if !diff.is_empty() {
            out.nontrivial = true;
        }
        let actor: Option<usize> = match op {
            Op::TxInsert(h, ..) | Op::TxUpdate(h, ..) | Op::TxDelete(h, ..) | Op::Commit(h) | Op::Rollback(h) => Some(*h),
            _ => None,
        };
        let actor_open = actor.is_some_and(|h| hds.get(&h).is_some_and(|x| x.open));
        // rows the statement's condition matched before it ran
        let matched: Vec<Key> = match op {
            Op::TxUpdate(_, t, c, _) | Op::TxDelete(_, t, c) | Op::Update(t, c, _) | Op::Delete(t, c) =>
                before.get(*t).map(|img| img.iter().filter(|(id, v)| c.holds(**id, v)).map(|(id, _)| (*t, *id)).collect()).unwrap_or_default(),
            _ => vec![],
        };
        let is_write = matches!(op, Op::TxInsert(..) | Op::TxUpdate(..) | Op::TxDelete(..) | Op::Insert(..) | Op::Update(..) | Op::Delete(..));
        if is_write && (too_large || (ok && (!diff.is_empty() || !matched.is_empty()))) {
            for (g, hd) in hds.iter_mut() {
                if Some(*g) != actor && hd.open && !hd.first_touch.is_empty() {
                    hd.foreign_write = true;
                }
            }
        }
        for (k, _, _) in &diff {
            for (g, hd) in hds.iter_mut() {
                if Some(*g) != actor && hd.open && hd.first_touch.contains_key(k) {
                    hd.clobbered.insert(*k);
                }
            }
        }
        // which rollback (explicit, or the one inside a refused non-transactional statement) has just run over a statement
        // that was refused at the cap
        let mut after_failed_statement = false;
        match op {
            Op::TxUpdate(h, ..) | Op::TxDelete(h, ..) => {
                if !actor_open && ok {
                    out.viol("relational_engine.tx/finished_tx_accepted".into(), format!("{} accepted for a transaction that is not open", op.show()), step);
                }
                if !ok && !diff.is_empty() {
                    out.viol(format!("relational_engine.{site}/failed_statement_changed_rows"),
                             format!("{} returned {r_real} but changed {:?}", op.show(), diff), step);
                }
                if actor_open && (ok || too_large) {
                    let hd = hds.get_mut(h).unwrap();
                    if matched.iter().any(|k| taint.contains(k)) {
                        hd.wrote_leftover_row = true;
                    }
                    if matched.iter().any(|k| hd.partial.contains(k)) {
                        hd.rewrote_half_moved_row = true;
                        out.hit("cap:transaction_went_on_writing_half_moved_row");
                    }
                    for k in &matched {
                        let pre = before.get(k.0).and_then(|img| img.get(&k.1)).cloned();
                        hd.first_touch.entry(*k).or_insert(pre);
                    }
                    for (k, pre, _) in &diff {
                        hd.first_touch.entry(*k).or_insert_with(|| pre.clone());
                    }
                    if too_large {
                        out.hit(&format!("cap:mid_row_failure:{site}"));
                        if matched.len() > 1 {
                            out.hit(&format!("cap:mid_row_failure:{site}:several_rows_matched"));
                        }
                        hd.partial.extend(matched.iter().copied());
                        // the refused statement holds the locks it took
                        for k in &matched {
                            if w.eng.tx_manager().row_lock_holder(&World::tname(k.0), k.1) == Some(w.real_tx(*h)) {
                                out.hit("cap:row_of_refused_statement_still_locked");
                            }
                        }
                    }
                }
            },
            _ => {},
        }
        match op {
            Op::TxInsert(_, t, _) | Op::Insert(t, _) => {
                let h = if let Op::TxInsert(h, ..) = op { Some(*h) } else { None };
                if h.is_some() && !actor_open && ok {
                    out.viol("relational_engine.tx/finished_tx_accepted".into(), format!("{} accepted for a transaction that is not open", op.show()), step);
                }
                if ok {
                    if let (Some(h), true) = (h, actor_open) {
                        let hd = hds.get_mut(&h).unwrap();
                        for (k, pre, _) in &diff {
                            hd.first_touch.entry(*k).or_insert_with(|| pre.clone());
                        }
                    }
                } else if too_large {
                    out.hit(&format!("cap:mid_row_failure:{site}"));
                    // CANDIDATE FINDING of the unchanged code (`failed_insert_leaves_row_witness`): tx_insert records its
                    // undo entry last, so the row of a refused insert stays — alive, in the hash indexes, not in the b-tree
                    for (k, pre, post) in &diff {
                        if k.0 == *t && pre.is_none() && post.is_some() {
                            taint.insert(*k);
                            out.hit("cap:observed:refused_insert_left_row");
                        } else {
                            out.viol(format!("relational_engine.{site}/failed_statement_changed_rows"),
                                     format!("{} returned {r_real} but changed {k:?}: {pre:?} -> {post:?}", op.show()), step);
                        }
                    }
                } else if !diff.is_empty() {
                    out.viol(format!("relational_engine.{site}/failed_statement_changed_rows"),
                             format!("{} returned {r_real} but changed {:?}", op.show(), diff), step);
                }
            },
            Op::Update(..) | Op::Delete(..) => {
                if too_large {
                    out.hit(&format!("cap:mid_row_failure:{site}"));
                    out.hit("cap:rollback_after_mid_row_failure:inside_non_transactional_statement");
                    after_failed_statement = true;
                }
                if !ok && !diff.is_empty() {
                    out.viol(format!("relational_engine.{site}/failed_statement_changed_rows"),
                             format!("{} returned {r_real} (and rolled its internal transaction back) but changed {:?}", op.show(), diff), step);
                }
            },
            Op::Commit(h) => {
                if !actor_open {
                    if ok {
                        out.viol("relational_engine.tx/finished_tx_accepted".into(), format!("{} accepted for a transaction that is not open", op.show()), step);
                    }
                } else {
                    if !ok {
                        out.viol("relational_engine.commit/open_tx_refused".into(), format!("{} -> {r_real}", op.show()), step);
                    }
                    if !diff.is_empty() {
                        out.viol("relational_engine.commit/changed_rows".into(), format!("commit changed rows {:?}", diff), step);
                    }
                    let hd = hds.get_mut(h).unwrap();
                    hd.open = false;
                    if !hd.partial.is_empty() {
                        // the half-moved index entries of the refused statement's row are now permanent
                        out.hit("cap:observed:commit_after_refused_statement");
                        taint.extend(hd.partial.iter().copied());
                    }
                    if let Some(x) = w.handles.get_mut(h) {
                        x.state = HState::Committed;
                    }
                }
            },
            Op::Rollback(h) => {
                if !actor_open {
                    if ok {
                        out.viol("relational_engine.tx/finished_tx_accepted".into(), format!("{} accepted for a transaction that is not open", op.show()), step);
                    }
                    if !diff.is_empty() {
                        out.viol("relational_engine.rollback/failed_statement_changed_rows".into(),
                                 format!("{} on a finished transaction changed {:?}", op.show(), diff), step);
                    }
                } else {
                    let hd = hds.get_mut(h).unwrap();
                    hd.open = false;
                    if let Some(x) = w.handles.get_mut(h) {
                        x.state = HState::RolledBack;
                    }
                    after_failed_statement = !hd.partial.is_empty();
                    if after_failed_statement {
                        out.hit("cap:rollback_after_mid_row_failure");
                    }
                    if !ok {
                        out.hit("cap:rollback_failed_returned");
                        if hd.wrote_leftover_row {
                            // consequence of the refused-insert observation: the undo of a delete / update of the leftover row
                            // adds a b-tree key the row never had
                            out.hit("cap:observed:rollback_refused_by_cap_after_writing_leftover_row");
                            taint.extend(hd.first_touch.keys().copied());
                        } else if hd.rewrote_half_moved_row {
                            // the undo entry of the later statement re-adds a key the index had already lost to the refused one
                            out.hit("cap:observed:rollback_refused_by_cap_after_rewriting_half_moved_row");
                            taint.extend(hd.first_touch.keys().copied());
                        } else if !hd.foreign_write {
                            out.viol("relational_engine.rollback/failed_without_interference".into(),
                                     format!("{} -> {r_real} although nobody else wrote anything between the transaction's first write and its rollback \
                                              (max_btree_entries = {cap})", op.show()), step);
                        } else {
                            // CANDIDATE FINDING of the unchanged code: the undo re-adds a b-tree key through the capped
                            // `btree_index_add`; another writer has used the capacity the transaction had freed
                            out.hit("cap:observed:rollback_refused_by_cap_after_foreign_write");
                            taint.extend(hd.first_touch.keys().copied());
                        }
                    }
                    // snapshot oracle: the slab part of the undo does not depend on the cap
                    for (k, pre) in &hd.first_touch {
                        if hd.clobbered.contains(k) {
                            continue;
                        }
                        let now_v = after.get(k.0).and_then(|img| img.get(&k.1)).cloned();
                        if &now_v != pre {
                            let class = if hd.partial.contains(k) { "row_not_restored_after_failed_statement" } else { "row_not_restored" };
                            out.viol(format!("relational_engine.rollback/{class}"),
                                     format!("row {k:?}: before the transaction's first write {pre:?}, after rollback {now_v:?}"), step);
                        }
                    }
                    for (k, b, a) in &diff {
                        if !hd.first_touch.contains_key(k) {
                            out.viol("relational_engine.rollback/untouched_row_changed".into(),
                                     format!("row {k:?} never written by the transaction changed {b:?} -> {a:?}"), step);
                        }
                    }
                }
            },
            _ => {},
        }

        // ---- whole state: model comparison + index oracle after EVERY statement
        let pending: BTreeSet<Key> = hds.values().filter(|hd| hd.open).flat_map(|hd| hd.partial.iter().copied()).collect();
        let ends = matches!(op, Op::Commit(_) | Op::Rollback(_) | Op::Sweep) || step + 1 == ops.len();
        let full = ends || too_large || matches!(op, Op::Insert(..) | Op::Update(..) | Op::Delete(..));
        for t in 0..w.ntables {
            let (hc, bc) = (w.hash_cols(t), w.btree_cols(t));
            if let Some(m) = mdl!() {
                let rows: Vec<(u64, Vec<i64>)> = after[t].iter().map(|(k, v)| (*k, v.clone())).collect();
                let img = format!("img {}|H:{}|B:{}", rows_tok(&rows), World::nats(&hc), World::nats(&bc));
                let a = m.ask(&format!("image {t}"));
                if !cmp(&mut out, "image", step, &format!("image {t}"), &img, &a) {
                    diverged = true;
                }
            }
            let skip = |id: &u64| taint.contains(&(t, *id)) || pending.contains(&(t, *id));
            for c in sweep_conds(&hc, &bc, P6) {
                let key = match c.served_by(&hc, &bc) {
                    Some((col, bt)) => (t, col, bt),
                    None => (t, usize::MAX, false),
                };
                let real = w.select_rows(t, &c);
                if let Ok(got_all) = &real {
                    let got: Vec<(u64, Vec<i64>)> = got_all.iter().filter(|r| !skip(&r.0)).cloned().collect();
                    let want: Vec<(u64, Vec<i64>)> = after[t].iter().filter(|(id, v)| !skip(id) && c.holds(**id, v)).map(|(k, v)| (*k, v.clone())).collect();
                    if after_failed_statement {
                        *out.counts.entry("cap:index_answer_checked_after_rollback_of_refused_statement").or_insert(0) += 1;
                    }
                    if got != want && !idx_reported.contains(&key) {
                        idx_reported.insert(key);
                        let ids: Vec<u64> = got.iter().map(|r| r.0).collect();
                        let mut uniq = ids.clone();
                        uniq.dedup();
                        let missing = want.iter().any(|r| !ids.contains(&r.0));
                        let dup = uniq.len() != ids.len();
                        let kind = match (after_failed_statement, missing, dup) {
                            (true, true, _) => "index_entry_not_restored_after_failed_statement",
                            (true, false, true) => "duplicate_row_in_index_answer_after_failed_statement",
                            (true, false, false) => "index_answer_wrong_after_failed_statement",
                            (false, true, _) => "index_answer_missing_row",
                            (false, false, true) => "duplicate_row_in_index_answer",
                            (false, false, false) => "index_answer_wrong",
                        };
                        let extra = if after_failed_statement {
                            format!("; the transaction rolled back by {} had a statement refused at the b-tree entry cap (max_btree_entries = {cap}) \
                                     part-way through a row: the index entries that statement had already moved must be put back", op.show())
                        } else {
                            String::new()
                        };
                        out.viol(format!("relational_engine.{site}/{kind}"),
                                 format!("select t{t} {} through the index = [{}], full scan + filter = [{}]{extra}", c.tok(), rows_tok(&got), rows_tok(&want)), step);
                    }
                }
                // the model mirrors the half-moved state of a refused statement entry by entry: same answers, every row
                let ask_model = full && (!matches!(c, Cond::And(..) | Cond::Or(..)) || ends);
                if ask_model {
                    if let Some(m) = mdl!() {
                        let real_s = match &real {
                            Ok(r) => format!("rows {}", rows_tok(r)),
                            Err(e) => format!("err {e}"),
                        };
                        let q = format!("select {t} {}", c.tok());
                        let a = m.ask(&q);
                        if !cmp(&mut out, "query", step, &q, &real_s, &a) {
                            diverged = true;
                        }
                    }
                }
            }
        }
        if full {
            let hs: Vec<(u64, u64)> = w.handles.values().map(|h| (h.real, h.model)).collect();
            for (real, mid) in hs {
                if let Some(m) = mdl!() {
                    let q = format!("held {mid}");
                    let a = m.ask(&q);
                    let r = format!("n {}", w.eng.tx_manager().locks_held_by(real));
                    if !cmp(&mut out, "locks", step, &q, &r, &a) {
                        diverged = true;
                    }
                }
            }
            if let Some(m) = mdl!() {
                let a = m.ask("nlocks");
                let r = format!("n {}", w.eng.tx_manager().active_lock_count());
                if !cmp(&mut out, "locks", step, "nlocks", &r, &a) {
                    diverged = true;
                }
            }
        }
    }
    out
}

fn absorb_cap(rep: &mut Report, tally: &mut Tally, stream: &str, cap: usize, ops: &[Op], out: Outcome) {
    let key: String = format!("cap{cap}|") + &ops.iter().map(|o| o.show()).collect::<Vec<_>>().join("|");
    rep.case(stream, if out.nontrivial { Some(&key) } else { None });
    for h in &out.hits {
        rep.hit(h);
    }
    for (k, n) in &out.compared {
        rep.hit_n(&format!("compared:{k}"), *n);
        rep.hit_n("cap:model_answers_compared", *n);
    }
    for (k, n) in &out.counts {
        rep.hit_n(k, *n);
    }
    for (s, input, imp, mdl) in out.disagreements {
        rep.disagree(&format!("{stream}.{s}"), input, &imp, &mdl);
    }
    for (class, what, step) in out.violations {
        let n = tally.per_class.entry(class.clone()).or_insert(0);
        *n += 1;
        rep.hit(&format!("violation:{class}"));
        if *n > 2 {
            continue;
        }
        let script: Vec<Op> = ops[..=step.min(ops.len() - 1)].to_vec();
        let cls = class.clone();
        let script = shrink_list(&script, &mut |cand: &[Op]| exec_cap(cand, cap, None).violations.iter().any(|v| v.0 == cls));
        let what2 = exec_cap(&script, cap, None).violations.into_iter().find(|v| v.0 == class).map(|v| v.1).unwrap_or(what);
        rep.violation(&class, &what2, cap_json(cap, &script));
    }
}

/// directed scripts on capped engines (run first)
fn cap_directed() -> Vec<(&'static str, usize, Vec<Op>)> {
    use Op::*;
    // table 0: hash and b-tree index on c0; rows 1 and 2 share the key 1, row 3 holds 2: two keys
    let shared = |hash: &[usize], bt: usize| {
        let mut v = vec![CreateTable];
        for c in hash {
            v.push(CreateIndex(0, *c));
        }
        v.push(CreateBtree(0, bt));
        v
    };
    let rows3 = |v: &mut Vec<Op>| {
        v.push(Insert(0, vec![1, 0]));
        v.push(Insert(0, vec![1, 0]));
        v.push(Insert(0, vec![2, 0]));
    };
    let mut out = vec![];
    // the minimal history: the b-tree is full (keys 1, 2), row 1 leaves a key it shares for a key that is new — the hash
    // entry has moved and the old b-tree entry is gone when btree_index_add refuses; rollback must put both back
    let mut s = shared(&[0], 0);
    rows3(&mut s);
    s.extend([Begin(0), TxUpdate(0, 0, Cond::Id(1), vec![(0, 3)]), Rollback(0), Sweep]);
    out.push(("cap_update_refused_mid_row_then_rollback", 2, s));
    // b-tree only / hash on both columns, both in the SET list
    let mut s = shared(&[], 0);
    rows3(&mut s);
    s.extend([Begin(0), TxUpdate(0, 0, Cond::Id(2), vec![(0, 4)]), Rollback(0), Sweep]);
    out.push(("cap_update_refused_btree_only_then_rollback", 2, s));
    let mut s = shared(&[0, 1], 1);
    s.extend([Insert(0, vec![0, 1]), Insert(0, vec![0, 1]), Insert(0, vec![5, 2]),
              Begin(0), TxUpdate(0, 0, Cond::Id(1), vec![(0, 4), (1, 3)]), Rollback(0), Sweep]);
    out.push(("cap_update_refused_after_two_hash_moves_then_rollback", 2, s));
    // several rows matched (the first one is refused), found through the index
    let mut s = shared(&[0], 0);
    rows3(&mut s);
    s.extend([Begin(0), TxUpdate(0, 0, Cond::Eq(0, 1), vec![(0, 5)]), Rollback(0), Sweep]);
    out.push(("cap_update_refused_several_rows_then_rollback", 2, s));
    // earlier statements of the same transaction, then the refused one, then another statement on the same row
    let mut s = shared(&[0], 0);
    rows3(&mut s);
    s.extend([Begin(0), TxUpdate(0, 0, Cond::Id(3), vec![(1, 4)]), TxDelete(0, 0, Cond::Id(2)), TxUpdate(0, 0, Cond::Id(1), vec![(0, 3)]),
              TxUpdate(0, 0, Cond::Id(1), vec![(0, 2)]), Rollback(0), Sweep]);
    out.push(("cap_refused_update_between_other_statements_then_rollback", 2, s));
    // the same row refused twice, and a delete of the half-moved row, then rollback
    let mut s = shared(&[0], 0);
    rows3(&mut s);
    s.extend([Begin(0), TxUpdate(0, 0, Cond::Id(1), vec![(0, 3)]), TxUpdate(0, 0, Cond::Id(1), vec![(0, 4)]), TxDelete(0, 0, Cond::Id(1)), Rollback(0), Sweep]);
    out.push(("cap_update_refused_twice_then_delete_then_rollback", 2, s));
    // the non-transactional statement rolls itself back
    let mut s = shared(&[0], 0);
    rows3(&mut s);
    s.extend([Update(0, Cond::Id(1), vec![(0, 3)]), Sweep, Update(0, Cond::All, vec![(0, 4)]), Sweep]);
    out.push(("cap_plain_update_refused_rolls_itself_back", 2, s));
    // two transactions: B's refused statement next to A's open work; both roll back
    let mut s = shared(&[0], 0);
    rows3(&mut s);
    s.extend([Begin(0), Begin(1), TxUpdate(0, 0, Cond::Id(3), vec![(1, 5)]), TxUpdate(1, 0, Cond::Id(1), vec![(0, 3)]),
              TxUpdate(0, 0, Cond::Id(2), vec![(0, 5)]), Rollback(1), Sweep, Rollback(0), Sweep]);
    out.push(("cap_two_transactions_each_refused_then_rollback", 2, s));
    // the cap is engine wide: the other table's tree holds the capacity
    let mut s = vec![CreateTable, CreateTable, CreateIndex(0, 0), CreateBtree(0, 0), CreateBtree(1, 1)];
    s.extend([Insert(1, vec![0, 1]), Insert(1, vec![0, 2]), Insert(0, vec![3, 0]), Insert(0, vec![3, 0]),
              Begin(0), TxUpdate(0, 0, Cond::Id(2), vec![(0, 4)]), Rollback(0), Sweep]);
    out.push(("cap_shared_by_two_tables_update_refused_then_rollback", 3, s));
    // controls: a move that frees the key it needs, a move to an existing key, a delete that frees capacity for an insert
    let mut s = shared(&[0], 0);
    rows3(&mut s);
    s.extend([Begin(0), TxUpdate(0, 0, Cond::Id(3), vec![(0, 3)]), TxUpdate(0, 0, Cond::Id(1), vec![(0, 3)]), Rollback(0), Sweep,
              Begin(1), TxDelete(1, 0, Cond::Id(3)), TxInsert(1, 0, vec![4, 4]), Commit(1), Sweep]);
    out.push(("cap_control_moves_within_capacity", 2, s));
    // refused statement, then COMMIT (observation: the half-moved row becomes permanent)
    let mut s = shared(&[0], 0);
    rows3(&mut s);
    s.extend([Begin(0), TxUpdate(0, 0, Cond::Id(1), vec![(0, 3)]), Commit(0), Sweep]);
    out.push(("cap_update_refused_then_commit", 2, s));
    // observations of the unchanged code: a refused insert leaves its row; capacity freed by A is used by somebody else
    let mut s = shared(&[0], 0);
    s.extend([Insert(0, vec![1, 0]), Begin(0), TxInsert(0, 0, vec![3, 0]), Rollback(0), Sweep, Insert(0, vec![4, 0]), Sweep]);
    out.push(("cap_insert_refused_then_rollback", 1, s));
    let mut s = shared(&[], 0);
    s.extend([Insert(0, vec![1, 0]), Insert(0, vec![2, 0]), Begin(0), TxDelete(0, 0, Cond::Id(1)), Insert(0, vec![3, 0]), Rollback(0), Sweep]);
    out.push(("cap_freed_capacity_used_by_other_writer_then_rollback", 2, s));
    out
}

/// what the generator believes the capped engine looks like (one b-tree column per table); used only to AIM statements
struct CapSim {
    rows: Vec<BTreeMap<u64, Vec<i64>>>,
    next_id: Vec<u64>,
    bcol: Vec<usize>,
    owner: BTreeMap<Key, usize>,
    undo: BTreeMap<usize, Vec<(Key, Option<Vec<i64>>)>>,
}

impl CapSim {
    fn keys(&self) -> usize {
        (0..self.rows.len()).map(|t| self.rows[t].values().map(|v| v[self.bcol[t]]).collect::<BTreeSet<i64>>().len()).sum()
    }
    fn free_rows(&self, h: Option<usize>, t: usize) -> Vec<(u64, Vec<i64>)> {
        self.rows[t].iter().filter(|(id, _)| self.owner.get(&(t, **id)).is_none_or(|o| Some(*o) == h)).map(|(id, v)| (*id, v.clone())).collect()
    }
    fn write(&mut self, h: Option<usize>, k: Key, new: Option<Vec<i64>>) {
        let old = self.rows[k.0].get(&k.1).cloned();
        if let Some(h) = h {
            self.undo.entry(h).or_default().push((k, old));
            self.owner.insert(k, h);
        }
        match new {
            Some(v) => { self.rows[k.0].insert(k.1, v); },
            None => { self.rows[k.0].remove(&k.1); },
        }
    }
    /// would `btree_index_add` of `v` in table `t` be refused once row `id` has left its key?
    fn refused(&self, cap: usize, t: usize, id: Option<u64>, v: i64) -> bool {
        let b = self.bcol[t];
        let mut rows = self.rows.clone();
        if let Some(id) = id {
            rows[t].remove(&id);
        }
        let sim = CapSim { rows, next_id: vec![], bcol: self.bcol.clone(), owner: BTreeMap::new(), undo: BTreeMap::new() };
        !sim.rows[t].values().any(|r| r[b] == v) && sim.keys() >= cap
    }
}

/// random script on a capped engine: 1-2 tables with hash indexes on any columns and ONE b-tree column each (which of
/// two b-tree columns the engine moves first is a HashSet's iteration order), committed rows that fill the b-tree to
/// the cap or one below it, then 2-3 interleaved transactions and non-transactional statements.  Half of the updates
/// are aimed at the cap: a row that shares its key with another row is moved to a key the tree does not have.
fn gen_cap_script(rng: &mut Rng, len: usize) -> (usize, Vec<Op>) {
    let nt = if rng.chance(1, 3) { 2 } else { 1 };
    let mut ops = vec![];
    let mut sim = CapSim { rows: vec![], next_id: vec![], bcol: vec![], owner: BTreeMap::new(), undo: BTreeMap::new() };
    for t in 0..nt {
        ops.push(Op::CreateTable);
        for c in 0..NCOLS {
            if rng.chance(3, 5) {
                ops.push(Op::CreateIndex(t, c));
            }
        }
        let b = rng.below(NCOLS as u64) as usize;
        ops.push(Op::CreateBtree(t, b));
        sim.rows.push(BTreeMap::new());
        sim.next_id.push(1);
        sim.bcol.push(b);
    }
    for t in 0..nt {
        // few distinct keys, shared by several rows
        let ks: Vec<i64> = (0..rng.range(1, 3)).map(|_| *rng.pick(P6)).collect();
        for _ in 0..rng.range(2, 5) {
            let mut v = gen_vals(rng, P6);
            v[sim.bcol[t]] = *rng.pick(&ks);
            ops.push(Op::Insert(t, v.clone()));
            let id = sim.next_id[t];
            sim.next_id[t] += 1;
            sim.write(None, (t, id), Some(v));
        }
    }
    let cap = sim.keys() + rng.below(2) as usize;
    let max_tx = rng.range(2, 3) as usize;
    let mut next_h = 0usize;
    let mut open: Vec<usize> = vec![];
    for _ in 0..len {
        let t = rng.below(nt as u64) as usize;
        let b = sim.bcol[t];
        let roll = rng.below(100);
        if open.is_empty() || (open.len() < max_tx && roll < 10) {
            ops.push(Op::Begin(next_h));
            sim.undo.insert(next_h, vec![]);
            open.push(next_h);
            next_h += 1;
            continue;
        }
        let h = *rng.pick(&open);
        // an update (by `who`) aimed at the cap, or a random one; applied to the simulation when it is expected to succeed
        let gen_update = |rng: &mut Rng, sim: &mut CapSim, who: Option<usize>| -> (Cond, Vec<(usize, i64)>) {
            let free = sim.free_rows(who, t);
            if !free.is_empty() && rng.chance(3, 5) {
                // aimed: prefer a row whose key is shared, move it to a key the table's tree does not hold
                let shared: Vec<&(u64, Vec<i64>)> = free.iter().filter(|(id, v)| sim.rows[t].iter().any(|(j, x)| j != id && x[b] == v[b])).collect();
                let (id, vals) = if !shared.is_empty() && rng.chance(3, 4) { (*rng.pick(&shared)).clone() } else { rng.pick(&free).clone() };
                let fresh: Vec<i64> = P6.iter().copied().filter(|x| !sim.rows[t].values().any(|r| r[b] == *x)).collect();
                let nv = if !fresh.is_empty() && rng.chance(3, 4) { *rng.pick(&fresh) } else { *rng.pick(P6) };
                let mut upd = vec![(b, nv)];
                if rng.chance(1, 3) {
                    upd.push(((b + 1) % NCOLS, *rng.pick(P6)));
                    upd.sort();
                }
                let cond = match rng.below(6) {
                    0..=3 => Cond::Id(id),
                    4 => Cond::Eq(b, vals[b]),
                    _ => Cond::Ge((b + 1) % NCOLS, vals[(b + 1) % NCOLS]),
                };
                (cond, upd)
            } else {
                (gen_cond(rng, sim.next_id[t], P6), gen_upd(rng, P6))
            }
        };
        let apply_update = |sim: &mut CapSim, who: Option<usize>, cond: &Cond, upd: &[(usize, i64)]| {
            let ids: Vec<u64> = sim.rows[t].iter().filter(|(id, v)| cond.holds(**id, v)).map(|(id, _)| *id).collect();
            if ids.iter().any(|id| sim.owner.get(&(t, *id)).is_some_and(|o| Some(*o) != who)) {
                return;
            }
            if let (Some(first), Some((_, nv))) = (ids.first(), upd.iter().find(|(c, _)| *c == b)) {
                if sim.refused(cap, t, Some(*first), *nv) {
                    return;
                }
            }
            for id in ids {
                let mut v = sim.rows[t][&id].clone();
                for (c, x) in upd {
                    v[*c] = *x;
                }
                sim.write(who, (t, id), Some(v));
            }
        };
        match roll {
            0..=39 => {
                let (c, u) = gen_update(rng, &mut sim, Some(h));
                apply_update(&mut sim, Some(h), &c, &u);
                ops.push(Op::TxUpdate(h, t, c, u));
            },
            40..=45 => {
                // mostly under a key the tree already has (a refused insert leaves its row behind — observation — and
                // the rows it leaves are out of the sweeps from then on)
                let mut v = gen_vals(rng, P6);
                let have: Vec<i64> = sim.rows[t].values().map(|r| r[b]).collect();
                if !have.is_empty() && rng.chance(3, 4) {
                    v[b] = *rng.pick(&have);
                }
                if !sim.refused(cap, t, None, v[b]) {
                    let id = sim.next_id[t];
                    sim.write(Some(h), (t, id), Some(v.clone()));
                }
                sim.next_id[t] += 1;
                ops.push(Op::TxInsert(h, t, v));
            },
            46..=57 => {
                let c = gen_cond(rng, sim.next_id[t], P6);
                let ids: Vec<u64> = sim.rows[t].iter().filter(|(id, v)| c.holds(**id, v)).map(|(id, _)| *id).collect();
                if !ids.iter().any(|id| sim.owner.get(&(t, *id)).is_some_and(|o| *o != h)) {
                    for id in ids {
                        sim.write(Some(h), (t, id), None);
                    }
                }
                ops.push(Op::TxDelete(h, t, c));
            },
            58..=75 => {
                if let Some(log) = sim.undo.remove(&h) {
                    for (k, old) in log.into_iter().rev() {
                        match old {
                            Some(v) => { sim.rows[k.0].insert(k.1, v); },
                            None => { sim.rows[k.0].remove(&k.1); },
                        }
                    }
                }
                sim.owner.retain(|_, o| *o != h);
                open.retain(|x| *x != h);
                ops.push(Op::Rollback(h));
            },
            76..=80 => {
                sim.undo.remove(&h);
                sim.owner.retain(|_, o| *o != h);
                open.retain(|x| *x != h);
                ops.push(Op::Commit(h));
            },
            81..=88 => {
                let (c, u) = gen_update(rng, &mut sim, None);
                apply_update(&mut sim, None, &c, &u);
                ops.push(Op::Update(t, c, u));
            },
            89..=91 => {
                let mut v = gen_vals(rng, P6);
                let have: Vec<i64> = sim.rows[t].values().map(|r| r[b]).collect();
                if !have.is_empty() && rng.chance(2, 3) {
                    v[b] = *rng.pick(&have);
                }
                if !sim.refused(cap, t, None, v[b]) {
                    let id = sim.next_id[t];
                    sim.write(None, (t, id), Some(v.clone()));
                }
                sim.next_id[t] += 1;
                ops.push(Op::Insert(t, v));
            },
            92..=94 => {
                let c = gen_cond(rng, sim.next_id[t], P6);
                let ids: Vec<u64> = sim.rows[t].iter().filter(|(id, v)| c.holds(**id, v)).map(|(id, _)| *id).collect();
                if !ids.iter().any(|id| sim.owner.contains_key(&(t, *id))) {
                    for id in ids {
                        sim.write(None, (t, id), None);
                    }
                }
                ops.push(Op::Delete(t, c));
            },
            95..=96 => ops.push(Op::TxSelect(h, t, gen_cond(rng, sim.next_id[t], P6))),
            _ => ops.push(Op::Sweep),
        }
    }
    rng.shuffle(&mut open);
    for h in open {
        ops.push(if rng.chance(3, 4) { Op::Rollback(h) } else { Op::Commit(h) });
    }
    ops.push(Op::Sweep);
    (cap, ops)
}

/// CANDIDATE FINDING probe (real engine only; `rollback_refused_by_cap_witness` (2)): with TWO b-tree columns in the SET list the
/// undo replays the recorded changes in recording order, so a rollback that nobody interfered with can be refused capacity
/// it freed itself.  Which column the engine moves first is a HashSet's iteration order: the probe repeats until the
/// forward statement went through in the order that shows it.
fn cap_two_btree_probe(rep: &mut Report) {
    let row = |a: i64, b: i64| -> HashMap<String, Value> { HashMap::from([("c0".to_string(), Value::Int(a)), ("c1".to_string(), Value::Int(b))]) };
    for _ in 0..24 {
        let eng = RelationalEngine::with_config(RelationalConfig::default().with_max_btree_entries(4));
        eng.create_table("t0", Schema::new((0..NCOLS).map(|c| Column::new(format!("c{c}"), ColumnType::Int)).collect())).unwrap();
        eng.create_btree_index("t0", "c0").unwrap();
        eng.create_btree_index("t0", "c1").unwrap();
        for (a, b) in [(1, 7), (2, 7), (2, 8)] {
            eng.insert("t0", row(a, b)).unwrap();
        }
        let tx = eng.begin_transaction();
        let fwd = eng.tx_update(tx, "t0", Condition::Eq("_id".into(), Value::Int(1)), row(2, 9));
        let rb = eng.rollback(tx);
        rep.hit("cap_two_btree_probe:attempt");
        if fwd.is_ok() {
            if let Err(e) = rb {
                let through: Vec<u64> = eng.select("t0", Condition::Ge("c0".into(), Value::Int(0))).map(|r| r.iter().map(|x| x.id).collect()).unwrap_or_default();
                rep.hit("cap_two_btree_probe:rollback_refused_without_interference");
                rep.observe(json!({"class": "relational_engine.rollback/undo_readd_refused_by_btree_cap:two_btree_columns",
                    "what": format!("max_btree_entries = 4, b-tree indexes on c0 and c1, rows (1,7) (2,7) (2,8); tx_update _id=1 set c0=2, c1=9 -> ok; rollback -> {}; \
                                     c0 >= 0 through the b-tree index now finds rows {through:?} of 3 (apply_undo_entry replays index_changes in recording order: it removes \
                                     (c0,2) - which frees nothing - and re-adds (c0,1) while the trees are still full)", err_class(&e)),
                    "proposed_diff": "proposed/C09-undo-readd-ignores-btree-cap.diff",
                    "inside_quantifier": "candidate finding of the unchanged code (engines with a b-tree entry cap of a few keys and two b-tree columns in one SET list)"}));
                return;
            }
        }
    }
    rep.hit("cap_two_btree_probe:not_seen");
}

// ------------------------------------------------------------------ main

struct Tally {
    per_class: BTreeMap<String, u64>,
}

/// the classes listed in known_findings.jsonl (each reproduced by a directed script on every run)
const KNOWN_CLASSES: [&str; 4] = ["relational_engine.rollback/index_entry_not_restored",
                                  "relational_engine.rollback/committed_write_undone_after_lock_expiry",
                                  "relational_engine.rollback/duplicate_row_in_index_answer",
                                  "relational_engine.cleanup_expired/uncommitted_change_kept"];

fn absorb(rep: &mut Report, tally: &mut Tally, stream: &str, cfg: Cfg, ops: &[Op], out: Outcome, shrink: bool) {
    let key: String = ops.iter().map(|o| o.show()).collect::<Vec<_>>().join("|");
    rep.case(stream, if out.nontrivial && !out.discarded { Some(&key) } else { None });
    if out.discarded {
        rep.hit("script_discarded_timing");
        return;
    }
    for h in &out.hits {
        rep.hit(h);
    }
    for (k, n) in &out.compared {
        rep.hit_n(&format!("compared:{k}"), *n);
    }
    for (k, n) in &out.counts {
        rep.hit_n(k, *n);
    }
    for (s, input, imp, mdl) in out.disagreements {
        rep.disagree(&format!("{stream}.{s}"), input, &imp, &mdl);
    }
    for (class, what, step) in out.violations {
        let n = tally.per_class.entry(class.clone()).or_insert(0);
        *n += 1;
        rep.hit(&format!("violation:{class}"));
        if *n > 2 {
            continue;
        }
        // minimise the failing script on the real engine alone
        let mut script: Vec<Op> = ops[..=step.min(ops.len() - 1)].to_vec();
        let mut what = what;
        if shrink && !script.iter().any(|o| matches!(o, Op::Tick(_))) {
            let cls = class.clone();
            script = shrink_list(&script, &mut |cand: &[Op]| exec_script(cand, cfg, None).violations.iter().any(|v| v.0 == cls));
        } else if shrink && *n == 1 && !KNOWN_CLASSES.contains(&class.as_str()) {
            // a script with real sleeps: the first failing input of a class is shrunk by concurrent single-statement
            // removals (the known findings, reproduced by their directed scripts on every run, are not)
            (script, what) = shrink_sleepy(&script, cfg, &class, what);
        }
        // (otherwise a script with ticks is the prefix that was just run, its message is the one recorded)
        let what2 = if script.iter().any(|o| matches!(o, Op::Tick(_))) {
            what
        } else {
            exec_script(&script, cfg, None).violations.into_iter().find(|v| v.0 == class).map(|v| v.1).unwrap_or(what)
        };
        rep.violation(&class, &what2, json!({
            "cfg": {"lock_timeout_secs": cfg.lock_secs, "transaction_timeout_secs": cfg.tx_secs, "wide_values": cfg.wide, "nullable_columns": cfg.nulls},
            "script": script.iter().map(|o| o.show()).collect::<Vec<_>>(),
        }));
    }
}

fn main() {
    let args = parse_args();
    let mut rep = Report::new(
        "a script counts as non-trivial when at least one statement changed the full-scan image of a table; \
         distinct = distinct statement lists",
    );
    let mut model = Model::spawn(&args.driver);
    let mut tally = Tally { per_class: BTreeMap::new() };
    let root = Rng::new(args.seed);
    let long = Cfg { lock_secs: 30, tx_secs: 60, wide: false, nulls: false };

    // 1. directed scenarios (the ones with real sleeps run concurrently on their own engines / model processes; the
    //    random sleeping scripts of streams 4 and 5 are started now as well and collected at the end)
    let dir = directed();
    let has_tick = |ops: &Vec<Op>| ops.iter().any(|o| matches!(o, Op::Tick(_)));
    let dir_sleepers = {
        let jobs: Vec<(Cfg, Vec<Op>)> = dir.iter().filter(|d| has_tick(&d.2)).map(|d| (d.1, d.2.clone())).collect();
        let driver = args.driver.clone();
        std::thread::spawn(move || run_sleepers(&driver, jobs))
    };
    let mut rng = root.fork("timeouts");
    let timeout_jobs: Vec<(Cfg, Vec<Op>)> = (0..if args.thorough { 60 } else { 8 }).map(|_| gen_timeout_script(&mut rng)).collect();
    let mut rng = root.fork("takeover");
    let takeover_jobs: Vec<(Cfg, Vec<Op>)> = (0..if args.thorough { 72 } else { 16 }).map(|_| gen_takeover_script(&mut rng)).collect();
    let mut rng = root.fork("expiry_sweep");
    let sweep_jobs: Vec<(Cfg, Vec<Op>)> = (0..if args.thorough { 72 } else { 14 }).map(|_| gen_expiry_sweep_script(&mut rng)).collect();
    let rnd_sleepers = {
        let jobs: Vec<(Cfg, Vec<Op>)> = sweep_jobs.iter().chain(timeout_jobs.iter()).chain(takeover_jobs.iter()).cloned().collect();
        let driver = args.driver.clone();
        // at most 24 scripts asleep at a time
        std::thread::spawn(move || {
            let mut outs = vec![];
            for chunk in jobs.chunks(24) {
                outs.extend(run_sleepers(&driver, chunk.to_vec()));
            }
            outs
        })
    };
    // 0. regression cases below statement granularity (fcb86137), scheduled through the yield sites: run first
    let race_hook_seen = race_scheduled(&mut rep, &mut model, &mut tally);
    // 0b. statements refused part-way at the b-tree entry cap, then rollback (`CapModel.lean`, Props6): directed, run first
    for (name, cap, ops) in cap_directed() {
        let out = exec_cap(&ops, cap, Some(&mut model));
        rep.hit(&format!("directed:{name}"));
        if name == "cap_update_refused_mid_row_then_rollback" {
            rep.sample(json!({"scenario": name, "max_btree_entries": cap, "script": ops.iter().map(|o| o.show()).collect::<Vec<_>>(),
                              "violations": out.violations.iter().map(|v| v.0.clone()).collect::<Vec<_>>()}));
        }
        absorb_cap(&mut rep, &mut tally, "cap_directed", cap, &ops, out);
    }
    let mut quick_outs: Vec<Outcome> = dir.iter().filter(|d| !has_tick(&d.2)).map(|d| exec_script(&d.2, d.1, Some(&mut model))).collect();
    quick_outs.reverse();
    let mut sleeper_outs = dir_sleepers.join().expect("directed sleepers panicked");
    sleeper_outs.reverse();
    for (name, cfg, ops) in dir {
        let out = if has_tick(&ops) { sleeper_outs.pop().unwrap() } else { quick_outs.pop().unwrap() };
        if out.discarded {
            rep.note(&format!("directed scenario {name} was discarded by the timing guard three times: NOT checked in this run"));
        }
        rep.hit(&format!("directed:{name}"));
        if rep.samples.len() < 4 {
            rep.sample(json!({"scenario": name, "script": ops.iter().map(|o| o.show()).collect::<Vec<_>>(),
                              "violations": out.violations.iter().map(|v| v.0.clone()).collect::<Vec<_>>()}));
        }
        absorb(&mut rep, &mut tally, "directed", cfg, &ops, out, true);
    }

    // every known finding must have been reproduced by the directed scenarios above (deterministic, seed independent)
    for class in KNOWN_CLASSES {
        if tally.per_class.contains_key(class) {
            rep.hit(&format!("directed_reproduced:{class}"));
        } else {
            rep.note(&format!("known finding {class} was NOT reproduced by the directed scenarios of this run"));
        }
    }
    // the fixed findings (c322e794, dcf916e8, fcb86137, 6f865e8a, 6992261a) must stay fixed: their directed scenarios ran
    // above without a violation
    for class in ["relational_engine.tx_insert/uncommitted_insert_not_locked", "relational_engine.rollback/phantom_row",
                  "relational_engine.create_btree_index/duplicate_row_in_index_answer",
                  "relational_engine.tx_update/committed_write_lost_scan_before_lock",
                  "relational_engine.tx_delete/committed_write_lost_scan_before_lock",
                  "relational_engine.drop_table/accepted_under_open_transaction",
                  "relational_engine.drop_table/open_transaction_undo_applied_to_recreated_table",
                  "relational_engine.drop_table/open_transaction_rollback_fails_after_drop",
                  "relational_engine.btree_index/stale_in_memory_tree_after_drop_table"] {
        if !tally.per_class.contains_key(class) {
            rep.hit(&format!("fixed_stays_fixed:{class}"));
        }
    }

    // 2. random interleavings, no DDL inside transactions
    let mut rng = root.fork("interleave");
    let n = if args.thorough { 5000 } else { 380 };
    for i in 0..n {
        let len = rng.range(8, 34) as usize;
        let ops = gen_script(&mut rng, len, false, P6);
        let out = exec_script(&ops, long, Some(&mut model));
        if i < 3 {
            rep.sample(json!({"stream": "interleave", "script": ops.iter().map(|o| o.show()).collect::<Vec<_>>()}));
        }
        absorb(&mut rep, &mut tally, "interleave", long, &ops, out, true);
    }
    // 3. random interleavings with index DDL between the statements
    let mut rng = root.fork("interleave_ddl");
    let n = if args.thorough { 3500 } else { 280 };
    for i in 0..n {
        let len = rng.range(8, 34) as usize;
        let ops = gen_script(&mut rng, len, true, P6);
        let out = exec_script(&ops, long, Some(&mut model));
        if i < 2 {
            rep.sample(json!({"stream": "interleave_ddl", "script": ops.iter().map(|o| o.show()).collect::<Vec<_>>()}));
        }
        absorb(&mut rep, &mut tally, "interleave_ddl", long, &ops, out, true);
    }
    // 3b. the same with values outside 0..5: negative numbers, i64::MIN / i64::MAX
    let wide = Cfg { lock_secs: 30, tx_secs: 60, wide: true, nulls: false };
    let mut rng = root.fork("interleave_wide");
    let n = if args.thorough { 1200 } else { 60 };
    for i in 0..n {
        let len = rng.range(8, 30) as usize;
        let ops = gen_script(&mut rng, len, i % 2 == 1, pool(wide));
        let out = exec_script(&ops, wide, Some(&mut model));
        if i < 1 {
            rep.sample(json!({"stream": "interleave_wide", "script": ops.iter().map(|o| o.show()).collect::<Vec<_>>()}));
        }
        absorb(&mut rep, &mut tally, "interleave_wide", wide, &ops, out, true);
    }
    // 3c. nullable columns: NULL stored explicitly or by omission, assigned and compared (`= NULL` through the hash
    //     index, ranges skip NULL keys), NULL refused by the other columns; every second script with the wide values too
    let mut rng = root.fork("interleave_nulls");
    let n = if args.thorough { 2000 } else { 100 };
    for i in 0..n {
        let cfg = Cfg { lock_secs: 30, tx_secs: 60, wide: i % 2 == 1, nulls: true };
        let len = rng.range(8, 30) as usize;
        let ops = gen_script(&mut rng, len, i % 3 == 2, pool(cfg));
        let out = exec_script(&ops, cfg, Some(&mut model));
        if i < 1 {
            rep.sample(json!({"stream": "interleave_nulls", "script": ops.iter().map(|o| o.show()).collect::<Vec<_>>()}));
        }
        absorb(&mut rep, &mut tally, "interleave_nulls", cfg, &ops, out, true);
    }
    // 3d. engines with a b-tree entry cap of a few keys: statements refused part-way through a row, rollback, index sweep
    let mut rng = root.fork("cap");
    let n = if args.thorough { 2500 } else { 170 };
    for i in 0..n {
        let len = rng.range(8, 26) as usize;
        let (cap, ops) = gen_cap_script(&mut rng, len);
        let out = exec_cap(&ops, cap, Some(&mut model));
        if i < 1 {
            rep.sample(json!({"stream": "cap", "max_btree_entries": cap, "script": ops.iter().map(|o| o.show()).collect::<Vec<_>>()}));
        }
        absorb_cap(&mut rep, &mut tally, "cap", cap, &ops, out);
    }
    cap_two_btree_probe(&mut rep);
    // behaviour of the UNCHANGED code the capped scripts run into (candidate findings: recorded, not judged; the rows they
    // affect are left out of the index sweeps of the script that met them)
    for (tag, class, what, minimal, proposed) in [
        ("cap:observed:refused_insert_left_row", "relational_engine.tx_insert/refused_insert_leaves_row",
         "tx_insert records its undo entry LAST (after slab.insert, try_lock, the index_add and btree_index_add calls): an insert whose btree_index_add           is refused at max_btree_entries returns the error with the row alive in the table, present in the hash indexes, absent from the b-tree, and           no undo entry - neither the transaction's rollback nor the rollback inside the non-transactional insert() removes it           (Props6.failed_insert_leaves_row_witness)",
         json!({"max_btree_entries": 1, "script": ["create_table 2", "create_index 0 0", "create_btree 0 0", "insert 0 1,0", "begin", "tx_insert h0 0 3,0 -> err too_large",
                "rollback h0 -> ok", "select 0 T = rows 1 and 2", "select 0 GE:0:0 (b-tree) = row 1 only"]}),
         "proposed/C09-tx-insert-records-undo-before-index-updates.diff"),
        ("cap:observed:rollback_refused_by_cap_after_foreign_write", "relational_engine.rollback/undo_readd_refused_by_btree_cap",
         "apply_undo_entry re-adds b-tree keys through the capped btree_index_add: when another writer has used the capacity the transaction had freed           (delete / move of the only row under a key), the rollback answers RollbackFailed and the restored row is missing from the b-tree index           (Props6.rollback_refused_by_cap_witness (1))",
         json!({"max_btree_entries": 2, "script": ["create_table 2", "create_btree 0 0", "insert 0 1,0", "insert 0 2,0", "begin", "tx_delete h0 0 I:1", "insert 0 3,0",
                "rollback h0 -> err rollback_failed", "select 0 GE:0:0 (b-tree) misses row 1"]}),
         "proposed/C09-undo-readd-ignores-btree-cap.diff"),
        ("cap:observed:rollback_refused_by_cap_after_rewriting_half_moved_row", "relational_engine.rollback/undo_readd_refused_by_btree_cap:after_refused_statement",
         "a transaction that goes on writing a row one of its statements left half-moved (old b-tree entry gone, slab row unchanged) records undo entries           that describe the slab row, not the index; at a tight cap the rollback's re-add is refused: RollbackFailed           (Props6.rollback_refused_by_cap_witness (3))",
         json!({"max_btree_entries": 1, "script": ["create_table 2", "create_btree 0 1", "insert 0 3,5", "insert 0 2,5", "begin", "tx_update h0 0 I:2 1=1 -> err too_large",
                "tx_update h0 0 E:1:5 1=3", "rollback h0 -> err rollback_failed"]}),
         "proposed/C09-undo-readd-ignores-btree-cap.diff"),
        ("cap:observed:commit_after_refused_statement", "relational_engine.commit/refused_statement_left_half_moved_row",
         "a tx_update refused at the cap leaves the first matched row half-moved (hash entries under the new value, old b-tree entry gone, slab row           unchanged) inside the open transaction; only a rollback repairs it - a commit makes it permanent (statements are not atomic inside a           transaction; the non-transactional update() rolls back by itself)",
         json!({"max_btree_entries": 2, "script": ["create_table 2", "create_index 0 0", "create_btree 0 0", "insert 0 1,0", "insert 0 1,0", "insert 0 2,0", "begin",
                "tx_update h0 0 I:1 0=3 -> err too_large", "commit h0", "select 0 E:0:1 (hash) misses row 1"]}),
         "-"),
    ] {
        if let Some(n) = rep.distribution.get(tag).copied() {
            rep.observe(json!({"class": class, "seen": n, "what": what, "minimal_input": minimal, "proposed_diff": proposed,
                               "inside_quantifier": "candidate finding of the unchanged code, met only on engines configured with a b-tree entry cap of a few keys"}));
        }
    }
    // 4. lock / transaction timeouts, 5. lock takeover with the old holder ending first (real sleeps; started above)
    let mut outs = rnd_sleepers.join().expect("random sleepers panicked");
    outs.reverse();
    // 4a. lock sweeps while transactions hold locks of different ages
    for (i, (cfg, ops)) in sweep_jobs.iter().enumerate() {
        if i < 1 {
            rep.sample(json!({"stream": "expiry_sweep", "script": ops.iter().map(|o| o.show()).collect::<Vec<_>>()}));
        }
        absorb(&mut rep, &mut tally, "expiry_sweep", *cfg, ops, outs.pop().unwrap(), true);
    }
    for (cfg, ops) in &timeout_jobs {
        absorb(&mut rep, &mut tally, "timeouts", *cfg, ops, outs.pop().unwrap(), false);
    }
    for (i, (cfg, ops)) in takeover_jobs.iter().enumerate() {
        if i < 1 {
            rep.sample(json!({"stream": "takeover", "script": ops.iter().map(|o| o.show()).collect::<Vec<_>>()}));
        }
        absorb(&mut rep, &mut tally, "takeover", *cfg, ops, outs.pop().unwrap(), false);
    }

    // 5b. hash / b-tree indexes on the system column `_id` (real engine only: index-served answer = filter of the scan)
    let mut rng = root.fork("id_index");
    id_index_stream(&mut rep, &mut rng, if args.thorough { 400 } else { 40 });

    // 6. below statement granularity once more, without the scheduler: two real threads (an extra; the scheduled cases
    //    ran first)
    race_stress_stream(&mut rep, args.thorough, race_hook_seen);
    race_ddl_probe(&mut rep);

    rep.expected_branches = [
        "op:commit:ok", "op:commit:tx_not_found", "op:rollback:ok", "op:rollback:tx_not_found", "op:rollback:rollback_failed",
        "op:tx_insert:ok", "op:tx_insert:tx_not_found", "op:tx_update:ok", "op:tx_update:lock_conflict", "op:tx_update:tx_not_found",
        "op:tx_update:table_not_found", "op:tx_update:column_not_found", "op:tx_delete:ok", "op:tx_delete:lock_conflict",
        "op:tx_delete:tx_not_found", "op:tx_select:ok", "op:tx_select:tx_not_found", "op:tx_select:table_not_found",
        "op:tx_insert:bad_input", "op:tx_insert:table_not_found", "op:tx_delete:table_not_found", "op:insert:bad_input",
        "op:insert:table_not_found", "op:update:table_not_found", "op:update:column_not_found", "op:delete_rows:table_not_found",
        "tx_select_by_open_tx", "tx_select_by_finished_tx", "and_condition_served_by_hash_index", "and_condition_served_by_btree_index",
        "directed:compound_condition_lock_set", "directed:and_condition_through_index_rollback", "directed:tx_select_open_and_finished",
        "id_index_script",
        "directed:batch_insert_beside_open_transactions", "directed:drop_table_under_open_tx_then_rollback",
        "directed:drop_recreate_under_open_tx_then_rollback", "directed:drop_recreate_table_untouched_by_open_tx",
        "directed:drop_table_refused_until_writers_end", "directed:drop_recreate_then_create_btree_index",
        "directed:drop_table_refused_after_lock_expiry", "directed:drop_table_accepted_after_tx_timeout_cleanup",
        "op:drop_table:ok", "op:drop_table:lock_conflict", "op:drop_table:table_not_found", "op:create_table:table_exists",
        "drop_table_refused:open_transaction_wrote_table", "drop_table_accepted:no_transaction_open",
        "drop_table_accepted:open_transactions_elsewhere", "table_recreated_under_same_name",
        "tx_insert_lock_check:new_row_held_by_inserter",
        "race:update_in_gap_then_rollback:scheduled", "race:update_same_column_in_gap_then_rollback:scheduled",
        "race:update_same_column_in_gap_then_commit:scheduled", "race:delete_in_gap_then_update_rollback:scheduled",
        "race:delete_in_gap_then_delete_rollback:scheduled", "race:row_leaves_condition_in_gap:scheduled",
        "race:control_nothing_in_gap:scheduled", "race_stress:clean",
        "fixed_stays_fixed:relational_engine.tx_update/committed_write_lost_scan_before_lock",
        "fixed_stays_fixed:relational_engine.tx_delete/committed_write_lost_scan_before_lock",
        "fixed_stays_fixed:relational_engine.drop_table/accepted_under_open_transaction",
        "fixed_stays_fixed:relational_engine.drop_table/open_transaction_undo_applied_to_recreated_table",
        "fixed_stays_fixed:relational_engine.drop_table/open_transaction_rollback_fails_after_drop",
        "fixed_stays_fixed:relational_engine.btree_index/stale_in_memory_tree_after_drop_table",
        "op:batch_insert:ok", "op:batch_insert:bad_input", "op:batch_insert:table_not_found",
        "directed:failed_statements_change_nothing", "directed:null_values_indexed_rollback", "directed:null_values_indexed_commit",
        "op:update:bad_input", "op:tx_update:bad_input", "null_stored:omitted", "null_stored:explicit", "null_assigned_by_update",
        "null_compared_in_condition", "directed:extreme_values_hash_and_btree", "op:insert:ok", "op:update:ok", "op:update:lock_conflict", "op:delete_rows:ok",
        "op:delete_rows:lock_conflict", "op:create_index:ok", "op:create_index:index_exists", "op:create_btree_index:ok",
        "op:create_btree_index:index_exists", "op:drop_index:ok", "op:drop_index:index_not_found", "op:drop_btree_index:ok",
        "op:drop_btree_index:index_not_found", "op:cleanup_expired_locks:ok", "op:cleanup_expired:ok", "op:lock_timeout:ok",
        "write_after_lock_expiry", "tx_expired_by_cleanup", "quiescent_check",
        "foreign_lock_check_at_tx_end:other_open_tx_holds_locks", "rollback_of_taken_over_row_checked",
        "old_holder_ended_while_new_holder_open:commit", "old_holder_ended_while_new_holder_open:rollback",
        "old_holder_ended_while_new_holder_open:cleanup_expired",
        "same_value_tx_update:hash_indexed_column", "same_value_tx_update:btree_indexed_column",
        "rollback_after_same_value_update:hash_index_checked", "rollback_after_same_value_update:btree_index_checked",
        "commit_after_same_value_update:hash_index_checked", "commit_after_same_value_update:btree_index_checked",
        "directed:same_value_update_rollback_hash_and_btree", "directed:same_value_on_hash_column_other_changes",
        "directed:same_value_on_btree_column_other_changes", "directed:same_value_update_rollback_both_kinds_one_column",
        "directed:control_update_there_and_back_rollback", "directed:control_same_value_update_commit",
        "directed:takeover_old_holder_commits", "directed:takeover_old_holder_rolls_back", "directed:takeover_old_holder_cleaned_up",
        "directed:partial_expiry_sweep_then_commit", "directed:partial_expiry_sweep_then_rollback", "directed:partial_expiry_sweep_then_tx_timeout",
        "directed:partial_expiry_three_generations", "directed:full_expiry_sweep_then_relock_then_commit", "directed:sweep_with_nothing_expired_then_rollback",
        "directed:partial_expiry_two_owners_takeover_after_sweep", "directed:takeover_before_sweep_then_old_holder_commits",
        "lock_sweep:owner_with_expired_and_live_locks", "lock_sweep:owner_with_expired_locks_only", "lock_sweep:owner_with_live_locks_only",
        "partly_expired_owner_ended:commit", "partly_expired_owner_ended:rollback", "partly_expired_owner_ended:cleanup_expired",
        "lock_listing_check", "lock_listing_check:list_longer_than_rows_held", "lock_conflict_blocker_check",
        "directed_reproduced:relational_engine.rollback/index_entry_not_restored",
        "directed_reproduced:relational_engine.rollback/committed_write_undone_after_lock_expiry",
        "directed_reproduced:relational_engine.rollback/duplicate_row_in_index_answer",
        "directed_reproduced:relational_engine.cleanup_expired/uncommitted_change_kept",
        "fixed_stays_fixed:relational_engine.tx_insert/uncommitted_insert_not_locked",
        "fixed_stays_fixed:relational_engine.rollback/phantom_row",
        "fixed_stays_fixed:relational_engine.create_btree_index/duplicate_row_in_index_answer",
        "directed:cap_update_refused_mid_row_then_rollback", "directed:cap_update_refused_btree_only_then_rollback",
        "directed:cap_update_refused_after_two_hash_moves_then_rollback", "directed:cap_update_refused_several_rows_then_rollback",
        "directed:cap_refused_update_between_other_statements_then_rollback", "directed:cap_update_refused_twice_then_delete_then_rollback",
        "directed:cap_plain_update_refused_rolls_itself_back", "directed:cap_two_transactions_each_refused_then_rollback",
        "directed:cap_shared_by_two_tables_update_refused_then_rollback", "directed:cap_control_moves_within_capacity",
        "directed:cap_update_refused_then_commit", "directed:cap_insert_refused_then_rollback",
        "directed:cap_freed_capacity_used_by_other_writer_then_rollback",
        "cap:op:tx_update:too_large", "cap:op:update:too_large", "cap:op:tx_insert:too_large", "cap:op:tx_update:ok", "cap:op:tx_delete:ok",
        "cap:op:rollback:ok", "cap:op:rollback:rollback_failed", "cap:op:commit:ok",
        "cap:mid_row_failure:tx_update", "cap:mid_row_failure:tx_update:several_rows_matched", "cap:mid_row_failure:update",
        "cap:rollback_after_mid_row_failure", "cap:rollback_after_mid_row_failure:inside_non_transactional_statement",
        "cap:index_answer_checked_after_rollback_of_refused_statement", "cap:row_of_refused_statement_still_locked",
        "cap:transaction_went_on_writing_half_moved_row",
    ].iter().map(|s| s.to_string()).collect();
    rep.note("time: the engine reads SystemTime::now() (no clock hook); lock/transaction timeouts are whole seconds, so timeout \
              scripts use 1 s timeouts and real 1100 ms sleeps; the exact `elapsed == timeout` millisecond boundary is not exercised");
    rep.note("statements are atomic in the model; the one interleaving point inside a statement that is explored is the gap between the scan and the row \
              locks of tx_update / tx_delete (stream race, scheduled through the yield sites of 23d1986f)");
    rep.note("TransactionInactive is unreachable at statement granularity (commit/rollback remove the transaction in the same call)");
    rep.observe(json!({"what": "rolled-back inserts consume row ids (slab slots are append-only); the next inserted id differs from a run without the transaction",
                       "inside_quantifier": false}));
    rep.write(&args.out);
}
