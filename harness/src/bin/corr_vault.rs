//! C14 correspondence + oracles: real `tensor_vault::Vault` vs the Lean vault model.
//!
//! Streams
//!   directed : small fixed scenarios.  FIRST on every run: `secret-node-key-as-identity` (regression case for the
//!              defect fixed by ad58047e: the requester string `vault_secret:<obfuscated name>` — the graph key of
//!              the secret's own node — must get nothing on any path), then `names-at-rest-known`, which
//!              deterministically reproduces the three KNOWN findings (secret name readable in `_vault_ttl_grants`, in
//!              `_vdel:` records and therefore in the snapshot).  Then TTL on read / write / admin /
//!              delegate paths (`ttl-write-path` … are the regression cases for the defect fixed by
//!              4e577a4d: an expired grant must not authorise anything), revoke, delete, membership
//!              `cascade-dag-*`: cascading revocation over delegation graphs that are NOT trees (diamond with a
//!              different secret per record, cut at the top and at an inner record; second parent outside the revoked
//!              branch; equal-depth diamond delegating onward + cycle / self attempts; both parents delegating the same
//!              secret; records re-loaded by a re-opened vault; direct grants / membership that must stay)
//!   dag      : random delegation graphs in which agents collect several delegating parents, then cascading
//!              revocations of random records; get_permission for every (agent, secret) pair before and after,
//!              get for every pair after
//!   history  : random histories of 150-400 API calls by root + 3-5 identities (+2 groups) over
//!              several secrets / namespaces; every answer compared with the model
//!   perm     : random raw graphs (MEMBER chains / cycles / diamonds, legacy / unparsable /
//!              capacity-limited / badly-signed VAULT_ACCESS edges) under random attenuation
//!              policies; `Vault::get_permission` compared with the model's BFS
//! Oracles (evaluated on the real vault's own outputs, independent bookkeeping):
//!   * a successful non-root get / list entry / overwrite / rotate / delete / grant / revoke /
//!     delegate with no live (unexpired, unrevoked) sufficient grant reachable over MEMBER edges
//!     within the horizon  ->  violation `tensor_vault.<op>/expired_grant_authorises` or
//!     `tensor_vault.<op>/access_without_grant`
//!   * requesters are root, the named identities AND the graph-node keys of the secrets (`vault_secret:…`, real
//!     strings read from the graph): any success of a node key on its OWN secret (where the path search answers
//!     Admin through `source == target`) -> `tensor_vault.access/secret_node_key_as_identity`; on another secret the
//!     general oracle applies with the search started at that secret's node
//!   * after `revoke_delegation_cascading(p, c)`: the records that have to go are computed from the harness's OWN copy
//!     of the delegation records (everything reachable from the record p -> c in the record graph: x -> y is followed
//!     by every y -> z; no tree shape assumed), their grants are struck from the bookkeeping whatever the call
//!     answers; a later success that only a struck grant explains
//!     ->  `tensor_vault.revoke_delegation_cascading/derived_access_survives`; a record below the revoked one still in
//!     the manager or under `_vdel:` -> `…/delegation_record_survives`; a pair that no revoked record touches and
//!     that answers a lower level than before the call -> `…/unrelated_access_removed`
//!   * a delegation whose effective level exceeds the requested level or the parent's own live level
//!     ->  `tensor_vault.delegate/exceeds_parent_level`.  A delegation by a parent that holds less than
//!     Admin is NOT a violation: the ceiling model ("agents delegate subsets of their own access",
//!     docs/book/src/architecture/tensor-vault.md, with a Read-only agent delegating Read as its example)
//!     is a documented capability separate from grant(); it is counted and recorded as an observation
//!   * every key and every stored string / byte field of the vault's TensorStore, the graph's
//!     TensorStore, the snapshot file, every audit record and every error string is searched for
//!     each secret value and secret name (raw, base64, hex)
use std::collections::{BTreeMap, BTreeSet, HashMap};
use std::sync::Arc;
use std::time::{Duration, Instant};

use graph_engine::{Direction, GraphEngine, PropertyValue};
use nverif::*;
use serde_json::{json, Value};
use tensor_store::{ScalarValue, TensorStore, TensorValue};
use tensor_vault::{AttenuationPolicy, Permission, Vault, VaultConfig, VaultError};

const ROOT: &str = "node:root";
/// do not start an operation closer than this before a pending expiry (µs)
const PRE_GUARD: u64 = 4000;
const POST_GUARD: u64 = 400;
/// requester numbers from here on are not identities: `KEY_BASE + <model id of a secret>` is the requester STRING
/// `vault_secret:<obfuscated name>`, the graph key of that secret's node (same numbering as the model's `nodeKeyBase`)
const KEY_BASE: usize = 2_000_000;
/// a node key of no stored secret (model id outside every namespace)
const KEY_NO_SECRET: usize = KEY_BASE + 990_000;

// ------------------------------------------------------------------ helpers

fn b64(data: &[u8]) -> String {
    const T: &[u8; 64] = b"ABCDEFGHIJKLMNOPQRSTUVWXYZabcdefghijklmnopqrstuvwxyz0123456789+/";
    let mut out = String::new();
    for c in data.chunks(3) {
        let n = (u32::from(c[0]) << 16) | (u32::from(*c.get(1).unwrap_or(&0)) << 8) | u32::from(*c.get(2).unwrap_or(&0));
        out.push(T[(n >> 18) as usize & 63] as char);
        out.push(T[(n >> 12) as usize & 63] as char);
        if c.len() > 1 {
            out.push(T[(n >> 6) as usize & 63] as char);
        }
        if c.len() > 2 {
            out.push(T[n as usize & 63] as char);
        }
    }
    out
}

fn find_sub(hay: &[u8], needle: &[u8]) -> bool {
    !needle.is_empty() && hay.len() >= needle.len() && hay.windows(needle.len()).any(|w| w == needle)
}

/// the readable forms of a sensitive string that the scan looks for
fn needles(s: &str) -> Vec<(&'static str, Vec<u8>)> {
    let raw = s.as_bytes();
    let mut v = vec![("raw", raw.to_vec())];
    let full = raw.len() / 3 * 3;
    if full >= 6 {
        v.push(("base64", b64(&raw[..full]).into_bytes()));
    }
    let hx: String = raw.iter().map(|b| format!("{b:02x}")).collect();
    v.push(("hex", hx.clone().into_bytes()));
    v.push(("HEX", hx.to_uppercase().into_bytes()));
    v
}

fn rand_utf8(r: &mut Rng, nchars: usize, name_safe: bool) -> String {
    let mut s = String::new();
    while s.chars().count() < nchars {
        let c = match r.below(10) {
            0..=4 => char::from_u32(0x21 + r.below(0x5e) as u32),
            5 => char::from_u32(0xa1 + r.below(0x15e) as u32),
            6 => char::from_u32(0x4e00 + r.below(0x2000) as u32),
            7 => char::from_u32(0x1f600 + r.below(0x40) as u32),
            8 => char::from_u32(0x0300 + r.below(0x30) as u32),
            _ => char::from_u32(r.below(0x80) as u32),
        };
        if let Some(c) = c {
            if name_safe && (c == '*' || c == '/' || c == '\0') {
                continue;
            }
            s.push(c);
        }
    }
    s
}

fn lvl(p: Permission) -> u8 {
    match p {
        Permission::Read => 1,
        Permission::Write => 2,
        Permission::Admin => 3,
    }
}
fn perm_of(l: u8) -> Permission {
    match l {
        1 => Permission::Read,
        2 => Permission::Write,
        _ => Permission::Admin,
    }
}

fn err_kind(e: &VaultError) -> &'static str {
    match e {
        VaultError::AccessDenied(_) => "denied",
        VaultError::InsufficientPermission(_) => "insufficient",
        VaultError::NotFound(_) => "not_found",
        VaultError::InvalidKey(_) => "too_large",
        VaultError::CryptoError(_) => "crypto",
        VaultError::GraphError(_) => "graph",
        VaultError::SecretExpired(_) => "expired",
        VaultError::RateLimited(_) => "rate_limited",
        VaultError::Sealed(_) => "sealed",
        VaultError::QuotaExceeded(_) => "quota",
        VaultError::StorageError(_) => "storage",
        _ => "other",
    }
}

#[derive(Clone, Copy, Debug)]
struct Pol {
    admin_limit: usize,
    write_limit: usize,
    horizon: usize,
}

fn attenuate(p: Pol, l: u8, hops: usize) -> Option<u8> {
    if hops > p.horizon {
        return None;
    }
    Some(match l {
        3 => {
            if hops <= p.admin_limit {
                3
            } else if hops <= p.write_limit {
                2
            } else {
                1
            }
        }
        2 => {
            if hops <= p.write_limit {
                2
            } else {
                1
            }
        }
        _ => 1,
    })
}

/// node of the harness's own bookkeeping graph
#[derive(Clone, Copy, PartialEq, Eq, PartialOrd, Ord, Debug, Hash)]
enum Nd {
    Ent(usize),
    Sec(usize),
}

#[derive(Clone, Debug)]
struct Grant {
    ent: usize,
    sec: usize,
    level: u8,
    /// expiry window in µs (lo = earliest, hi = latest instant the real tracker may hold)
    expiry: Option<(u64, u64)>,
    alive: bool,
    /// delegation that created it (parent, child), if any
    deleg: Option<(usize, usize)>,
    /// set when a cascading revocation had to remove it: the revoking call and the expiry window it had then
    cascade: Option<(String, Option<(u64, u64)>)>,
}

/// which grants of the bookkeeping count for `best_level`
#[derive(Clone, Copy, PartialEq, Eq)]
enum Count {
    /// unrevoked and unexpired
    Live,
    /// unrevoked, expired or not
    IgnoreExpiry,
    /// live ones plus those a cascading revocation had to remove (and that had not expired by themselves)
    LiveOrCascadeRevoked,
}

struct World {
    vault: Vault,
    vstore: TensorStore,
    gstore: TensorStore,
    graph: Arc<GraphEngine>,
    pol: Pol,
    idents: Vec<String>, // 0 = root, then users, then groups
    n_users: usize,      // identities 1..=n_users may act as requesters
    sec_names: Vec<String>,
    sec_ids: Vec<u64>, // model ids (ns*100+k)
    sec_exists: Vec<bool>,
    sec_node: Vec<Option<u64>>,
    /// graph key (`entity_key`) of the secret's node, read from the graph when the secret is created; kept after a delete
    sec_key: Vec<Option<String>>,
    values: Vec<String>,
    value_id: HashMap<String, usize>,
    grants: Vec<Grant>,
    members: Vec<(Nd, Nd, u64)>,
    /// the harness's own copy of the delegation records: (parent, child, secrets, depth)
    delegs: Vec<(usize, usize, Vec<usize>, u32)>,
    max_deleg: u32,
    /// probes after every cascading revocation: 0 none, 1 get_permission for every (agent, secret) pair + get on the
    /// pairs that had to go, 2 get_permission before and after + get for every pair
    sweep: u8,
    /// answer of the last `get_permission` call (level, 0 = none)
    last_perm: u8,
    t0: Instant,
    errors: Vec<String>,
    max_value_size: usize,
    lines: Vec<String>,
    /// master password and configuration, kept to re-open the vault over the same store and graph
    pw: Vec<u8>,
    cfg: VaultConfig,
    /// wrapping tokens handed out so far (index = the model's token number)
    tokens: Vec<String>,
}

impl World {
    fn new(r: &mut Rng, m: &mut Model, pol: Pol, max_deleg: u32, max_value_size: usize, max_versions: usize, n_users: usize, n_secrets: usize) -> World {
        let vstore = TensorStore::new();
        let gstore = TensorStore::new();
        let graph = Arc::new(GraphEngine::with_store(gstore.clone()));
        let mut salt = [0u8; 16];
        salt.copy_from_slice(&r.bytes(16));
        let cfg = VaultConfig {
            salt: Some(salt),
            argon2_memory_cost: 8,
            argon2_time_cost: 1,
            argon2_parallelism: 1,
            max_versions,
            attenuation: AttenuationPolicy { admin_limit: pol.admin_limit, write_limit: pol.write_limit, horizon: pol.horizon },
            max_delegation_depth: Some(max_deleg),
            max_value_size,
            ..VaultConfig::default()
        };
        let pw = r.bytes(24);
        let vault = Vault::new(&pw, graph.clone(), vstore.clone(), cfg.clone()).expect("vault construction");
        let mut idents = vec![ROOT.to_string()];
        for i in 0..n_users {
            idents.push(format!("user:{}{}", rand_utf8(r, 3, true), i));
        }
        for i in 0..2 {
            idents.push(format!("team:{}{}", rand_utf8(r, 3, true), i));
        }
        // namespaces 1..=3 ; ns 0 = names without '/'
        let nss: Vec<String> = (0..3)
            .map(|i| {
                let n = 1 + r.below(6) as usize;
                format!("{}{}", rand_utf8(r, n, true), i)
            })
            .collect();
        let mut sec_names = Vec::new();
        let mut sec_ids = Vec::new();
        let mut per_ns = [0u64; 4];
        for _ in 0..n_secrets {
            let ns = r.below(4) as usize;
            let len = match r.below(10) {
                0 => 1 + r.below(3) as usize,
                1 => 200 + r.below(1800) as usize,
                _ => 6 + r.below(40) as usize,
            };
            let rest = rand_utf8(r, len, true);
            let name = if ns == 0 { format!("{}{}", rest, per_ns[0]) } else { format!("{}/{}{}", nss[ns - 1], rest, per_ns[ns]) };
            sec_ids.push(ns as u64 * 100 + per_ns[ns]);
            per_ns[ns] += 1;
            sec_names.push(name);
        }
        let line = format!("pol {} {} {} {} {} {}", pol.admin_limit, pol.write_limit, pol.horizon, max_deleg, max_value_size, max_versions);
        let a = m.ask(&line);
        assert_eq!(a, "ok", "model driver refused pol line");
        World {
            vault,
            vstore,
            gstore,
            graph,
            pol,
            idents,
            n_users,
            sec_exists: vec![false; sec_names.len()],
            sec_node: vec![None; sec_names.len()],
            sec_key: vec![None; sec_names.len()],
            sec_names,
            sec_ids,
            values: Vec::new(),
            value_id: HashMap::new(),
            grants: Vec::new(),
            members: Vec::new(),
            delegs: Vec::new(),
            max_deleg,
            sweep: 1,
            last_perm: 0,
            t0: Instant::now(),
            errors: Vec::new(),
            max_value_size,
            lines: vec![line],
            pw,
            cfg,
            tokens: Vec::new(),
        }
    }

    fn now(&self) -> u64 {
        self.t0.elapsed().as_micros() as u64
    }

    /// wait until no pending expiry window is near; returns the time to stamp the next op with
    fn clear_time(&self) -> u64 {
        self.clear_time_guard(PRE_GUARD, POST_GUARD)
    }

    fn clear_time_guard(&self, pre: u64, post: u64) -> u64 {
        loop {
            let now = self.now();
            let mut until = 0u64;
            for g in &self.grants {
                if let Some((lo, hi)) = g.expiry {
                    if now + pre >= lo && now <= hi + post {
                        until = until.max(hi + post + 50);
                    }
                }
            }
            if until == 0 {
                return now;
            }
            std::thread::sleep(Duration::from_micros(until.saturating_sub(now).max(50)));
        }
    }

    /// did the call [t0,t1] overlap a pending expiry window (then its outcome is time-ambiguous)
    fn ambiguous(&self, t0: u64, t1: u64) -> bool {
        self.grants.iter().any(|g| matches!(g.expiry, Some((lo, hi)) if t1 + 200 >= lo && t0 <= hi + 200))
    }

    fn new_value(&mut self, r: &mut Rng, big: bool) -> (usize, String) {
        let nchars = if big && self.max_value_size >= 65_531 {
            66_000 // more bytes than MAX_PLAINTEXT_SIZE whatever the characters
        } else if big {
            self.max_value_size / 2 + r.below(self.max_value_size as u64) as usize
        } else {
            match r.below(8) {
                0 => 1 + r.below(4) as usize,
                1 => 60 + r.below(120) as usize,
                _ => 8 + r.below(40) as usize,
            }
        };
        let mut v = rand_utf8(r, nchars, false);
        // make it unique
        v.push_str(&format!("#{}", self.values.len()));
        let id = self.values.len();
        self.values.push(v.clone());
        self.value_id.insert(v.clone(), id);
        (id, v)
    }

    fn node_id(&self, key: &str) -> u64 {
        if let Ok(nodes) = self.graph.find_nodes_by_property("entity_key", &PropertyValue::String(key.to_string())) {
            if let Some(n) = nodes.first() {
                return n.id;
            }
        }
        let mut props = HashMap::new();
        props.insert("entity_key".to_string(), PropertyValue::String(key.to_string()));
        self.graph.create_node("TestEntity", props).unwrap_or(0)
    }

    /// after root created secret `s`: its graph node is the target of root's newest edge
    fn discover_sec_node(&mut self, s: usize) {
        let root = self.node_id(ROOT);
        if let Ok(edges) = self.graph.edges_of(root, Direction::Outgoing) {
            if let Some(e) = edges.iter().max_by_key(|e| e.id) {
                self.sec_node[s] = Some(e.to);
                if let Ok(node) = self.graph.get_node(e.to) {
                    if let Some(PropertyValue::String(k)) = node.properties.get("entity_key") {
                        self.sec_key[s] = Some(k.clone());
                    }
                }
            }
        }
    }

    /// secret index a node-key requester number names (None: an identity, or the key of no secret of this world)
    fn key_secret(&self, req: usize) -> Option<usize> {
        if req < KEY_BASE {
            return None;
        }
        let id = (req - KEY_BASE) as u64;
        self.sec_ids.iter().position(|x| *x == id)
    }

    /// the requester STRING handed to the vault
    fn req_str(&self, req: usize) -> String {
        if req < KEY_BASE {
            return self.idents[req].clone();
        }
        match self.key_secret(req).and_then(|i| self.sec_key[i].clone()) {
            Some(k) => k,
            // never created in this world (or no such secret): still a string of the node-key form
            None => format!("vault_secret:{:064x}", req - KEY_BASE),
        }
    }

    /// bookkeeping node the path search starts at for this requester string
    fn req_nd(&self, req: usize) -> Option<Nd> {
        if req < KEY_BASE {
            Some(Nd::Ent(req))
        } else {
            self.key_secret(req).map(Nd::Sec)
        }
    }

    fn nd_node(&self, n: Nd) -> Option<u64> {
        match n {
            Nd::Ent(e) => Some(self.node_id(&self.idents[e])),
            Nd::Sec(s) => self.sec_node[s],
        }
    }

    // ---------------- independent evaluation of the property

    /// shortest MEMBER distance from `from` to every node
    fn dists(&self, from: Nd) -> BTreeMap<Nd, usize> {
        let mut d = BTreeMap::new();
        d.insert(from, 0usize);
        let mut frontier = vec![from];
        let mut k = 0;
        while !frontier.is_empty() {
            k += 1;
            let mut next = Vec::new();
            for &(a, b, _) in &self.members {
                if frontier.contains(&a) && !d.contains_key(&b) {
                    d.insert(b, k);
                    next.push(b);
                }
            }
            // a frontier node may have several outgoing edges discovered in the same round
            frontier = next;
        }
        d
    }

    /// best level `req` holds on `sec` through the grants of the bookkeeping that `count` admits
    fn best_level_by(&self, req: usize, sec: usize, now: u64, count: Count) -> u8 {
        let Some(start) = self.req_nd(req) else { return 0 };
        let d = self.dists(start);
        let mut best = 0u8;
        for g in &self.grants {
            if g.sec != sec {
                continue;
            }
            let expiry = if g.alive {
                g.expiry
            } else {
                match (&g.cascade, count) {
                    (Some((_, exp)), Count::LiveOrCascadeRevoked) => *exp,
                    _ => continue,
                }
            };
            if count != Count::IgnoreExpiry {
                if let Some((lo, _)) = expiry {
                    if now >= lo {
                        continue;
                    }
                }
            }
            if let Some(&k) = d.get(&Nd::Ent(g.ent)) {
                if k < self.pol.horizon {
                    if let Some(a) = attenuate(self.pol, g.level, k + 1) {
                        best = best.max(a);
                    }
                }
            }
        }
        best
    }

    fn best_level(&self, req: usize, sec: usize, now: u64, live_only: bool) -> u8 {
        self.best_level_by(req, sec, now, if live_only { Count::Live } else { Count::IgnoreExpiry })
    }

    // ---------------- delegation records: the harness's own copy

    /// every outcome `DelegationManager::register(parent, child)` can have over the records of the bookkeeping:
    /// `None` = refused (self / cycle / depth), `Some(d)` = stored with depth `d`.  `delegation_depth` and
    /// `is_ancestor` take "a" record whose child is the agent, in DashMap iteration order; with two delegating
    /// parents the pick is not determined, so every pick is followed here.  A call is generated only when the set has
    /// ONE element (then the answer and the stored depth do not depend on the pick).
    fn register_outcomes(&self, parent: usize, child: usize) -> BTreeSet<Option<u32>> {
        let mut out = BTreeSet::new();
        if parent == child {
            out.insert(None);
            return out;
        }
        // is_ancestor(child, parent): walk upward from `parent`, any parent record at every step
        let mut anc: BTreeSet<bool> = BTreeSet::new();
        let mut stack: Vec<(usize, Vec<usize>)> = vec![(parent, vec![parent])];
        let mut steps = 0;
        while let Some((cur, seen)) = stack.pop() {
            steps += 1;
            if steps > 20_000 {
                // give up: treat as order dependent
                anc.insert(true);
                anc.insert(false);
                break;
            }
            let ups: Vec<usize> = self.delegs.iter().filter(|d| d.1 == cur).map(|d| d.0).collect();
            if ups.is_empty() {
                anc.insert(false);
            }
            for p in ups {
                if p == child {
                    anc.insert(true);
                } else if seen.contains(&p) {
                    anc.insert(false);
                } else {
                    let mut s2 = seen.clone();
                    s2.push(p);
                    stack.push((p, s2));
                }
            }
        }
        let mut depths: BTreeSet<u32> = self.delegs.iter().filter(|d| d.1 == parent).map(|d| d.3).collect();
        if depths.is_empty() {
            depths.insert(0);
        }
        for a in anc {
            if a {
                out.insert(None);
            } else {
                for d in &depths {
                    out.insert(if d + 1 > self.max_deleg { None } else { Some(d + 1) });
                }
            }
        }
        out
    }

    /// the records a cascading revocation of `parent -> child` has to remove: that record and every record reachable
    /// from it in the record graph (a record `x -> y` is followed by every record `y -> z`), whatever the shape —
    /// chain, tree, diamond, an agent with several delegating parents.  Indices into `delegs`; empty when there is no
    /// record `parent -> child`.
    fn records_below(&self, parent: usize, child: usize) -> Vec<usize> {
        let mut out: Vec<usize> = Vec::new();
        let Some(first) = self.delegs.iter().position(|d| d.0 == parent && d.1 == child) else { return out };
        out.push(first);
        let mut i = 0;
        while i < out.len() {
            let agent = self.delegs[out[i]].1;
            for (j, d) in self.delegs.iter().enumerate() {
                if d.0 == agent && !out.contains(&j) {
                    out.push(j);
                }
            }
            i += 1;
        }
        out
    }

    fn relevant_history(&self, req: usize, sec: usize) -> Vec<String> {
        let rq = format!(" {req} ");
        let sid = self.sec_ids[sec].to_string();
        let mut v: Vec<String> = self
            .lines
            .iter()
            .filter(|l| {
                l.starts_with("pol") || l.contains("member") || l.starts_with("sleep") || l.starts_with("undelegate") || l.starts_with("reopen") || (l.split(' ').any(|w| w == sid || w.split(',').any(|x| x == sid)) && (l.contains(&rq) || l.starts_with("set") || l.contains("grant") || l.contains("deleg") || l.contains("revoke") || l.starts_with("delete")))
            })
            .cloned()
            .collect();
        if v.len() > 80 {
            let cut = v.len() - 80;
            v.drain(1..=cut);
        }
        v
    }

    /// property oracle for one successful non-root access
    fn check_access(&self, rep: &mut Report, op: &str, req: usize, sec: usize, need: u8, now: u64, line: &str) {
        if req == 0 {
            return;
        }
        rep.hit("oracle.access_checked");
        if req >= KEY_BASE {
            rep.hit("oracle.node_key_requester_succeeded");
            if self.key_secret(req) == Some(sec) {
                // the requester string IS the graph key of this secret's node: no grant can be behind this success,
                // the path search answered through `source == target` (defect repaired by ad58047e)
                let class = "tensor_vault.access/secret_node_key_as_identity";
                rep.hit(&format!("violation.{class}"));
                rep.violation(
                    class,
                    &format!("the requester string equal to the secret's own graph-node key (vault_secret:<obfuscated name>, readable in store keys and node properties) succeeded with `{op}` (needs level {need}) without any grant"),
                    json!({"failing_call": line, "operation": op, "time_us": now, "requester_string_prefix": self.req_str(req).chars().take(24).collect::<String>(),
                           "history_slice (model protocol; identity 0 = root; requester 2000000+s = node key of secret s)": self.relevant_history(req, sec)}),
                );
                return;
            }
        }
        let live = self.best_level(req, sec, now, true);
        if live >= need {
            return;
        }
        let any = self.best_level(req, sec, now, false);
        let casc = self.best_level_by(req, sec, now, Count::LiveOrCascadeRevoked);
        if any < need && casc >= need {
            // the only thing behind this success is a grant that a cascading revocation had to take away
            let class = "tensor_vault.revoke_delegation_cascading/derived_access_survives";
            rep.hit(&format!("violation.{class}"));
            let culprits: Vec<String> = self
                .grants
                .iter()
                .filter(|g| g.sec == sec && !g.alive && g.cascade.is_some())
                .map(|g| format!("delegation {:?} gave identity {} level {} on this secret; it lies below the delegation revoked by `{}`", g.deleg, g.ent, g.level, g.cascade.as_ref().map_or("", |c| c.0.as_str())))
                .collect();
            rep.violation(
                class,
                &format!("after a cascading revocation a non-root requester still succeeds with `{op}` (level {need}) through access that was delegated onward from the revoked delegation: the best live grant of the bookkeeping gives level {live}; level {casc} only when the grants that the cascade had to remove are counted"),
                json!({"failing_call": line, "operation": op, "time_us": now, "policy": format!("{:?}", self.pol),
                       "grants_the_cascade_had_to_remove": culprits,
                       "delegation_records_left_in_the_bookkeeping (parent, child, secrets, depth)": self.delegs.iter().map(|d| format!("{:?}", (d.0, d.1, d.2.iter().map(|s| self.sec_ids[*s]).collect::<Vec<_>>(), d.3))).collect::<Vec<_>>(),
                       "history_slice (model protocol; identity 0 = root; times in microseconds)": self.relevant_history(req, sec)}),
            );
            return;
        }
        let kind = if any >= need { "expired_grant_authorises" } else { "access_without_grant" };
        let class = format!("tensor_vault.{op}/{kind}");
        rep.hit(&format!("violation.{class}"));
        rep.violation(
            &class,
            &format!(
                "non-root requester succeeded with `{op}` (needs level {need}) although the best live grant reachable within the horizon gives level {live} (ignoring expiry: {any})"
            ),
            json!({"failing_call": line, "time_us": now, "policy": format!("{:?}", self.pol),
                   "bookkeeping_grants_on_secret (ent, level, expiry_window_us, alive, delegation)": self.grants.iter().filter(|g| g.sec == sec).map(|g| format!("{:?}", (g.ent, g.level, g.expiry, g.alive, g.deleg))).collect::<Vec<_>>(),
                   "bookkeeping_member_distance_from_requester": format!("{:?}", self.req_nd(req).map(|n| self.dists(n))),
                   "history_slice (model protocol; identity 0 = root; times in microseconds)": self.relevant_history(req, sec)}),
        );
    }

    /// bookkeeping + oracle after a successful write of `sec` by `req` (set / batch entry / rollback)
    fn after_write_ok(&mut self, rep: &mut Report, op: &str, req: usize, sec: usize, existed: bool, t0: u64, line: &str) {
        if existed {
            self.check_access(rep, op, req, sec, 2, t0, line);
        } else {
            if req != 0 {
                rep.violation(&format!("tensor_vault.{op}/non_root_created_secret"), "a non-root requester created a new secret", json!({"line": line}));
            }
            self.sec_exists[sec] = true;
            self.discover_sec_node(sec);
            self.grants.push(Grant { ent: 0, sec, level: 3, expiry: None, alive: true, deleg: None, cascade: None });
        }
    }

    fn value_tag(&self, v: &str) -> String {
        match self.value_id.get(v) {
            Some(id) => format!("v{id}"),
            None => "v?".to_string(),
        }
    }

    // ---------------- leak scan

    fn scan_store(&self, store: &TensorStore, which: &str, rep: &mut Report, seen: &mut BTreeSet<String>) {
        let mut blobs: Vec<(String, String, Vec<u8>)> = Vec::new(); // (key, field, bytes)
        let mut keys = store.scan("");
        keys.sort();
        for k in &keys {
            blobs.push((k.clone(), "<key>".into(), k.as_bytes().to_vec()));
            if let Ok(t) = store.get(k) {
                for (f, v) in t.fields_iter() {
                    match v {
                        TensorValue::Scalar(ScalarValue::String(s)) => blobs.push((k.clone(), f.clone(), s.as_bytes().to_vec())),
                        TensorValue::Scalar(ScalarValue::Bytes(b)) => blobs.push((k.clone(), f.clone(), b.clone())),
                        TensorValue::Pointer(p) => blobs.push((k.clone(), f.clone(), p.as_bytes().to_vec())),
                        TensorValue::Pointers(ps) => {
                            for p in ps {
                                blobs.push((k.clone(), f.clone(), p.as_bytes().to_vec()));
                            }
                        }
                        _ => {}
                    }
                }
            }
        }
        rep.hit_n(&format!("scan.{which}.records"), keys.len() as u64);
        rep.hit_n(&format!("scan.{which}.byte_strings"), blobs.len() as u64);
        let key_class = |k: &str| -> String {
            let p = k.split(':').next().unwrap_or("");
            if k.starts_with("_vault_ttl_grants") {
                "ttl.persist".into()
            } else if p == "_vdel" {
                "delegation.persist".into()
            } else if p == "vault_secret" {
                "set.secret_node".into()
            } else if p == "_vk" {
                "set.metadata".into()
            } else if p == "_vs" {
                "set.blob".into()
            } else if p.starts_with("_audit") || p.starts_with("_va") {
                "audit.record".into()
            } else {
                format!("store.{}", p.trim_start_matches('_'))
            }
        };
        for (what, list) in [("secret_value", &self.values), ("secret_name", &self.sec_names)] {
            for (i, s) in list.iter().enumerate() {
                if s.len() < 6 {
                    rep.hit("scan.skipped_short_needle");
                    continue;
                }
                for (form, nd) in needles(s) {
                    for (k, f, bytes) in &blobs {
                        if find_sub(bytes, &nd) {
                            let class = format!("tensor_vault.{}/{}_plaintext_at_rest", key_class(k), what);
                            rep.hit(&format!("violation.{class}"));
                            if seen.insert(format!("{class}|{f}|{form}")) {
                                rep.violation(
                                    &class,
                                    &format!("{what} #{i} found in readable form ({form}) in {which} store record, field `{f}`"),
                                    json!({"store": which, "record_key_prefix": k.chars().take(24).collect::<String>(), "field": f, "form": form,
                                           "needle_len": s.len(), "history (model protocol)": self.lines.iter().take(12).collect::<Vec<_>>()}),
                                );
                            }
                        }
                    }
                }
            }
        }
    }

    fn scan_everything(&self, rep: &mut Report, seen: &mut BTreeSet<String>) {
        let t_scan = Instant::now();
        self.scan_everything_inner(rep, seen);
        rep.hit_n("scan.wall_ms", t_scan.elapsed().as_millis() as u64);
    }

    fn scan_everything_inner(&self, rep: &mut Report, seen: &mut BTreeSet<String>) {
        self.scan_store(&self.vstore, "vault", rep, seen);
        self.scan_store(&self.gstore, "graph", rep, seen);
        // snapshot images of the vault store: the checkpoint image `snapshot_bytes()` (bitcode, uncompressed) and
        // the `save_snapshot` file (same image zstd-compressed: a string shows up raw there only where the
        // compressor found no earlier match, so the first image is the deterministic one)
        let mut images: Vec<(&str, Vec<u8>)> = Vec::new();
        if let Ok(bytes) = self.vstore.snapshot_bytes() {
            images.push(("TensorStore::snapshot_bytes", bytes));
        }
        if let Ok(dir) = tempfile::tempdir() {
            let p = dir.path().join("snap.bin");
            if self.vstore.save_snapshot(&p).is_ok() {
                if let Ok(bytes) = std::fs::read(&p) {
                    images.push(("TensorStore::save_snapshot file", bytes));
                }
            }
        }
        for (img, bytes) in &images {
            rep.hit_n("scan.snapshot.bytes", bytes.len() as u64);
            for (what, list) in [("secret_value", &self.values), ("secret_name", &self.sec_names)] {
                for s in list.iter().filter(|s| s.len() >= 6) {
                    for (form, nd) in needles(s) {
                        if find_sub(bytes, &nd) {
                            let class = format!("tensor_vault.snapshot/{what}_plaintext_at_rest");
                            rep.hit(&format!("violation.{class}"));
                            if seen.insert(format!("{class}|{form}")) {
                                rep.violation(&class, &format!("{what} readable ({form}) in {img} of the vault store"),
                                    json!({"image": img, "form": form, "needle_len": s.len(), "history (model protocol)": self.lines.iter().take(12).collect::<Vec<_>>()}));
                            }
                        }
                    }
                }
            }
        }
        // audit records: secret values and names must not appear
        if let Ok(entries) = self.vault.audit_recent(1_000_000) {
            rep.hit_n("scan.audit.records", entries.len() as u64);
            let texts: Vec<String> = entries.iter().map(|e| format!("{} {} {:?}", e.entity, e.secret_key, e.operation)).collect();
            for (what, list) in [("secret_value", &self.values), ("secret_name", &self.sec_names)] {
                for s in list.iter().filter(|s| s.len() >= 6) {
                    for (form, nd) in needles(s) {
                        if texts.iter().any(|t| find_sub(t.as_bytes(), &nd)) {
                            let class = format!("tensor_vault.audit/{what}_in_audit_record");
                            if seen.insert(format!("{class}|{form}")) {
                                rep.violation(&class, &format!("{what} readable ({form}) in a decoded audit entry"), json!({"form": form}));
                            }
                        }
                    }
                }
            }
        }
        // error strings: values never
        rep.hit_n("scan.error_strings", self.errors.len() as u64);
        for s in self.values.iter().filter(|s| s.len() >= 6) {
            for (form, nd) in needles(s) {
                if self.errors.iter().any(|t| find_sub(t.as_bytes(), &nd)) {
                    let class = "tensor_vault.error/secret_value_in_error_message".to_string();
                    if seen.insert(format!("{class}|{form}")) {
                        rep.violation(&class, &format!("secret value readable ({form}) in an error message"), json!({"form": form}));
                    }
                }
            }
        }
    }
}

// ------------------------------------------------------------------ operations

#[derive(Clone, Debug)]
enum Op {
    Set { req: usize, sec: usize, big: bool },
    Get { req: usize, sec: usize },
    List { req: usize, pat: u8, arg: usize, via: u8 }, // pat: 0 all, 1 ns, 2 one, 3 empty pattern; via: 0 list, 1 list_paginated, 2 list_with_metadata
    Rotate { req: usize, sec: usize, big: bool },
    Delete { req: usize, sec: usize },
    Grant { req: usize, ent: usize, sec: usize, level: u8, plain_api: bool },
    GrantTtl { req: usize, ent: usize, sec: usize, level: u8, ttl_ms: u64 },
    Revoke { req: usize, ent: usize, sec: usize },
    Delegate { parent: usize, child: usize, secs: Vec<usize>, level: u8, ttl_ms: Option<u64> },
    Undelegate { parent: usize, child: usize },
    AddMember { a: usize, b: Nd },
    DelMember { a: usize, b: Nd },
    /// calls that only check a level: 0 encrypt_for+decrypt_as, 1 get_expiration, 2 clear_expiration (Admin), 3 changelog, 4 diff_versions(1,1)
    Probe { req: usize, sec: usize, kind: u8 },
    /// `get_permission(req, sec)`
    Perm { req: usize, sec: usize },
    GetVersion { req: usize, sec: usize, ver: u32 },
    /// `current_version` (via_list: `list_versions().len()`)
    Versions { req: usize, sec: usize, via_list: bool },
    Rollback { req: usize, sec: usize, ver: u32 },
    BatchGet { req: usize, secs: Vec<usize> },
    /// `batch_set_detailed`; a single entry with `plain_api` goes through `batch_set`
    BatchSet { req: usize, secs: Vec<usize>, big: Vec<bool>, plain_api: bool },
    Wrap { req: usize, sec: usize },
    Unwrap { tok: usize },
    UndelegateCascade { parent: usize, child: usize },
    /// drop the Vault object and `Vault::new` over the same store and graph
    Reopen,
    /// a value of exactly `bytes` bytes through set (rotate = false) or rotate
    SetExact { req: usize, sec: usize, bytes: usize, rotate: bool },
    /// raw graph edge of an arbitrary type (classified by the MODEL from the type string)
    RawEdge { a: usize, b: Nd, ty: &'static str, cap: u64, sig: u8, undirected: bool },
    Sleep { ms: u64 },
}

/// edge types outside / inside `ALLOWED_TRAVERSAL_EDGES`; the model classifies them from the string
const OTHER_TYPES: &[&str] = &["OWNS", "member", "XMEMBER", "ADMIN", "VAULT_ACCES", "vault_access_admin", "MEMBE", "ADMIN_OF_VAULT_ACCESS_ADMIN", "MANAGES_WRITE"];
const MEMBERISH_TYPES: &[&str] = &["MEMBER", "MEMBER_OF", "MEMBERSHIP_ADMIN", "MEMBER_READ"];
const ACCESS_TYPES: &[&str] = &["VAULT_ACCESS_FOO", "VAULT_ACCESS_READ", "VAULT_ACCESS_WRITE", "VAULT_ACCESS_ADMIN", "VAULT_ACCESS", "VAULT_ACCESSX_ADMIN", "VAULT_ACCESS_READ_WRITE", "VAULT_ACCESS_ADMIN_READ"];

/// harness-side reading of the type string, used ONLY to keep the oracle's bookkeeping (`members`) in step;
/// the expected answer always comes from the model's own classification
fn is_memberish(ty: &str) -> bool {
    ty.starts_with("MEMBER")
}

/// the requester (or delegating parent) of an op, if it has one
fn op_requester(op: &Op) -> Option<usize> {
    match op {
        Op::Set { req, .. } | Op::Get { req, .. } | Op::List { req, .. } | Op::Rotate { req, .. } | Op::Delete { req, .. } | Op::Grant { req, .. }
        | Op::GrantTtl { req, .. } | Op::Revoke { req, .. } | Op::Probe { req, .. } | Op::Perm { req, .. } | Op::GetVersion { req, .. }
        | Op::Versions { req, .. } | Op::Rollback { req, .. } | Op::BatchGet { req, .. } | Op::BatchSet { req, .. } | Op::Wrap { req, .. }
        | Op::SetExact { req, .. } => Some(*req),
        Op::Delegate { parent, .. } | Op::Undelegate { parent, .. } | Op::UndelegateCascade { parent, .. } => Some(*parent),
        _ => None,
    }
}

/// a guarded call of kind `k` (0..17) by requester `rq` on secret `sx`
fn guarded_op(r: &mut Rng, k: u64, rq: usize, sx: usize, n_users: usize) -> Op {
    let ent = 1 + r.below(n_users as u64) as usize;
    match k {
        0 => Op::Get { req: rq, sec: sx },
        1 => Op::Set { req: rq, sec: sx, big: false },
        2 => Op::Rotate { req: rq, sec: sx, big: false },
        3 => Op::Delete { req: rq, sec: sx },
        4 => Op::Grant { req: rq, ent, sec: sx, level: 1 + r.below(3) as u8, plain_api: r.chance(1, 3) },
        5 => Op::GrantTtl { req: rq, ent, sec: sx, level: 1 + r.below(3) as u8, ttl_ms: 6 + r.below(50) },
        6 => Op::Revoke { req: rq, ent, sec: sx },
        7 => Op::Delegate { parent: rq, child: ent, secs: vec![sx], level: 1 + r.below(3) as u8, ttl_ms: None },
        8 => Op::Probe { req: rq, sec: sx, kind: r.below(5) as u8 },
        9 => Op::GetVersion { req: rq, sec: sx, ver: 1 },
        10 => Op::Versions { req: rq, sec: sx, via_list: r.chance(1, 2) },
        11 => Op::Rollback { req: rq, sec: sx, ver: 1 },
        12 => Op::BatchGet { req: rq, secs: vec![sx] },
        13 => Op::BatchSet { req: rq, secs: vec![sx], big: vec![false], plain_api: r.chance(1, 2) },
        14 => Op::Wrap { req: rq, sec: sx },
        15 => Op::List { req: rq, pat: *r.pick(&[0u8, 2]), arg: sx, via: *r.pick(&[0u8, 1, 2]) },
        _ => Op::Perm { req: rq, sec: sx },
    }
}

/// outcome of one op: true = keep going, false = history aborted (time-ambiguous call)
fn exec(w: &mut World, m: &mut Model, rep: &mut Report, r: &mut Rng, stream: &str, op: &Op) -> bool {
    let res = |w: &mut World, x: Result<String, VaultError>| -> String {
        match x {
            Ok(s) => s,
            Err(e) => {
                w.errors.push(e.to_string());
                format!("err {}", err_kind(&e))
            }
        }
    };
    macro_rules! finish {
        ($tag:expr, $line:expr, $imp:expr, $t0:expr) => {{
            let t1 = w.now();
            if w.ambiguous($t0, t1) {
                rep.hit("history.aborted_time_ambiguous");
                rep.hit(&format!("history.aborted_time_ambiguous.{}.{}ms", $tag, (t1 - $t0) / 1000));
                return false;
            }
            let line: String = $line;
            let imp: String = $imp;
            let model = m.ask(&line);
            w.lines.push(format!("{line}   => {imp}"));
            let kind = imp.split(' ').take(if imp.starts_with("err") { 2 } else { 1 }).collect::<Vec<_>>().join("_");
            rep.hit(&format!("{}.{}", $tag, kind));
            let hist = w.lines.len();
            rep.compare(stream, || json!({"line": line, "history_len": hist, "tail": w.lines.iter().rev().take(25).rev().collect::<Vec<_>>()}), &imp, &model);
            imp
        }};
    }
    if let Some(rq) = op_requester(op) {
        if rq >= KEY_BASE {
            rep.hit(if w.key_secret(rq).is_some() { "requester.secret_node_key" } else { "requester.node_key_of_no_secret" });
        }
    }
    match op {
        Op::Perm { req, sec } => {
            let t0 = w.clear_time();
            let out = w.vault.get_permission(&w.req_str(*req), &w.sec_names[*sec].clone()).map(lvl);
            let imp = out.map_or("none".to_string(), |l| l.to_string());
            let line = format!("perm {t0} {req} {}", w.sec_ids[*sec]);
            let imp = finish!("permq", line.clone(), imp, t0);
            w.last_perm = imp.parse::<u8>().unwrap_or(0);
            if let Ok(l) = imp.parse::<u8>() {
                // whatever level it reports must be backed by a live grant of at least that level
                w.check_access(rep, "get_permission", *req, *sec, l, t0, &line);
            }
        }
        Op::Sleep { ms } => {
            std::thread::sleep(Duration::from_millis(*ms));
            w.lines.push(format!("sleep {ms}ms"));
            rep.hit("sleep");
        }
        Op::Set { req, sec, big } => {
            let (vid, val) = w.new_value(r, *big);
            let t0 = w.clear_time();
            let existed = w.sec_exists[*sec];
            let out = w.vault.set(&w.req_str(*req), &w.sec_names[*sec].clone(), &val).map(|()| "ok".to_string());
            let imp = res(w, out);
            let line = format!("set {t0} {req} {} {vid} {}", w.sec_ids[*sec], val.len());
            let imp = finish!("set", line.clone(), imp, t0);
            if imp == "ok" {
                w.after_write_ok(rep, "set", *req, *sec, existed, t0, &line);
            }
        }
        Op::Get { req, sec } => {
            let t0 = w.clear_time();
            let out = w.vault.get(&w.req_str(*req), &w.sec_names[*sec].clone());
            let out = out.map(|v| match w.value_id.get(&v) {
                Some(id) => format!("ok v{id}"),
                None => "ok v?".to_string(),
            });
            let imp = res(w, out);
            let line = format!("get {t0} {req} {}", w.sec_ids[*sec]);
            let imp = finish!("get", line.clone(), imp, t0);
            if imp.starts_with("ok") {
                w.check_access(rep, "get", *req, *sec, 1, t0, &line);
            }
        }
        Op::List { req, pat, arg, via } => {
            let t0 = w.clear_time();
            let (pattern, mp) = match pat {
                0 => ("*".to_string(), "all".to_string()),
                3 => (String::new(), "all".to_string()),
                1 => {
                    // namespace prefix of secret `arg` (only for namespaced names)
                    let name = &w.sec_names[*arg];
                    match name.find('/') {
                        Some(i) => (format!("{}*", &name[..=i]), format!("ns:{}", w.sec_ids[*arg] / 100)),
                        None => ("*".to_string(), "all".to_string()),
                    }
                }
                _ => (w.sec_names[*arg].clone(), format!("one:{}", w.sec_ids[*arg])),
            };
            let rq = w.req_str(*req);
            rep.hit(&format!("list.via{via}"));
            let out = match via {
                1 => w.vault.list_paginated(&rq, &pattern, 0, 0).map(|p| p.secrets),
                2 => w.vault.list_with_metadata(&rq, &pattern).map(|v| v.into_iter().map(|x| x.key).collect()),
                _ => w.vault.list(&rq, &pattern),
            };
            let mut listed: Vec<usize> = Vec::new();
            let out = out.map(|names| {
                let mut ids: Vec<u64> = Vec::new();
                for n in &names {
                    match w.sec_names.iter().position(|x| x == n) {
                        Some(i) => {
                            ids.push(w.sec_ids[i]);
                            listed.push(i);
                        }
                        None => ids.push(999_999),
                    }
                }
                ids.sort_unstable();
                format!("ok {}", if ids.is_empty() { "-".to_string() } else { ids.iter().map(|x| x.to_string()).collect::<Vec<_>>().join(",") })
            });
            let imp = res(w, out);
            let line = format!("list {t0} {req} {mp}");
            let _ = finish!("list", line.clone(), imp, t0);
            for s in listed {
                w.check_access(rep, "list", *req, s, 1, t0, &line);
                if !w.sec_exists[s] {
                    rep.violation("tensor_vault.list/lists_deleted_secret", "list returned a deleted secret", json!({"line": line}));
                }
            }
        }
        Op::Rotate { req, sec, big } => {
            let (vid, val) = w.new_value(r, *big);
            let t0 = w.clear_time();
            let out = w.vault.rotate(&w.req_str(*req), &w.sec_names[*sec].clone(), &val).map(|()| "ok".to_string());
            let imp = res(w, out);
            let line = format!("rotate {t0} {req} {} {vid} {}", w.sec_ids[*sec], val.len());
            let imp = finish!("rotate", line.clone(), imp, t0);
            if imp == "ok" {
                w.check_access(rep, "rotate", *req, *sec, 2, t0, &line);
            }
        }
        Op::Delete { req, sec } => {
            let t0 = w.clear_time();
            let out = w.vault.delete(&w.req_str(*req), &w.sec_names[*sec].clone()).map(|()| "ok".to_string());
            let imp = res(w, out);
            let line = format!("delete {t0} {req} {}", w.sec_ids[*sec]);
            let imp = finish!("delete", line.clone(), imp, t0);
            if imp == "ok" {
                w.check_access(rep, "delete", *req, *sec, 3, t0, &line);
                w.sec_exists[*sec] = false;
                w.sec_node[*sec] = None;
                for g in w.grants.iter_mut().filter(|g| g.sec == *sec) {
                    g.alive = false;
                    g.expiry = None;
                }
                w.members.retain(|(_, b, _)| *b != Nd::Sec(*sec));
            }
        }
        Op::Grant { req, ent, sec, level, plain_api } => {
            let t0 = w.clear_time();
            let (rq, en, sn) = (w.req_str(*req), w.idents[*ent].clone(), w.sec_names[*sec].clone());
            let out = if *plain_api && *level == 3 { w.vault.grant(&rq, &en, &sn) } else { w.vault.grant_with_permission(&rq, &en, &sn, perm_of(*level)) };
            let imp = res(w, out.map(|()| "ok".to_string()));
            let line = format!("grant {t0} {req} {ent} {} {level}", w.sec_ids[*sec]);
            let imp = finish!("grant", line.clone(), imp, t0);
            if imp == "ok" {
                w.check_access(rep, "grant", *req, *sec, 3, t0, &line);
                w.grants.push(Grant { ent: *ent, sec: *sec, level: *level, expiry: None, alive: true, deleg: None, cascade: None });
            }
        }
        Op::GrantTtl { req, ent, sec, level, ttl_ms } => {
            let t0 = w.clear_time();
            let (rq, en, sn) = (w.req_str(*req), w.idents[*ent].clone(), w.sec_names[*sec].clone());
            let out = w.vault.grant_with_ttl(&rq, &en, &sn, perm_of(*level), Duration::from_millis(*ttl_ms));
            let t1 = w.now();
            let imp = res(w, out.map(|()| "ok".to_string()));
            let line = format!("grantttl {t0} {req} {ent} {} {level} {}", w.sec_ids[*sec], ttl_ms * 1000);
            let imp = finish!("grantttl", line.clone(), imp, t0);
            if imp == "ok" {
                w.check_access(rep, "grant_with_ttl", *req, *sec, 3, t0, &line);
                w.grants.push(Grant { ent: *ent, sec: *sec, level: *level, expiry: Some((t0 + ttl_ms * 1000, t1 + ttl_ms * 1000)), alive: true, deleg: None, cascade: None });
            }
        }
        Op::Revoke { req, ent, sec } => {
            let t0 = w.clear_time();
            let (rq, en, sn) = (w.req_str(*req), w.idents[*ent].clone(), w.sec_names[*sec].clone());
            let out = w.vault.revoke(&rq, &en, &sn);
            let imp = res(w, out.map(|()| "ok".to_string()));
            let line = format!("revoke {t0} {req} {ent} {}", w.sec_ids[*sec]);
            let imp = finish!("revoke", line.clone(), imp, t0);
            if imp == "ok" {
                w.check_access(rep, "revoke", *req, *sec, 3, t0, &line);
                for g in w.grants.iter_mut().filter(|g| g.ent == *ent && g.sec == *sec) {
                    g.alive = false;
                    g.expiry = None;
                }
            }
        }
        Op::Delegate { parent, child, secs, level, ttl_ms } => {
            let t0 = w.clear_time();
            let (pa, ch) = (w.req_str(*parent), w.idents[*child].clone());
            let names: Vec<String> = secs.iter().map(|s| w.sec_names[*s].clone()).collect();
            let refs: Vec<&str> = names.iter().map(String::as_str).collect();
            let out = w.vault.delegate(&pa, &ch, &refs, perm_of(*level), ttl_ms.map(Duration::from_millis));
            let t1 = w.now();
            let mut eff = 0u8;
            let mut depth = 0u32;
            let outcomes = w.register_outcomes(*parent, *child);
            let out = out.map(|rec| {
                eff = lvl(rec.max_permission);
                depth = rec.delegation_depth;
                format!("ok l{eff}")
            });
            let imp = res(w, out);
            let line = format!(
                "delegate {t0} {parent} {child} {} {level} {}",
                secs.iter().map(|s| w.sec_ids[*s].to_string()).collect::<Vec<_>>().join(","),
                ttl_ms.map_or("-".to_string(), |t| (t * 1000).to_string())
            );
            let imp = finish!("delegate", line.clone(), imp, t0);
            if outcomes.len() > 1 {
                // (hand-written scenarios and the generators avoid these: the answer depends on DashMap order)
                rep.hit("delegate.order_dependent_call");
            }
            if imp.starts_with("ok") {
                if w.delegs.iter().any(|d| d.1 == *child && d.0 != *parent) {
                    rep.hit("delegate.child_with_second_parent");
                    if w.delegs.iter().any(|d| d.1 == *child && d.0 != *parent && d.3 != depth) {
                        rep.hit("delegate.child_at_two_depths");
                    }
                }
                if outcomes.len() == 1 && !outcomes.contains(&Some(depth)) {
                    rep.hit("delegate.depth_not_as_computed");
                    rep.note(&format!("delegate stored depth {depth}, the bookkeeping computed {outcomes:?}: {line}"));
                }
                w.delegs.retain(|d| !(d.0 == *parent && d.1 == *child));
                w.delegs.push((*parent, *child, secs.clone(), depth));
                if eff > *level {
                    rep.violation("tensor_vault.delegate/exceeds_parent_level", &format!("delegate answered effective level {eff} above the requested level {level}"), json!({"failing_call": line}));
                }
                for s in secs {
                    w.check_access(rep, "delegate", *parent, *s, *level, t0, &line);
                    // (a parent that is the secret's own node key was reported by `check_access` above)
                    if *parent != 0 && w.key_secret(*parent) != Some(*s) {
                        rep.hit("oracle.delegate_ceiling_checked");
                        let own = w.best_level(*parent, *s, t0, true);
                        if eff > own {
                            rep.violation(
                                "tensor_vault.delegate/exceeds_parent_level",
                                &format!("child received level {eff} although the parent's own best live grant gives level {own}"),
                                json!({"failing_call": line, "time_us": t0, "history_slice (model protocol)": w.relevant_history(*parent, *s)}),
                            );
                        }
                        if own < 3 {
                            if rep.distribution.get("observe.delegate_by_non_admin").is_none() {
                                rep.observe(json!({"what": "delegate() succeeded for a parent whose own live level on the secret is below Admin",
                                    "call": line, "parent_live_level": own, "effective_level_given_to_child": eff,
                                    "why_not_a_violation": "documented ceiling-model delegation (tensor-vault.md 'Delegation'; delegation.rs module doc): the property's 'granting requires admin' is read as grant/grant_with_ttl/revoke; the oracle instead checks effective <= requested <= parent's own live level"}));
                            }
                            rep.hit("observe.delegate_by_non_admin");
                        }
                    }
                    w.grants.push(Grant { ent: *child, sec: *s, level: eff, expiry: ttl_ms.map(|t| (t0 + t * 1000, t1 + t * 1000)), alive: true, deleg: Some((*parent, *child)), cascade: None });
                }
            }
        }
        Op::Undelegate { parent, child } => {
            let t0 = w.clear_time();
            let out = w.vault.revoke_delegation(&w.req_str(*parent), &w.idents[*child].clone());
            let out = out.map(|names| {
                let mut ids: Vec<u64> = names.iter().map(|n| w.sec_names.iter().position(|x| x == n).map_or(999_999, |i| w.sec_ids[i])).collect();
                ids.sort_unstable();
                format!("ok {}", if ids.is_empty() { "-".to_string() } else { ids.iter().map(|x| x.to_string()).collect::<Vec<_>>().join(",") })
            });
            let imp = res(w, out);
            let line = format!("undelegate {t0} {parent} {child}");
            let imp = finish!("undelegate", line, imp, t0);
            if imp.starts_with("ok") {
                w.delegs.retain(|d| !(d.0 == *parent && d.1 == *child));
                // only the grants of the record that was actually removed (a later delegate(parent, child, other
                // secrets) REPLACES the record; the earlier delegation's edges then stay and are still unrevoked)
                let revoked: Vec<u64> = imp.trim_start_matches("ok ").split(',').filter_map(|x| x.parse().ok()).collect();
                let sec_ids = w.sec_ids.clone();
                for g in w.grants.iter_mut().filter(|g| g.deleg == Some((*parent, *child)) && revoked.contains(&sec_ids[g.sec])) {
                    g.alive = false;
                    g.expiry = None;
                }
                // the code also drops every other grant child->secret and its TTL entries: forget those windows
                // (bookkeeping keeps the grants alive: the oracle is one-directional)
            }
        }
        Op::AddMember { a, b } => {
            let from = w.node_id(&w.idents[*a]);
            let Some(to) = w.nd_node(*b) else { return true };
            match w.graph.create_edge(from, to, "MEMBER", HashMap::new(), true) {
                Ok(id) => {
                    w.members.push((Nd::Ent(*a), *b, id));
                    let line = match b {
                        Nd::Ent(e) => format!("addmember {a} {e}"),
                        Nd::Sec(s) => format!("membersec {a} {}", w.sec_ids[*s]),
                    };
                    let t0 = w.now();
                    let _ = finish!("addmember", line, "ok".to_string(), t0);
                }
                Err(e) => rep.note(&format!("create_edge MEMBER failed: {e}")),
            }
        }
        Op::Probe { req, sec, kind } => {
            let t0 = w.clear_time();
            let (rq, sn) = (w.req_str(*req), w.sec_names[*sec].clone());
            let (name, need, must_exist, out): (&str, u8, u8, Result<(), VaultError>) = match kind {
                0 => {
                    let payload = b"transit payload \x00\x01".to_vec();
                    let o = w.vault.encrypt_for(&rq, &sn, &payload).and_then(|sealed| w.vault.decrypt_as(&rq, &sn, &sealed)).map(|back| {
                        if back != payload {
                            rep.note("encrypt_for / decrypt_as round trip returned different bytes");
                        }
                    });
                    ("encrypt_for", 1, 0, o)
                }
                1 => ("get_expiration", 1, 1, w.vault.get_expiration(&rq, &sn).map(|_| ())),
                2 => ("clear_expiration", 3, 1, w.vault.clear_expiration(&rq, &sn)),
                3 => ("changelog", 1, 0, w.vault.changelog(&rq, &sn).map(|_| ())),
                _ => ("diff_versions", 1, 1, w.vault.diff_versions(&rq, &sn, 1, 1).map(|_| ())),
            };
            let imp = res(w, out.map(|()| "ok".to_string()));
            let line = format!("probe {t0} {req} {} {need} {must_exist}", w.sec_ids[*sec]);
            rep.hit(&format!("probe.{name}"));
            let imp = finish!("probe", line.clone(), imp, t0);
            if imp == "ok" {
                w.check_access(rep, name, *req, *sec, need, t0, &line);
            }
        }
        Op::GetVersion { req, sec, ver } => {
            let t0 = w.clear_time();
            let out = w.vault.get_version(&w.req_str(*req), &w.sec_names[*sec].clone(), *ver);
            let out = out.map(|v| format!("ok {}", w.value_tag(&v)));
            let imp = res(w, out);
            let line = format!("getver {t0} {req} {} {ver}", w.sec_ids[*sec]);
            let imp = finish!("getver", line.clone(), imp, t0);
            if imp.starts_with("ok") {
                w.check_access(rep, "get_version", *req, *sec, 1, t0, &line);
            }
        }
        Op::Versions { req, sec, via_list } => {
            let t0 = w.clear_time();
            let (rq, sn) = (w.req_str(*req), w.sec_names[*sec].clone());
            let out = if *via_list { w.vault.list_versions(&rq, &sn).map(|v| v.len() as u32) } else { w.vault.current_version(&rq, &sn) };
            let imp = res(w, out.map(|n| format!("ok n{n}")));
            let line = format!("vercount {t0} {req} {}", w.sec_ids[*sec]);
            let imp = finish!("vercount", line.clone(), imp, t0);
            if imp.starts_with("ok") {
                w.check_access(rep, if *via_list { "list_versions" } else { "current_version" }, *req, *sec, 1, t0, &line);
            }
        }
        Op::Rollback { req, sec, ver } => {
            let t0 = w.clear_time();
            let out = w.vault.rollback(&w.req_str(*req), &w.sec_names[*sec].clone(), *ver).map(|()| "ok".to_string());
            let imp = res(w, out);
            let line = format!("rollback {t0} {req} {} {ver}", w.sec_ids[*sec]);
            let imp = finish!("rollback", line.clone(), imp, t0);
            if imp == "ok" {
                w.check_access(rep, "rollback", *req, *sec, 2, t0, &line);
            }
        }
        Op::BatchGet { req, secs } => {
            let t0 = w.clear_time();
            let names: Vec<String> = secs.iter().map(|s| w.sec_names[*s].clone()).collect();
            let refs: Vec<&str> = names.iter().map(String::as_str).collect();
            let out = w.vault.batch_get(&w.req_str(*req), &refs);
            let mut got: Vec<usize> = Vec::new();
            let mut errs: Vec<String> = Vec::new();
            let out = out.map(|results| {
                let mut items: Vec<String> = Vec::new();
                for (i, (k, r1)) in results.iter().enumerate() {
                    if names.get(i) != Some(k) {
                        items.push("key_mismatch".to_string());
                        continue;
                    }
                    match r1 {
                        Ok(v) => {
                            got.push(secs[i]);
                            items.push(w.value_tag(v));
                        }
                        Err(e) => {
                            errs.push(e.to_string());
                            items.push(format!("e:{}", err_kind(e)));
                        }
                    }
                }
                format!("ok {}", if items.is_empty() { "-".to_string() } else { items.join(",") })
            });
            w.errors.extend(errs);
            let imp = res(w, out);
            let line = format!("batchget {t0} {req} {}", if secs.is_empty() { "-".to_string() } else { secs.iter().map(|s| w.sec_ids[*s].to_string()).collect::<Vec<_>>().join(",") });
            let _ = finish!("batchget", line.clone(), imp, t0);
            for sx in got {
                rep.hit("batchget.entry_ok");
                w.check_access(rep, "batch_get", *req, sx, 1, t0, &line);
            }
        }
        Op::BatchSet { req, secs, big, plain_api } => {
            let mut vals: Vec<(usize, String)> = Vec::new();
            for b in big {
                vals.push(w.new_value(r, *b));
            }
            let t0 = w.clear_time();
            let names: Vec<String> = secs.iter().map(|s| w.sec_names[*s].clone()).collect();
            let entries: Vec<(&str, &str)> = names.iter().zip(vals.iter()).map(|(n, v)| (n.as_str(), v.1.as_str())).collect();
            let existed: Vec<bool> = secs.iter().map(|s| w.sec_exists[*s]).collect();
            let rq = w.req_str(*req);
            let mut errs: Vec<String> = Vec::new();
            let imp = if *plain_api && entries.len() == 1 {
                rep.hit("batchset.via_batch_set");
                match w.vault.batch_set(&rq, &entries) {
                    Ok(()) => "ok d".to_string(),
                    Err(e) => {
                        errs.push(e.to_string());
                        format!("ok e:{}", err_kind(&e))
                    }
                }
            } else {
                match w.vault.batch_set_detailed(&rq, &entries) {
                    Ok(resu) => {
                        let mut items: Vec<String> = names.iter().map(|_| "d".to_string()).collect();
                        for (k, e) in &resu.failed {
                            errs.push(e.to_string());
                            if let Some(i) = names.iter().position(|n| n == k) {
                                items[i] = format!("e:{}", err_kind(e));
                            }
                        }
                        if resu.succeeded != items.iter().filter(|x| *x == "d").count() {
                            items.push("succeeded_count_mismatch".to_string());
                        }
                        format!("ok {}", if items.is_empty() { "-".to_string() } else { items.join(",") })
                    }
                    Err(e) => {
                        errs.push(e.to_string());
                        format!("err {}", err_kind(&e))
                    }
                }
            };
            w.errors.extend(errs);
            let line = format!(
                "batchset {t0} {req} {}",
                if secs.is_empty() { "-".to_string() } else { secs.iter().zip(vals.iter()).map(|(s, v)| format!("{}:{}:{}", w.sec_ids[*s], v.0, v.1.len())).collect::<Vec<_>>().join(",") }
            );
            let imp = finish!("batchset", line.clone(), imp, t0);
            if let Some(rest) = imp.strip_prefix("ok ") {
                for (i, it) in rest.split(',').enumerate() {
                    if it == "d" && i < secs.len() {
                        rep.hit("batchset.entry_ok");
                        w.after_write_ok(rep, "batch_set", *req, secs[i], existed[i], t0, &line);
                    }
                }
            }
        }
        Op::Wrap { req, sec } => {
            let t0 = w.clear_time();
            let out = w.vault.wrap_secret(&w.req_str(*req), &w.sec_names[*sec].clone(), 600_000);
            let mut tok = None;
            let out = out.map(|t| {
                tok = Some(t);
                "ok".to_string()
            });
            let imp = res(w, out);
            let line = format!("wrap {t0} {req} {}", w.sec_ids[*sec]);
            let imp = finish!("wrap", line.clone(), imp, t0);
            if imp == "ok" {
                w.check_access(rep, "wrap_secret", *req, *sec, 1, t0, &line);
            }
            // keep the numbering in step with the model even if the comparison failed
            if let Some(t) = tok {
                w.tokens.push(t);
            }
        }
        Op::Unwrap { tok } => {
            let t0 = w.clear_time();
            let token = w.tokens.get(*tok).cloned().unwrap_or_else(|| "00".repeat(32));
            let out = w.vault.unwrap_secret(&token).map(|v| format!("ok {}", w.value_tag(&v)));
            let imp = res(w, out);
            let line = format!("unwrap {tok}");
            let _ = finish!("unwrap", line, imp, t0);
        }
        Op::UndelegateCascade { parent, child } => {
            // what has to go, from the harness's own copy of the records (not from the answer of the call, not from the model)
            let below: Vec<(usize, usize, Vec<usize>, u32)> = w.records_below(*parent, *child).into_iter().map(|i| w.delegs[i].clone()).collect();
            let agents: Vec<usize> = (1..w.idents.len()).filter(|a| *a <= w.n_users || w.delegs.iter().any(|d| d.1 == *a || d.0 == *a)).collect();
            let secs_now: Vec<usize> = (0..w.sec_names.len()).filter(|s| w.sec_exists[*s]).collect();
            let shape = (
                below.len(),
                below.iter().filter(|d| below.iter().any(|e| e.1 == d.1 && e.0 != d.0)).count(),
                below.iter().filter(|d| w.delegs.iter().any(|e| e.1 == d.1 && e.0 != d.0 && !below.iter().any(|b| b.0 == e.0 && b.1 == e.1))).count(),
            );
            rep.hit(&format!("undelegatec.shape.records_below_{}", shape.0.min(6)));
            if shape.1 > 0 {
                rep.hit("undelegatec.shape.agent_reached_through_two_revoked_records");
            }
            if shape.2 > 0 {
                rep.hit("undelegatec.shape.agent_keeps_a_delegation_from_outside");
            }
            // levels before (sweep 2): what must not change for the pairs the revoked records do not touch
            let mut before: BTreeMap<(usize, usize), u8> = BTreeMap::new();
            if w.sweep >= 2 {
                for &a in &agents {
                    for &sx in &secs_now {
                        if !exec(w, m, rep, r, stream, &Op::Perm { req: a, sec: sx }) {
                            return false;
                        }
                        before.insert((a, sx), w.last_perm);
                    }
                }
            }
            let t0 = w.clear_time();
            let out = w.vault.revoke_delegation_cascading(&w.req_str(*parent), &w.idents[*child].clone());
            let mut revoked: Vec<(usize, usize, Vec<usize>)> = Vec::new();
            let out = out.map(|recs| {
                let mut pairs: Vec<(usize, usize)> = Vec::new();
                for rec in &recs {
                    let p = w.idents.iter().position(|x| *x == rec.parent).unwrap_or(999_999);
                    let c = w.idents.iter().position(|x| *x == rec.child).unwrap_or(999_999);
                    pairs.push((p, c));
                    revoked.push((p, c, rec.secrets.iter().filter_map(|n| w.sec_names.iter().position(|x| x == n)).collect()));
                }
                pairs.sort_unstable();
                format!("ok {}", if pairs.is_empty() { "-".to_string() } else { pairs.iter().map(|(p, c)| format!("{p}>{c}")).collect::<Vec<_>>().join(",") })
            });
            let imp = res(w, out);
            let line = format!("undelegatec {t0} {parent} {child}");
            let imp = finish!("undelegatec", line.clone(), imp, t0);
            if imp.starts_with("ok") {
                rep.hit_n("undelegatec.records_revoked", revoked.len() as u64);
                // bookkeeping: every record below the revoked one is dead whether or not the call says so; what the
                // call reports beyond that (a cascade from a pair that has no record still clears what hangs below the
                // child) is dead too
                let mut dead: Vec<(usize, usize, Vec<usize>)> = below.iter().map(|d| (d.0, d.1, d.2.clone())).collect();
                for x in &revoked {
                    if !dead.iter().any(|d| d.0 == x.0 && d.1 == x.1) {
                        dead.push(x.clone());
                    }
                }
                for (p, c, secs) in &dead {
                    w.delegs.retain(|d| !(d.0 == *p && d.1 == *c));
                    for g in w.grants.iter_mut().filter(|g| g.alive && g.deleg == Some((*p, *c)) && secs.contains(&g.sec)) {
                        g.alive = false;
                        g.cascade = Some((line.clone(), g.expiry));
                        g.expiry = None;
                    }
                }
                // the records themselves: none below the revoked one may be left in the manager or at rest
                let persisted = w.vstore.scan("_vdel:");
                for d in &below {
                    let (ps, cs) = (w.req_str(d.0), w.idents[d.1].clone());
                    let in_mgr = w.vault.delegation_manager().get_delegation(&ps, &cs).is_some();
                    let at_rest = persisted.iter().any(|k| *k == format!("_vdel:{ps}:{cs}"));
                    if in_mgr || at_rest {
                        let class = "tensor_vault.revoke_delegation_cascading/delegation_record_survives";
                        rep.hit(&format!("violation.{class}"));
                        rep.violation(
                            class,
                            &format!("the delegation record {} -> {} lies below the revoked delegation {parent} -> {child} and is still there after the cascading revocation (in the manager: {in_mgr}, persisted under _vdel: {at_rest})", d.0, d.1),
                            json!({"failing_call": line, "records_below_the_revoked_one (parent, child, secrets, depth)": below.iter().map(|d| format!("{:?}", (d.0, d.1, d.2.iter().map(|s| w.sec_ids[*s]).collect::<Vec<_>>(), d.3))).collect::<Vec<_>>(),
                                   "records_the_call_reported": imp, "history (model protocol; identity 0 = root)": w.lines.iter().filter(|l| l.starts_with("pol") || l.contains("deleg") || l.starts_with("reopen")).collect::<Vec<_>>()}),
                        );
                    }
                }
                // probes: every (agent, secret) pair through get_permission (and get); `check_access` files a
                // success that only a removed delegation explains under revoke_delegation_cascading/derived_access_survives
                if w.sweep >= 1 {
                    let touched: BTreeSet<(usize, usize)> = dead.iter().flat_map(|(_, c, secs)| secs.iter().map(move |s| (*c, *s))).collect();
                    for &a in &agents {
                        for &sx in &secs_now {
                            if !exec(w, m, rep, r, stream, &Op::Perm { req: a, sec: sx }) {
                                return false;
                            }
                            let after = w.last_perm;
                            rep.hit("undelegatec.probe.get_permission");
                            if touched.contains(&(a, sx)) {
                                rep.hit(if after == 0 { "undelegatec.probe.revoked_pair_has_nothing" } else { "undelegatec.probe.revoked_pair_keeps_other_access" });
                            }
                            if let Some(&b) = before.get(&(a, sx)) {
                                // a pair none of the revoked records (nor anything the requester is a MEMBER of) touches,
                                // with no expiry pending on the secret, keeps exactly what it had
                                let reach: Vec<Nd> = w.dists(Nd::Ent(a)).keys().copied().collect();
                                let near = reach.iter().any(|n| matches!(n, Nd::Ent(e) if touched.contains(&(*e, sx))));
                                let timed = w.grants.iter().any(|g| g.sec == sx && g.expiry.is_some());
                                if !near && !timed {
                                    rep.hit("undelegatec.probe.untouched_pair_compared");
                                    if b > 0 {
                                        rep.hit("undelegatec.probe.untouched_pair_keeps_access");
                                    }
                                    if after < b {
                                        let class = "tensor_vault.revoke_delegation_cascading/unrelated_access_removed";
                                        rep.hit(&format!("violation.{class}"));
                                        rep.violation(
                                            class,
                                            &format!("identity {a} held level {b} on secret {} through grants that are not below the revoked delegation {parent} -> {child}; after the cascading revocation get_permission answers level {after}", w.sec_ids[sx]),
                                            json!({"failing_call": line, "records_below_the_revoked_one": below.iter().map(|d| format!("{:?}", (d.0, d.1, d.2.iter().map(|s| w.sec_ids[*s]).collect::<Vec<_>>()))).collect::<Vec<_>>(),
                                                   "history_slice (model protocol)": w.relevant_history(a, sx)}),
                                        );
                                    }
                                }
                            }
                            if w.sweep >= 2 || touched.contains(&(a, sx)) {
                                if !exec(w, m, rep, r, stream, &Op::Get { req: a, sec: sx }) {
                                    return false;
                                }
                                rep.hit("undelegatec.probe.get");
                            }
                        }
                    }
                }
            }
        }
        Op::Reopen => {
            // not within 8 ms before / 3.5 ms after a pending expiry: the persisted tracker keeps unix MILLISECONDS
            let t0 = w.clear_time_guard(8000, 3500);
            let out = Vault::new(&w.pw, w.graph.clone(), w.vstore.clone(), w.cfg.clone());
            let imp = match out {
                Ok(v) => {
                    w.vault = v;
                    "ok".to_string()
                }
                Err(e) => {
                    w.errors.push(e.to_string());
                    format!("err {}", err_kind(&e))
                }
            };
            // every still-pending expiry may have moved by a rounding step (to-millisecond truncation at persist and
            // at load); expiries that passed more than 3 ms ago cannot come back
            for g in w.grants.iter_mut() {
                if let Some((lo, hi)) = g.expiry {
                    if hi + 3000 > t0 {
                        g.expiry = Some((lo.saturating_sub(2500), hi + 2500));
                    }
                }
            }
            let line = format!("reopen {t0}");
            let _ = finish!("reopen", line, imp, t0);
        }
        Op::SetExact { req, sec, bytes, rotate } => {
            let id = w.values.len();
            let mut val = format!("#{id}#");
            while val.len() < *bytes {
                val.push((b'a' + (val.len() % 26) as u8) as char);
            }
            val.truncate(*bytes);
            w.values.push(val.clone());
            w.value_id.insert(val.clone(), id);
            let t0 = w.clear_time();
            let existed = w.sec_exists[*sec];
            let (rq, sn) = (w.req_str(*req), w.sec_names[*sec].clone());
            let out = if *rotate { w.vault.rotate(&rq, &sn, &val) } else { w.vault.set(&rq, &sn, &val) };
            let imp = res(w, out.map(|()| "ok".to_string()));
            let tag = if *rotate { "rotate" } else { "set" };
            let line = format!("{tag} {t0} {req} {} {id} {}", w.sec_ids[*sec], val.len());
            rep.hit(&format!("exact_size.{tag}.{bytes}"));
            let imp = finish!(tag, line.clone(), imp, t0);
            if imp == "ok" {
                if *rotate {
                    w.check_access(rep, "rotate", *req, *sec, 2, t0, &line);
                } else {
                    w.after_write_ok(rep, "set", *req, *sec, existed, t0, &line);
                }
            }
        }
        Op::RawEdge { a, b, ty, cap, sig, undirected } => {
            let from = w.node_id(&w.idents[*a]);
            let Some(to) = w.nd_node(*b) else { return true };
            let mut props = HashMap::new();
            if *cap != 0 {
                props.insert("vault_capacity".to_string(), PropertyValue::Int(*cap as i64));
            }
            // signature classes: 0 = random signature + timestamp (must be rejected), 1 = unsigned (legacy: accepted),
            // 2 = signature bytes WITHOUT timestamp (treated as unsigned: accepted), 3 = a genuine signature
            // transplanted from root's own edge to the first secret (other source: must be rejected),
            // 4 = timestamp without signature (unsigned: accepted)
            let mut sig_ok = true;
            match sig {
                0 => {
                    props.insert("vault_sig".to_string(), PropertyValue::Bytes(r.bytes(32)));
                    props.insert("vault_sig_ts".to_string(), PropertyValue::Int(12345));
                    sig_ok = false;
                }
                2 => {
                    props.insert("vault_sig".to_string(), PropertyValue::Bytes(r.bytes(32)));
                }
                3 => {
                    let root = w.node_id(ROOT);
                    let donor = w.graph.edges_of(root, Direction::Outgoing).ok().and_then(|es| es.into_iter().find(|e| e.properties.contains_key("vault_sig")));
                    if let (Some(d), true) = (donor, *a != 0) {
                        if let (Some(sg), Some(ts)) = (d.properties.get("vault_sig"), d.properties.get("vault_sig_ts")) {
                            props.insert("vault_sig".to_string(), sg.clone());
                            props.insert("vault_sig_ts".to_string(), ts.clone());
                            sig_ok = false;
                        }
                    }
                }
                4 => {
                    props.insert("vault_sig_ts".to_string(), PropertyValue::Int(12345));
                }
                _ => {}
            }
            let t0 = w.clear_time();
            match w.graph.create_edge(from, to, *ty, props, !*undirected) {
                Ok(id) => {
                    if is_memberish(ty) {
                        w.members.push((Nd::Ent(*a), *b, id));
                        if *undirected {
                            w.members.push((*b, Nd::Ent(*a), id));
                        }
                    }
                    let (dk, dn) = match b {
                        Nd::Ent(e) => ("e", *e as u64),
                        Nd::Sec(s) => ("s", w.sec_ids[*s]),
                    };
                    let line = format!("rawedge {a} {dk} {dn} {ty} {cap} {} {}", u8::from(sig_ok), if *undirected { "u" } else { "d" });
                    rep.hit(&format!("rawedge.type.{ty}"));
                    rep.hit(&format!("rawedge.sig_class{sig}"));
                    rep.hit(if *undirected { "rawedge.undirected" } else { "rawedge.directed" });
                    let _ = finish!("rawedge", line, "ok".to_string(), t0);
                }
                Err(e) => rep.note(&format!("create_edge {ty} failed: {e}")),
            }
        }
        Op::DelMember { a, b } => {
            let ids: Vec<u64> = w.members.iter().filter(|(x, y, _)| *x == Nd::Ent(*a) && y == b).map(|t| t.2).collect();
            for id in ids {
                let _ = w.graph.delete_edge(id);
            }
            w.members.retain(|(x, y, _)| !(*x == Nd::Ent(*a) && y == b));
            let line = match b {
                Nd::Ent(e) => format!("delmember {a} {e}"),
                Nd::Sec(s) => format!("delmembersec {a} {}", w.sec_ids[*s]),
            };
            let t0 = w.now();
            let _ = finish!("delmember", line, "ok".to_string(), t0);
        }
    }
    true
}

fn gen_op(w: &World, r: &mut Rng) -> Op {
    let nid = w.idents.len();
    let nsec = w.sec_names.len();
    let existing: Vec<usize> = (0..nsec).filter(|&i| w.sec_exists[i]).collect();
    // a secret whose node key is known (created at some point; the string stays valid after a delete)
    let keyed: Vec<usize> = (0..nsec).filter(|&i| w.sec_key[i].is_some()).collect();
    let node_key = |r: &mut Rng| -> usize {
        if keyed.is_empty() || r.chance(1, 6) {
            KEY_NO_SECRET + r.below(3) as usize
        } else {
            KEY_BASE + w.sec_ids[*r.pick(&keyed)] as usize
        }
    };
    let requester = |r: &mut Rng| -> usize {
        if r.chance(1, 4) {
            0
        } else if r.chance(1, 16) {
            // not an identity: the graph key of some secret's node
            node_key(r)
        } else {
            1 + r.below(w.n_users as u64) as usize
        }
    };
    let sec = |r: &mut Rng| -> usize {
        if !existing.is_empty() && r.chance(9, 10) {
            *r.pick(&existing)
        } else {
            r.below(nsec as u64) as usize
        }
    };
    if existing.len() < 2 || (existing.len() < nsec && r.chance(1, 25)) {
        let missing: Vec<usize> = (0..nsec).filter(|&i| !w.sec_exists[i]).collect();
        return Op::Set { req: 0, sec: *r.pick(&missing), big: false };
    }
    // an identity that currently holds a grant on some secret (so non-root admin ops happen)
    let holder = |r: &mut Rng, min: u8| -> Option<(usize, usize)> {
        let c: Vec<(usize, usize)> = w.grants.iter().filter(|g| g.alive && g.level >= min && g.ent >= 1 && g.ent <= w.n_users && w.sec_exists[g.sec]).map(|g| (g.ent, g.sec)).collect();
        if c.is_empty() {
            None
        } else {
            Some(*r.pick(&c))
        }
    };
    if !existing.is_empty() && r.chance(1, 16) {
        // the graph key of a secret's node as requester, 3 times in 4 on that very secret (the `source == target`
        // shortcut of the path search), every guarded call
        let sx = *r.pick(&existing);
        let rq = if r.chance(3, 4) { KEY_BASE + w.sec_ids[sx] as usize } else { node_key(r) };
        let k = r.below(17);
        // the destructive ones more rarely: they only matter when the check is broken
        let k = if k == 3 && r.chance(1, 2) { 0 } else { k };
        return guarded_op(r, k, rq, sx, w.n_users);
    }
    match r.below(100) {
        0..=16 => {
            if let (true, Some((e, s))) = (r.chance(1, 2), holder(r, 1)) {
                Op::Get { req: e, sec: s }
            } else {
                Op::Get { req: requester(r), sec: sec(r) }
            }
        }
        17..=21 => {
            // the other read / overwrite paths: old versions, version count, rollback
            let (rq, sx) = match (r.chance(2, 3), holder(r, 1)) {
                (true, Some(x)) => x,
                _ => (requester(r), sec(r)),
            };
            let ver = *r.pick(&[0u32, 1, 1, 2, 2, 3, 4, 7]);
            match r.below(7) {
                0 | 1 => Op::GetVersion { req: rq, sec: sx, ver },
                2 => Op::Versions { req: rq, sec: sx, via_list: r.chance(1, 2) },
                3 | 4 => Op::Rollback { req: rq, sec: sx, ver },
                5 => Op::Perm { req: rq, sec: sx },
                _ => Op::Probe { req: rq, sec: sx, kind: r.below(5) as u8 },
            }
        }
        22..=29 => Op::List { req: requester(r), pat: r.below(4) as u8, arg: sec(r), via: *r.pick(&[0u8, 0, 1, 2]) },
        30..=37 => {
            if let (true, Some((e, s))) = (r.chance(2, 3), holder(r, 1)) {
                Op::Set { req: e, sec: s, big: r.chance(1, 12) }
            } else {
                Op::Set { req: requester(r), sec: sec(r), big: r.chance(1, 12) }
            }
        }
        38..=40 => {
            // batch calls over 0-4 DISTINCT secrets (existing and not), by a holder or anybody
            let (rq, s0) = match (r.chance(1, 2), holder(r, 1)) {
                (true, Some(x)) => x,
                _ => (requester(r), sec(r)),
            };
            let mut secs = vec![s0];
            for _ in 0..r.below(4) {
                let sx = if r.chance(1, 4) { r.below(nsec as u64) as usize } else { sec(r) };
                if !secs.contains(&sx) {
                    secs.push(sx);
                }
            }
            if r.chance(1, 15) {
                secs.clear();
            }
            if r.chance(1, 2) {
                Op::BatchGet { req: rq, secs }
            } else {
                let big = secs.iter().map(|_| r.chance(1, 10)).collect();
                Op::BatchSet { req: rq, secs, big, plain_api: r.chance(1, 2) }
            }
        }
        41..=42 => {
            if !w.tokens.is_empty() && r.chance(1, 2) {
                Op::Unwrap { tok: r.below(w.tokens.len() as u64 + 1) as usize }
            } else if let (true, Some((e, s))) = (r.chance(2, 3), holder(r, 1)) {
                Op::Wrap { req: e, sec: s }
            } else {
                Op::Wrap { req: requester(r), sec: sec(r) }
            }
        }
        43..=48 => {
            if let (true, Some((e, s))) = (r.chance(2, 3), holder(r, 1)) {
                Op::Rotate { req: e, sec: s, big: r.chance(1, 20) }
            } else {
                Op::Rotate { req: requester(r), sec: sec(r), big: false }
            }
        }
        49..=51 => {
            if let (true, Some((e, s))) = (r.chance(1, 2), holder(r, 3)) {
                Op::Delete { req: e, sec: s }
            } else {
                Op::Delete { req: requester(r), sec: sec(r) }
            }
        }
        52..=61 => {
            let ent = 1 + r.below(nid as u64 - 1) as usize;
            let level = 1 + r.below(3) as u8;
            if let (true, Some((e, s))) = (r.chance(1, 3), holder(r, 2)) {
                Op::Grant { req: e, ent, sec: s, level, plain_api: r.chance(1, 3) }
            } else {
                Op::Grant { req: if r.chance(2, 3) { 0 } else { requester(r) }, ent, sec: sec(r), level, plain_api: r.chance(1, 3) }
            }
        }
        62..=71 => {
            let ent = 1 + r.below(nid as u64 - 1) as usize;
            let level = 1 + r.below(3) as u8;
            let ttl_ms = 6 + r.below(50);
            if let (true, Some((e, s))) = (r.chance(1, 4), holder(r, 3)) {
                Op::GrantTtl { req: e, ent, sec: s, level, ttl_ms }
            } else {
                Op::GrantTtl { req: if r.chance(3, 4) { 0 } else { requester(r) }, ent, sec: sec(r), level, ttl_ms }
            }
        }
        72..=76 => {
            let ent = 1 + r.below(nid as u64 - 1) as usize;
            if let (true, Some((e, s))) = (r.chance(1, 2), holder(r, 3)) {
                Op::Revoke { req: e, ent, sec: s }
            } else {
                Op::Revoke { req: requester(r), ent, sec: sec(r) }
            }
        }
        77..=82 => {
            // delegate.  DelegationManager::delegation_depth / is_ancestor take "a" record whose child is the agent, in
            // DashMap iteration order: a call is generated only when every pick gives the same answer and the same
            // stored depth (`register_outcomes`), which still lets an agent collect several delegating parents —
            // diamonds, the same agent below two branches, a second parent outside the branch
            let (parent, s0) = match (r.chance(2, 3), holder(r, 1)) {
                (true, Some(x)) => x,
                _ => (requester(r), sec(r)),
            };
            let mut child = 1 + r.below(w.n_users as u64) as usize;
            if !w.delegs.is_empty() && r.chance(1, 3) {
                // an agent that already holds a delegation (from this or another parent)
                child = r.pick(&w.delegs).1;
            }
            for _ in 0..4 {
                if w.register_outcomes(parent, child).len() != 1 {
                    child = 1 + r.below(w.n_users as u64) as usize;
                }
            }
            if w.register_outcomes(parent, child).len() != 1 {
                return Op::Get { req: requester(r), sec: sec(r) };
            }
            let mut secs = vec![s0];
            if r.chance(1, 4) {
                let s1 = sec(r);
                if s1 != s0 {
                    secs.push(s1);
                }
            }
            Op::Delegate { parent, child, secs, level: 1 + r.below(3) as u8, ttl_ms: if r.chance(1, 3) { Some(6 + r.below(40)) } else { None } }
        }
        83..=84 => {
            let cascade = r.chance(2, 5) || (w.delegs.len() >= 3 && r.chance(1, 2));
            let (p, c) = if !w.delegs.is_empty() && r.chance(4, 5) {
                let (p, c, _, _) = r.pick(&w.delegs).clone();
                // a cascade may also start at a node that has no direct record from `p`
                if cascade && r.chance(1, 4) { (requester(r), c) } else { (p, c) }
            } else {
                (requester(r), 1 + r.below(w.n_users as u64) as usize)
            };
            if cascade {
                Op::UndelegateCascade { parent: p, child: c }
            } else {
                Op::Undelegate { parent: p, child: c }
            }
        }
        85..=90 => {
            let a = 1 + r.below(nid as u64 - 1) as usize;
            let b = match r.below(12) {
                0 => Nd::Ent(0),
                1 if !existing.is_empty() => Nd::Sec(*r.pick(&existing)),
                _ => Nd::Ent(1 + r.below(nid as u64 - 1) as usize),
            };
            if b == Nd::Ent(a) {
                Op::Sleep { ms: 1 }
            } else if r.chance(1, 3) {
                // an edge of a type outside the allowlist (must change nothing, not even the error kind), or an
                // allow-listed type that merely starts with MEMBER
                let ty = if r.chance(2, 3) { *r.pick(OTHER_TYPES) } else { *r.pick(MEMBERISH_TYPES) };
                Op::RawEdge { a, b, ty, cap: *r.pick(&[0u64, 0, 3]), sig: *r.pick(&[1u8, 1, 0]), undirected: false }
            } else {
                Op::AddMember { a, b }
            }
        }
        91..=93 => {
            if w.members.is_empty() {
                Op::Sleep { ms: 1 }
            } else {
                let (a, b, _) = *r.pick(&w.members);
                match a {
                    Nd::Ent(a) => Op::DelMember { a, b },
                    Nd::Sec(_) => Op::Sleep { ms: 1 },
                }
            }
        }
        94 => Op::Reopen,
        _ => Op::Sleep { ms: 2 + r.below(21) },
    }
}

/// regression case for ad58047e, built once the world (and so the secrets' model ids) exists: root stores two secrets
/// and grants user 1 Read on the first; then the requester string `vault_secret:<obfuscated name>` of the first
/// secret tries every guarded call on that secret (where the path search would answer Admin through
/// `source == target`), on the other secret, and on a name that is not stored; so do the node key of the other
/// secret and a node key of no secret.  Every one of these must be refused; the destructive call comes last.
fn node_key_scenario(w: &World) -> Vec<Op> {
    let k0 = KEY_BASE + w.sec_ids[0] as usize;
    let k1 = KEY_BASE + w.sec_ids[1] as usize;
    let kx = KEY_NO_SECRET;
    let mut ops = vec![
        Op::Set { req: 0, sec: 0, big: false },
        Op::Set { req: 0, sec: 1, big: false },
        Op::Set { req: 0, sec: 0, big: false },
        Op::Grant { req: 0, ent: 1, sec: 0, level: 1, plain_api: false },
        Op::Perm { req: k0, sec: 0 },
        Op::Get { req: k0, sec: 0 },
        Op::GetVersion { req: k0, sec: 0, ver: 1 },
        Op::Versions { req: k0, sec: 0, via_list: false },
        Op::Versions { req: k0, sec: 0, via_list: true },
        Op::Wrap { req: k0, sec: 0 },
    ];
    for kind in 0..5 {
        ops.push(Op::Probe { req: k0, sec: 0, kind });
    }
    ops.extend([
        Op::BatchGet { req: k0, secs: vec![0, 1] },
        Op::List { req: k0, pat: 0, arg: 0, via: 0 },
        Op::List { req: k0, pat: 2, arg: 0, via: 1 },
        Op::List { req: k0, pat: 0, arg: 0, via: 2 },
        Op::Set { req: k0, sec: 0, big: false },
        Op::Rotate { req: k0, sec: 0, big: false },
        Op::Rollback { req: k0, sec: 0, ver: 1 },
        Op::BatchSet { req: k0, secs: vec![0], big: vec![false], plain_api: false },
        Op::BatchSet { req: k0, secs: vec![0], big: vec![false], plain_api: true },
        Op::Grant { req: k0, ent: 2, sec: 0, level: 3, plain_api: true },
        Op::Get { req: 2, sec: 0 },
        Op::GrantTtl { req: k0, ent: 3, sec: 0, level: 1, ttl_ms: 600_000 },
        Op::Revoke { req: k0, ent: 1, sec: 0 },
        Op::Delegate { parent: k0, child: 3, secs: vec![0], level: 1, ttl_ms: None },
        Op::Get { req: 3, sec: 0 },
        // the same string on another secret, another secret's key here, a key of no secret, a name not stored
        Op::Get { req: k0, sec: 1 },
        Op::Perm { req: k0, sec: 1 },
        Op::Get { req: k1, sec: 0 },
        Op::Perm { req: k1, sec: 0 },
        Op::Get { req: kx, sec: 0 },
        Op::Perm { req: kx, sec: 0 },
        Op::List { req: kx, pat: 0, arg: 0, via: 0 },
        Op::Set { req: k0, sec: 2, big: false },
        Op::Get { req: k0, sec: 2 },
        // group membership does not turn the string into an identity either: user 1 (Read holder) made a member OF
        // nothing new; the key still gets nothing after unrelated graph changes
        Op::AddMember { a: 2, b: Nd::Ent(1) },
        Op::Get { req: k0, sec: 0 },
        // destructive one last
        Op::Delete { req: k0, sec: 0 },
        // controls: the identities are served as before
        Op::Get { req: 1, sec: 0 },
        Op::Get { req: 2, sec: 0 },
        Op::Perm { req: 1, sec: 0 },
        Op::Get { req: 0, sec: 0 },
    ]);
    ops
}

fn policies() -> Vec<Pol> {
    vec![
        Pol { admin_limit: 1, write_limit: 2, horizon: 10 },
        Pol { admin_limit: 1, write_limit: 2, horizon: 2 },
        Pol { admin_limit: 2, write_limit: 3, horizon: 4 },
        Pol { admin_limit: 0, write_limit: 1, horizon: 3 },
        Pol { admin_limit: 3, write_limit: 3, horizon: 1 },
        Pol { admin_limit: 1, write_limit: 1, horizon: 5 },
    ]
}

// ------------------------------------------------------------------ streams

fn directed(m: &mut Model, rep: &mut Report, root: &Rng, seen: &mut BTreeSet<String>) {
    // each scenario: list of ops on a world with 3 users (1,2,3), groups 4,5, secrets 0..2
    let scenarios: Vec<(&str, Vec<Op>)> = vec![
        // runs FIRST on every seed: regression case for ad58047e (ops built by `node_key_scenario` once the world exists)
        ("secret-node-key-as-identity", Vec::new()),
        (
            // runs on every seed: the two persistence sites that still hold the secret name in clear
            // (known findings ttl.persist / delegation.persist, and their consequence in the snapshot).
            // Long TTLs: nothing expires before the scan at the end of the scenario.
            "names-at-rest-known",
            vec![
                Op::Set { req: 0, sec: 0, big: false },
                Op::Set { req: 0, sec: 1, big: false },
                Op::GrantTtl { req: 0, ent: 1, sec: 0, level: 2, ttl_ms: 600_000 },
                Op::Delegate { parent: 1, child: 2, secs: vec![0], level: 1, ttl_ms: None },
                Op::Delegate { parent: 0, child: 3, secs: vec![1], level: 2, ttl_ms: Some(600_000) },
                Op::Get { req: 2, sec: 0 },
                Op::Set { req: 3, sec: 1, big: false },
            ],
        ),
        // ---- cascading revocation over delegation graphs that are NOT trees (5 agents: A=1 B=2 C=3 D=4 E=5).  Every
        // cascading revocation is preceded and followed by get_permission for every (agent, secret) pair and followed
        // by get for every pair (`sweep` 2); what has to go is computed from the harness's own copy of the records.
        (
            // D holds delegations from B (s0) and from C (s1), both below A -> B: nothing of B, C, D may survive
            "cascade-dag-diamond-two-secrets",
            vec![
                Op::Set { req: 0, sec: 0, big: false },
                Op::Set { req: 0, sec: 1, big: false },
                Op::Grant { req: 0, ent: 1, sec: 0, level: 3, plain_api: true },
                Op::Grant { req: 0, ent: 1, sec: 1, level: 3, plain_api: true },
                Op::Delegate { parent: 1, child: 2, secs: vec![0, 1], level: 2, ttl_ms: None },
                Op::Delegate { parent: 2, child: 3, secs: vec![0, 1], level: 1, ttl_ms: None },
                Op::Delegate { parent: 2, child: 4, secs: vec![0], level: 1, ttl_ms: None },
                Op::Delegate { parent: 3, child: 4, secs: vec![1], level: 1, ttl_ms: None },
                Op::Get { req: 4, sec: 1 },
                Op::UndelegateCascade { parent: 1, child: 2 },
                Op::List { req: 4, pat: 0, arg: 0, via: 0 },
                Op::Get { req: 1, sec: 1 },
                Op::UndelegateCascade { parent: 1, child: 2 },
            ],
        ),
        (
            // the same graph cut at the inner record B -> C: C -> D goes, B -> D and everything of B stays
            "cascade-dag-inner-record",
            vec![
                Op::Set { req: 0, sec: 0, big: false },
                Op::Set { req: 0, sec: 1, big: false },
                Op::Grant { req: 0, ent: 1, sec: 0, level: 3, plain_api: true },
                Op::Grant { req: 0, ent: 1, sec: 1, level: 3, plain_api: true },
                Op::Delegate { parent: 1, child: 2, secs: vec![0, 1], level: 2, ttl_ms: None },
                Op::Delegate { parent: 2, child: 3, secs: vec![0, 1], level: 1, ttl_ms: None },
                Op::Delegate { parent: 2, child: 4, secs: vec![0], level: 1, ttl_ms: None },
                Op::Delegate { parent: 3, child: 4, secs: vec![1], level: 1, ttl_ms: None },
                Op::UndelegateCascade { parent: 2, child: 3 },
                Op::UndelegateCascade { parent: 1, child: 2 },
            ],
        ),
        (
            // D's second delegating parent is outside the revoked branch: D keeps s1, loses s0; then the other branch
            "cascade-dag-second-parent-outside",
            vec![
                Op::Set { req: 0, sec: 0, big: false },
                Op::Set { req: 0, sec: 1, big: false },
                Op::Grant { req: 0, ent: 1, sec: 0, level: 3, plain_api: true },
                Op::Grant { req: 0, ent: 3, sec: 1, level: 3, plain_api: true },
                Op::Delegate { parent: 1, child: 2, secs: vec![0], level: 2, ttl_ms: None },
                Op::Delegate { parent: 2, child: 4, secs: vec![0], level: 1, ttl_ms: None },
                Op::Delegate { parent: 3, child: 4, secs: vec![1], level: 1, ttl_ms: None },
                Op::UndelegateCascade { parent: 1, child: 2 },
                Op::UndelegateCascade { parent: 3, child: 4 },
            ],
        ),
        (
            // diamond with both branches at the same depth, D delegates onward to E; attempts to close a cycle back to
            // an ancestor (refused whichever parent record the walk takes) and to delegate to oneself; cut one branch:
            // D -> E goes (it was delegated onward from B -> D), C -> D stays; D delegates again; cut the other branch
            "cascade-dag-diamond-onward-and-cycle-attempts",
            vec![
                Op::Set { req: 0, sec: 0, big: false },
                Op::Set { req: 0, sec: 1, big: false },
                Op::Grant { req: 0, ent: 1, sec: 0, level: 3, plain_api: true },
                Op::Grant { req: 0, ent: 1, sec: 1, level: 3, plain_api: true },
                Op::Delegate { parent: 1, child: 2, secs: vec![0, 1], level: 2, ttl_ms: None },
                Op::Delegate { parent: 1, child: 3, secs: vec![0, 1], level: 2, ttl_ms: None },
                Op::Delegate { parent: 2, child: 4, secs: vec![0], level: 2, ttl_ms: None },
                Op::Delegate { parent: 3, child: 4, secs: vec![1], level: 2, ttl_ms: None },
                Op::Delegate { parent: 4, child: 5, secs: vec![0, 1], level: 1, ttl_ms: None },
                Op::Delegate { parent: 5, child: 1, secs: vec![0], level: 1, ttl_ms: None },
                Op::Delegate { parent: 4, child: 1, secs: vec![1], level: 1, ttl_ms: None },
                Op::Delegate { parent: 2, child: 2, secs: vec![0], level: 1, ttl_ms: None },
                Op::UndelegateCascade { parent: 1, child: 2 },
                Op::Delegate { parent: 4, child: 5, secs: vec![1], level: 1, ttl_ms: None },
                Op::Get { req: 5, sec: 1 },
                Op::UndelegateCascade { parent: 1, child: 3 },
            ],
        ),
        (
            // both parents delegate the SAME secret to D: revoking B -> D drops every edge D -> s0 (the record C -> D
            // stays; fail-closed, the model mirrors it); C delegates again; then the branch of C goes
            "cascade-dag-same-secret-two-parents",
            vec![
                Op::Set { req: 0, sec: 0, big: false },
                Op::Grant { req: 0, ent: 1, sec: 0, level: 3, plain_api: true },
                Op::Delegate { parent: 1, child: 2, secs: vec![0], level: 2, ttl_ms: None },
                Op::Delegate { parent: 1, child: 3, secs: vec![0], level: 2, ttl_ms: None },
                Op::Delegate { parent: 2, child: 4, secs: vec![0], level: 1, ttl_ms: None },
                Op::Delegate { parent: 3, child: 4, secs: vec![0], level: 1, ttl_ms: None },
                Op::UndelegateCascade { parent: 2, child: 4 },
                Op::Delegate { parent: 3, child: 4, secs: vec![0], level: 1, ttl_ms: None },
                Op::Get { req: 4, sec: 0 },
                Op::UndelegateCascade { parent: 1, child: 3 },
                Op::UndelegateCascade { parent: 1, child: 2 },
            ],
        ),
        (
            // the records come back from the store (re-opened vault), the second record into D carries a TTL
            "cascade-dag-after-reopen",
            vec![
                Op::Set { req: 0, sec: 0, big: false },
                Op::Set { req: 0, sec: 1, big: false },
                Op::Set { req: 0, sec: 2, big: false },
                Op::Delegate { parent: 0, child: 1, secs: vec![0, 1, 2], level: 3, ttl_ms: None },
                Op::Delegate { parent: 1, child: 2, secs: vec![0, 1], level: 2, ttl_ms: None },
                Op::Delegate { parent: 1, child: 5, secs: vec![2], level: 2, ttl_ms: None },
                Op::Delegate { parent: 2, child: 3, secs: vec![1], level: 1, ttl_ms: None },
                Op::Delegate { parent: 2, child: 4, secs: vec![0], level: 1, ttl_ms: None },
                Op::Delegate { parent: 3, child: 4, secs: vec![1], level: 1, ttl_ms: Some(600_000) },
                Op::Reopen,
                Op::UndelegateCascade { parent: 1, child: 2 },
                Op::Reopen,
                Op::Get { req: 4, sec: 1 },
                Op::Get { req: 5, sec: 2 },
                Op::UndelegateCascade { parent: 0, child: 1 },
            ],
        ),
        (
            // what is NOT below the revoked record stays: a direct grant to C on another secret, a direct grant to an
            // agent outside, a member of a group that holds its own grant
            "cascade-dag-direct-grants-stay",
            vec![
                Op::Set { req: 0, sec: 0, big: false },
                Op::Set { req: 0, sec: 1, big: false },
                Op::Grant { req: 0, ent: 1, sec: 0, level: 3, plain_api: true },
                Op::Delegate { parent: 1, child: 2, secs: vec![0], level: 2, ttl_ms: None },
                Op::Delegate { parent: 2, child: 3, secs: vec![0], level: 1, ttl_ms: None },
                Op::Grant { req: 0, ent: 3, sec: 1, level: 2, plain_api: false },
                Op::Grant { req: 0, ent: 4, sec: 0, level: 1, plain_api: false },
                Op::Grant { req: 0, ent: 6, sec: 1, level: 1, plain_api: false },
                Op::AddMember { a: 5, b: Nd::Ent(6) },
                Op::AddMember { a: 2, b: Nd::Ent(6) },
                Op::UndelegateCascade { parent: 1, child: 2 },
                Op::Get { req: 0, sec: 2 },
            ],
        ),
        (
            "ttl-read-path",
            vec![
                Op::Set { req: 0, sec: 0, big: false },
                Op::GrantTtl { req: 0, ent: 1, sec: 0, level: 1, ttl_ms: 15 },
                Op::Get { req: 1, sec: 0 },
                Op::Sleep { ms: 30 },
                Op::Get { req: 1, sec: 0 },
                Op::List { req: 1, pat: 0, arg: 0, via: 0 },
            ],
        ),
        (
            "ttl-write-path",
            vec![
                Op::Set { req: 0, sec: 0, big: false },
                Op::GrantTtl { req: 0, ent: 1, sec: 0, level: 2, ttl_ms: 15 },
                Op::Set { req: 1, sec: 0, big: false },
                Op::Sleep { ms: 30 },
                Op::Set { req: 1, sec: 0, big: false },
                Op::Rotate { req: 1, sec: 0, big: false },
                Op::Get { req: 1, sec: 0 },
                Op::Set { req: 1, sec: 0, big: false },
            ],
        ),
        (
            // the tracker is keyed by (entity, secret) only: a second TTL grant of a LOWER level with a LONGER ttl to the
            // same pair must not carry the first, higher grant past its own ttl (shortest history for a tracker that
            // replaces the earlier deadline of the pair instead of keeping both); same through delegate(.., ttl)
            "ttl-second-grant-lower-and-longer",
            vec![
                Op::Set { req: 0, sec: 0, big: false },
                Op::GrantTtl { req: 0, ent: 1, sec: 0, level: 3, ttl_ms: 15 },
                Op::GrantTtl { req: 0, ent: 1, sec: 0, level: 1, ttl_ms: 600_000 },
                Op::Perm { req: 1, sec: 0 },
                Op::Sleep { ms: 30 },
                Op::Perm { req: 1, sec: 0 },
                Op::Set { req: 1, sec: 0, big: false },
                Op::Grant { req: 1, ent: 2, sec: 0, level: 1, plain_api: false },
                Op::Get { req: 1, sec: 0 },
                Op::Set { req: 0, sec: 1, big: false },
                Op::Grant { req: 0, ent: 3, sec: 1, level: 3, plain_api: true },
                Op::Delegate { parent: 3, child: 2, secs: vec![1], level: 2, ttl_ms: Some(15) },
                Op::GrantTtl { req: 0, ent: 2, sec: 1, level: 1, ttl_ms: 600_000 },
                Op::Sleep { ms: 30 },
                Op::Rotate { req: 2, sec: 1, big: false },
                Op::Get { req: 2, sec: 1 },
            ],
        ),
        (
            "ttl-admin-path",
            vec![
                Op::Set { req: 0, sec: 0, big: false },
                Op::GrantTtl { req: 0, ent: 1, sec: 0, level: 3, ttl_ms: 15 },
                Op::Sleep { ms: 30 },
                Op::Grant { req: 1, ent: 2, sec: 0, level: 3, plain_api: true },
                Op::GrantTtl { req: 1, ent: 3, sec: 0, level: 1, ttl_ms: 500 },
                Op::Revoke { req: 1, ent: 3, sec: 0 },
                Op::Delete { req: 1, sec: 0 },
                Op::Set { req: 0, sec: 0, big: false },
                Op::GrantTtl { req: 0, ent: 1, sec: 0, level: 3, ttl_ms: 15 },
                Op::Sleep { ms: 30 },
                Op::Grant { req: 1, ent: 2, sec: 0, level: 3, plain_api: true },
                Op::Get { req: 1, sec: 0 },
                Op::Get { req: 2, sec: 0 },
                Op::Delete { req: 2, sec: 0 },
            ],
        ),
        (
            "ttl-delegate-path",
            vec![
                Op::Set { req: 0, sec: 0, big: false },
                Op::GrantTtl { req: 0, ent: 1, sec: 0, level: 2, ttl_ms: 15 },
                Op::Sleep { ms: 30 },
                Op::Delegate { parent: 1, child: 2, secs: vec![0], level: 2, ttl_ms: None },
                Op::Get { req: 1, sec: 0 },
                Op::Set { req: 2, sec: 0, big: false },
            ],
        ),
        (
            "revoke-delete-immediate",
            vec![
                Op::Set { req: 0, sec: 0, big: false },
                Op::Grant { req: 0, ent: 1, sec: 0, level: 3, plain_api: true },
                Op::Grant { req: 0, ent: 1, sec: 0, level: 1, plain_api: false },
                Op::Get { req: 1, sec: 0 },
                Op::Revoke { req: 0, ent: 1, sec: 0 },
                Op::Get { req: 1, sec: 0 },
                Op::Set { req: 1, sec: 0, big: false },
                Op::Grant { req: 0, ent: 2, sec: 0, level: 2, plain_api: false },
                Op::Delete { req: 0, sec: 0 },
                Op::Get { req: 2, sec: 0 },
                Op::Set { req: 0, sec: 0, big: false },
                Op::Get { req: 2, sec: 0 },
                Op::Rotate { req: 2, sec: 0, big: false },
            ],
        ),
        (
            "membership",
            vec![
                Op::Set { req: 0, sec: 0, big: false },
                Op::Set { req: 0, sec: 1, big: false },
                Op::AddMember { a: 1, b: Nd::Ent(4) },
                Op::AddMember { a: 4, b: Nd::Ent(5) },
                Op::AddMember { a: 1, b: Nd::Sec(1) },
                Op::Get { req: 1, sec: 0 },
                Op::Get { req: 1, sec: 1 },
                Op::Grant { req: 0, ent: 5, sec: 0, level: 3, plain_api: true },
                Op::Get { req: 1, sec: 0 },
                Op::Set { req: 1, sec: 0, big: false },
                Op::Delete { req: 1, sec: 0 },
                Op::Grant { req: 1, ent: 2, sec: 0, level: 1, plain_api: false },
                Op::DelMember { a: 4, b: Nd::Ent(5) },
                Op::Get { req: 1, sec: 0 },
                Op::AddMember { a: 2, b: Nd::Ent(0) },
                Op::Get { req: 2, sec: 1 },
                Op::Set { req: 2, sec: 1, big: false },
                Op::Delete { req: 2, sec: 1 },
            ],
        ),
        (
            "size-limit",
            vec![
                Op::Set { req: 0, sec: 0, big: false },
                Op::Set { req: 0, sec: 0, big: true },
                Op::Set { req: 1, sec: 0, big: true },
                Op::Rotate { req: 0, sec: 0, big: true },
                Op::Get { req: 0, sec: 0 },
            ],
        ),
        (
            "size-limit-default",
            vec![
                Op::Set { req: 0, sec: 0, big: false },
                Op::Grant { req: 0, ent: 1, sec: 0, level: 2, plain_api: false },
                Op::Rotate { req: 1, sec: 0, big: true },
                Op::Set { req: 1, sec: 0, big: true },
                Op::Get { req: 1, sec: 0 },
                Op::Delete { req: 0, sec: 2 },
                Op::Delete { req: 1, sec: 2 },
            ],
        ),
        (
            // the TTL tracker and the delegation records survive dropping the Vault object: grants still expire,
            // nothing expired comes back, delegations can still be revoked
            "reopen-keeps-expiry",
            vec![
                Op::Set { req: 0, sec: 0, big: false },
                Op::Set { req: 0, sec: 1, big: false },
                Op::GrantTtl { req: 0, ent: 1, sec: 0, level: 1, ttl_ms: 40 },
                Op::Delegate { parent: 0, child: 2, secs: vec![0, 1], level: 2, ttl_ms: Some(40) },
                Op::Grant { req: 0, ent: 3, sec: 1, level: 3, plain_api: true },
                Op::Delegate { parent: 3, child: 1, secs: vec![1], level: 1, ttl_ms: None },
                Op::Reopen,
                Op::Get { req: 1, sec: 0 },
                Op::Set { req: 2, sec: 1, big: false },
                Op::Get { req: 1, sec: 1 },
                Op::Sleep { ms: 60 },
                Op::Set { req: 2, sec: 0, big: false },
                Op::Get { req: 1, sec: 0 },
                Op::Get { req: 1, sec: 1 },
                Op::Undelegate { parent: 3, child: 1 },
                Op::Get { req: 1, sec: 1 },
                Op::GrantTtl { req: 0, ent: 1, sec: 0, level: 3, ttl_ms: 15 },
                Op::GrantTtl { req: 3, ent: 2, sec: 1, level: 2, ttl_ms: 15 },
                Op::Sleep { ms: 30 },
                Op::Reopen,
                Op::Grant { req: 1, ent: 2, sec: 0, level: 1, plain_api: false },
                Op::Rotate { req: 2, sec: 1, big: false },
                Op::List { req: 1, pat: 0, arg: 0, via: 1 },
                Op::List { req: 2, pat: 0, arg: 0, via: 2 },
            ],
        ),
        (
            // two TTL grants to one pair: the second tracker entry expires with no edge left, is dropped from memory
            // only (no persist), comes back at re-open and then takes a later permanent grant with it (fail-closed quirk
            // the model mirrors through the persisted copy of the tracker)
            "reopen-stale-tracker-entry",
            vec![
                Op::Set { req: 0, sec: 0, big: false },
                Op::GrantTtl { req: 0, ent: 1, sec: 0, level: 1, ttl_ms: 12 },
                Op::GrantTtl { req: 0, ent: 1, sec: 0, level: 2, ttl_ms: 30 },
                Op::Sleep { ms: 20 },
                Op::Get { req: 1, sec: 0 },
                Op::Sleep { ms: 25 },
                Op::Get { req: 1, sec: 0 },
                Op::Grant { req: 0, ent: 1, sec: 0, level: 2, plain_api: false },
                Op::Get { req: 1, sec: 0 },
                Op::Reopen,
                Op::Get { req: 1, sec: 0 },
                Op::Set { req: 1, sec: 0, big: false },
            ],
        ),
        (
            "old-versions-rollback",
            vec![
                Op::Set { req: 0, sec: 0, big: false },
                Op::Set { req: 0, sec: 0, big: false },
                Op::Rotate { req: 0, sec: 0, big: false },
                Op::Set { req: 0, sec: 0, big: false },
                Op::Grant { req: 0, ent: 1, sec: 0, level: 1, plain_api: false },
                Op::GetVersion { req: 1, sec: 0, ver: 1 },
                Op::GetVersion { req: 1, sec: 0, ver: 0 },
                Op::GetVersion { req: 1, sec: 0, ver: 3 },
                Op::GetVersion { req: 1, sec: 0, ver: 4 },
                Op::GetVersion { req: 2, sec: 0, ver: 1 },
                Op::GetVersion { req: 0, sec: 2, ver: 1 },
                Op::Versions { req: 1, sec: 0, via_list: false },
                Op::Versions { req: 1, sec: 0, via_list: true },
                Op::Versions { req: 2, sec: 0, via_list: true },
                Op::Rollback { req: 1, sec: 0, ver: 1 },
                Op::Rollback { req: 2, sec: 0, ver: 1 },
                Op::GrantTtl { req: 0, ent: 2, sec: 0, level: 2, ttl_ms: 15 },
                Op::Rollback { req: 2, sec: 0, ver: 2 },
                Op::Get { req: 1, sec: 0 },
                Op::Sleep { ms: 30 },
                Op::Rollback { req: 2, sec: 0, ver: 1 },
                Op::GetVersion { req: 2, sec: 0, ver: 1 },
                Op::Versions { req: 2, sec: 0, via_list: false },
                Op::Wrap { req: 2, sec: 0 },
                Op::BatchGet { req: 2, secs: vec![0] },
                Op::BatchSet { req: 2, secs: vec![0], big: vec![false], plain_api: false },
                Op::Rollback { req: 0, sec: 0, ver: 9 },
                Op::Rollback { req: 0, sec: 0, ver: 1 },
                Op::Get { req: 1, sec: 0 },
                Op::Probe { req: 1, sec: 0, kind: 0 },
                Op::Probe { req: 1, sec: 0, kind: 1 },
                Op::Probe { req: 1, sec: 0, kind: 2 },
                Op::Probe { req: 1, sec: 0, kind: 3 },
                Op::Probe { req: 1, sec: 0, kind: 4 },
                Op::Probe { req: 2, sec: 0, kind: 0 },
                Op::Probe { req: 2, sec: 0, kind: 1 },
                Op::Probe { req: 2, sec: 0, kind: 2 },
                Op::Probe { req: 2, sec: 0, kind: 3 },
                Op::Probe { req: 2, sec: 0, kind: 4 },
                Op::Probe { req: 0, sec: 2, kind: 0 },
                Op::Probe { req: 0, sec: 2, kind: 1 },
                Op::Probe { req: 0, sec: 2, kind: 2 },
                Op::Probe { req: 0, sec: 2, kind: 3 },
                Op::Probe { req: 0, sec: 2, kind: 4 },
                Op::Grant { req: 0, ent: 3, sec: 0, level: 3, plain_api: true },
                Op::Probe { req: 3, sec: 0, kind: 2 },
            ],
        ),
        (
            "batch-and-wrap",
            vec![
                Op::Set { req: 0, sec: 0, big: false },
                Op::Set { req: 0, sec: 1, big: false },
                Op::Grant { req: 0, ent: 1, sec: 0, level: 2, plain_api: false },
                Op::Grant { req: 0, ent: 1, sec: 1, level: 1, plain_api: false },
                Op::BatchGet { req: 1, secs: vec![0, 1, 2] },
                Op::BatchGet { req: 2, secs: vec![0, 1] },
                Op::BatchGet { req: 0, secs: vec![2, 0] },
                Op::BatchGet { req: 1, secs: vec![] },
                Op::BatchSet { req: 1, secs: vec![0, 1, 2], big: vec![false, false, false], plain_api: false },
                Op::BatchSet { req: 1, secs: vec![0], big: vec![true], plain_api: true },
                Op::BatchSet { req: 1, secs: vec![1], big: vec![false], plain_api: true },
                Op::BatchSet { req: 1, secs: vec![0], big: vec![false], plain_api: true },
                Op::BatchSet { req: 0, secs: vec![2, 1], big: vec![false, true], plain_api: false },
                Op::BatchSet { req: 2, secs: vec![], big: vec![], plain_api: false },
                Op::Get { req: 1, sec: 0 },
                Op::Wrap { req: 1, sec: 1 },
                Op::Wrap { req: 2, sec: 1 },
                Op::Wrap { req: 0, sec: 0 },
                Op::Unwrap { tok: 0 },
                Op::Unwrap { tok: 0 },
                Op::Unwrap { tok: 5 },
                Op::Revoke { req: 0, ent: 1, sec: 1 },
                Op::Wrap { req: 1, sec: 1 },
                Op::BatchGet { req: 1, secs: vec![1, 0] },
                Op::Unwrap { tok: 1 },
            ],
        ),
        (
            "cascading-revocation",
            vec![
                Op::Set { req: 0, sec: 0, big: false },
                Op::Set { req: 0, sec: 1, big: false },
                Op::Delegate { parent: 0, child: 1, secs: vec![0, 1], level: 3, ttl_ms: None },
                Op::Delegate { parent: 1, child: 2, secs: vec![0], level: 2, ttl_ms: None },
                Op::Delegate { parent: 2, child: 3, secs: vec![0], level: 1, ttl_ms: Some(600_000) },
                Op::Get { req: 3, sec: 0 },
                Op::UndelegateCascade { parent: 1, child: 2 },
                Op::Get { req: 3, sec: 0 },
                Op::Get { req: 2, sec: 0 },
                Op::Get { req: 1, sec: 0 },
                Op::Delegate { parent: 1, child: 2, secs: vec![1], level: 1, ttl_ms: None },
                Op::Delegate { parent: 2, child: 3, secs: vec![1], level: 1, ttl_ms: None },
                Op::UndelegateCascade { parent: 2, child: 1 },
                Op::Get { req: 3, sec: 1 },
                Op::UndelegateCascade { parent: 0, child: 1 },
                Op::Get { req: 1, sec: 1 },
                Op::Get { req: 2, sec: 1 },
                Op::Get { req: 3, sec: 1 },
                Op::UndelegateCascade { parent: 0, child: 1 },
            ],
        ),
        (
            // exact byte lengths around the two limits (max_value_size = 96 here; rotate only knows MAX_PLAINTEXT_SIZE)
            "size-boundary",
            vec![
                Op::SetExact { req: 0, sec: 0, bytes: 96, rotate: false },
                Op::SetExact { req: 0, sec: 0, bytes: 97, rotate: false },
                Op::SetExact { req: 0, sec: 0, bytes: 1, rotate: false },
                Op::SetExact { req: 0, sec: 1, bytes: 97, rotate: false },
                Op::SetExact { req: 0, sec: 0, bytes: 97, rotate: true },
                Op::Rollback { req: 0, sec: 0, ver: 3 },
                Op::Rollback { req: 0, sec: 0, ver: 2 },
                Op::Get { req: 0, sec: 0 },
            ],
        ),
        (
            "size-boundary-default",
            vec![
                Op::SetExact { req: 0, sec: 0, bytes: 65_531, rotate: false },
                Op::SetExact { req: 0, sec: 0, bytes: 65_532, rotate: false },
                Op::SetExact { req: 0, sec: 0, bytes: 65_531, rotate: true },
                Op::SetExact { req: 0, sec: 0, bytes: 65_532, rotate: true },
                Op::Get { req: 0, sec: 0 },
            ],
        ),
    ];
    for (name, ops) in scenarios {
        let mut r = root.fork(name);
        let mvs = if name == "size-limit-default" || name == "names-at-rest-known" || name == "size-boundary-default" || name == "secret-node-key-as-identity" { 65_531 } else { 96 };
        let dag = name.starts_with("cascade-dag");
        let mut w = World::new(&mut r, m, Pol { admin_limit: 1, write_limit: 2, horizon: 10 }, if dag { 4 } else { 3 }, mvs, 3, if dag { 5 } else { 3 }, 3);
        w.sweep = 2;
        if name == "names-at-rest-known" {
            // names long enough for the plaintext scan whatever the seed (namespace prefix kept)
            // pure ASCII (no JSON escaping in the persisted trackers), namespace convention of `sec_ids` kept
            let ids = w.sec_ids.clone();
            for (i, n) in w.sec_names.iter_mut().enumerate() {
                let ns = ids[i] / 100;
                *n = if ns == 0 { format!("known-finding-secret-name-{i}") } else { format!("kf-ns{ns}/known-finding-secret-name-{i}") };
            }
        }
        let ops = if name == "secret-node-key-as-identity" { node_key_scenario(&w) } else { ops };
        let mut ok = true;
        for op in &ops {
            if !exec(&mut w, m, rep, &mut r, "directed", op) {
                ok = false;
                break;
            }
        }
        if name == "reopen-stale-tracker-entry" && ok {
            // OBSERVATION (fail-closed, outside the property's quantifier: access is refused, never given): the second
            // tracker entry of the pair expires with no edge left, is dropped from memory without a persist, comes back
            // at re-open and its expiry then deletes the later PERMANENT grant of the same (entity, secret) pair
            let live = w.best_level(1, 0, w.now(), true);
            let denied_after_reopen = w.lines.iter().rev().take(2).all(|l| l.contains("=> err denied"));
            rep.hit(if denied_after_reopen && live >= 2 { "observe.stale_ttl_entry_deletes_permanent_grant.seen" } else { "observe.stale_ttl_entry_deletes_permanent_grant.not_seen" });
            if denied_after_reopen && live >= 2 {
                rep.observe(json!({"what": "an expiring TTL tracker entry deletes a later permanent grant of the same (entity, secret) pair: after re-opening the vault the holder of an unexpired, unrevoked Write grant is refused",
                    "bookkeeping_live_level": live, "trace_tail": w.lines.iter().rev().take(6).rev().collect::<Vec<_>>(),
                    "why_not_a_violation": "fail-closed: the property forbids access without a live grant, it does not promise access with one; the model mirrors the behaviour through the persisted copy of the tracker (cleanup_expired_grants drops every VAULT_ACCESS edge of the pair, the tracker is keyed by (entity, secret name) only)"}));
            }
        }
        w.scan_everything(rep, seen);
        rep.case("directed", if ok { Some(name) } else { None });
        if rep.samples.len() < 4 {
            rep.sample(json!({"stream": "directed", "scenario": name, "trace": w.lines}));
        }
    }
}

fn histories(m: &mut Model, rep: &mut Report, root: &Rng, n: usize, seen: &mut BTreeSet<String>) {
    let pols = policies();
    for h in 0..n {
        let mut r = root.fork(&format!("history{h}"));
        let pol = pols[h % pols.len()];
        let n_users = 3 + r.below(3) as usize;
        let n_secrets = 4 + r.below(5) as usize;
        let max_value_size = if h % 7 == 3 { 65_531 } else { 64 + r.below(400) as usize };
        let max_deleg = 1 + r.below(3) as u32;
        let max_versions = 2 + r.below(4) as usize;
        let mut w = World::new(&mut r, m, pol, max_deleg, max_value_size, max_versions, n_users, n_secrets);
        let len = 150 + r.below(251) as usize;
        let mut done = 0usize;
        let mut ok_ops = 0usize;
        let mut completed = true;
        for i in 0..len {
            let op = gen_op(&w, &mut r);
            let before = w.lines.len();
            if !exec(&mut w, m, rep, &mut r, "history", &op) {
                completed = false;
                break;
            }
            done += 1;
            if w.lines.len() > before && w.lines.last().map_or(false, |l| l.contains("=> ok")) {
                ok_ops += 1;
            }
            if i % 150 == 149 {
                w.scan_everything(rep, seen);
            }
        }
        w.scan_everything(rep, seen);
        rep.hit_n("history.ops", done as u64);
        rep.hit(if completed { "history.completed" } else { "history.cut_short" });
        let key = format!("{h}:{done}:{ok_ops}");
        rep.case("history", if done >= 50 && ok_ops >= 10 { Some(&key) } else { None });
        if h < 2 {
            rep.sample(json!({"stream": "history", "policy": format!("{pol:?}"), "users": n_users, "secrets": n_secrets, "ops": done,
                              "first_lines": w.lines.iter().take(25).collect::<Vec<_>>()}));
        }
    }
}

/// random delegation graphs (an agent may collect several delegating parents, from the same branch or from outside,
/// at equal or different depths, for the same or for different secrets; cycle and self attempts), then cascading
/// revocations of random records, each followed by the probes of `exec` (every (agent, secret) pair)
fn dag_stream(m: &mut Model, rep: &mut Report, root: &Rng, n: usize) {
    let pols = policies();
    for c in 0..n {
        let mut r = root.fork(&format!("dag{c}"));
        let pol = if r.chance(1, 2) { pols[0] } else { *r.pick(&pols) };
        let n_users = 4 + r.below(3) as usize;
        // half of the cases grow the graph inside ONE branch (below the first delegation made) and cut that branch: an
        // agent then collects several delegating parents that all lie below the revoked record
        let stem_mode = r.chance(1, 2);
        let max_deleg = if stem_mode { 3 + r.below(3) as u32 } else { 2 + r.below(4) as u32 };
        let mut w = World::new(&mut r, m, pol, max_deleg, 256, 3, n_users, 3);
        w.sweep = 2;
        let na = w.idents.len(); // agents 1..na (the two groups act as plain agents here)
        let mut stem: Option<(usize, usize)> = None;
        let mut ok = true;
        macro_rules! go {
            ($op:expr) => {{
                let op = $op;
                if ok && !exec(&mut w, m, rep, &mut r, "dag", &op) {
                    ok = false;
                }
            }};
        }
        for sx in 0..3 {
            go!(Op::Set { req: 0, sec: sx, big: false });
        }
        // one or two agents hold direct grants from root
        for _ in 0..(1 + r.below(2)) {
            let ent = 1 + r.below(2) as usize;
            let level = if r.chance(2, 3) { 3 } else { 2 };
            for sx in 0..3 {
                if r.chance(3, 4) {
                    go!(Op::Grant { req: 0, ent, sec: sx, level, plain_api: false });
                }
            }
        }
        let mut cascades = 0u32;
        let mut two_parent = false;
        let mut biggest = 0usize;
        let rounds = 1 + r.below(2);
        for round in 0..rounds {
            let attempts = if round == 0 { 5 + r.below(7) } else { 2 + r.below(4) };
            for _ in 0..attempts {
                if !ok {
                    break;
                }
                let now = w.now();
                // a parent that holds something (root now and then), a child that — half of the time — already has a parent
                let holders: Vec<usize> = (1..na).filter(|a| (0..3).any(|sx| w.best_level(*a, sx, now, true) > 0)).collect();
                // (a parent that was itself delegated to makes the graph deeper: both parents of an agent then lie in one branch)
                let deep: Vec<usize> = holders.iter().copied().filter(|a| w.delegs.iter().any(|d| d.1 == *a)).collect();
                let parent = if holders.is_empty() || r.chance(1, 12) {
                    if r.chance(1, 2) { 0 } else { 1 + r.below(na as u64 - 1) as usize }
                } else if !deep.is_empty() && r.chance(1, 2) {
                    *r.pick(&deep)
                } else {
                    *r.pick(&holders)
                };
                let child = if !w.delegs.is_empty() && r.chance(1, 2) { r.pick(&w.delegs).1 } else { 1 + r.below(na as u64 - 1) as usize };
                let (parent, child) = match stem {
                    Some((sp, sc)) if stem_mode && r.chance(5, 6) => {
                        // inside the branch: parent = an agent of the branch that holds something
                        let mut branch: Vec<usize> = vec![sc];
                        for i in w.records_below(sp, sc) {
                            if !branch.contains(&w.delegs[i].1) {
                                branch.push(w.delegs[i].1);
                            }
                        }
                        let ps: Vec<usize> = branch.iter().copied().filter(|a| holders.contains(a)).collect();
                        let p = if ps.is_empty() { parent } else { *r.pick(&ps) };
                        let others: Vec<usize> = branch.iter().copied().filter(|a| *a != p && *a != sc).collect();
                        let c = if !others.is_empty() && r.chance(1, 2) { *r.pick(&others) } else { child };
                        (p, c)
                    }
                    _ => (parent, child),
                };
                if w.register_outcomes(parent, child).len() != 1 {
                    rep.hit("dag.skipped_order_dependent_delegation");
                    continue;
                }
                let held: Vec<usize> = (0..3).filter(|sx| parent == 0 || w.best_level(parent, *sx, now, true) > 0).collect();
                let mut secs: Vec<usize> = held.iter().copied().filter(|_| r.chance(1, 2)).collect();
                if secs.is_empty() {
                    secs.push(if held.is_empty() || r.chance(1, 10) { r.below(3) as usize } else { *r.pick(&held) });
                }
                let own = secs.iter().map(|sx| if parent == 0 { 3 } else { w.best_level(parent, *sx, now, true) }).min().unwrap_or(1).max(1);
                let level = if r.chance(1, 8) { 1 + r.below(3) as u8 } else { 1 + r.below(own as u64) as u8 };
                let ttl_ms = if r.chance(1, 8) { Some(600_000) } else { None };
                if w.delegs.iter().any(|d| d.1 == child && d.0 != parent) {
                    two_parent = true;
                }
                let had = w.delegs.len();
                go!(Op::Delegate { parent, child, secs, level, ttl_ms });
                if stem.is_none() && w.delegs.len() > had {
                    stem = Some((parent, child));
                }
                if r.chance(1, 10) {
                    // something that is not a delegation: a direct grant, a membership
                    let ent = 1 + r.below(na as u64 - 1) as usize;
                    if r.chance(1, 2) {
                        go!(Op::Grant { req: 0, ent, sec: r.below(3) as usize, level: 1 + r.below(3) as u8, plain_api: false });
                    } else {
                        let b = 1 + r.below(na as u64 - 1) as usize;
                        if b != ent {
                            go!(Op::AddMember { a: ent, b: Nd::Ent(b) });
                        }
                    }
                }
            }
            if r.chance(1, 5) {
                go!(Op::Reopen);
            }
            if r.chance(1, 6) && !w.delegs.is_empty() {
                // a plain revocation of one record first: what hangs below it stays (as the code is)
                let (p, c, _, _) = r.pick(&w.delegs).clone();
                go!(Op::Undelegate { parent: p, child: c });
            }
            if ok && !w.delegs.is_empty() {
                // prefer a record with something below it
                let mut best = r.pick(&w.delegs).clone();
                let thorough_pick = r.chance(1, 2);
                let cands: Vec<(usize, usize, Vec<usize>, u32)> = if thorough_pick { w.delegs.clone() } else { (0..3).map(|_| r.pick(&w.delegs).clone()).collect() };
                for cand in cands {
                    if w.records_below(cand.0, cand.1).len() > w.records_below(best.0, best.1).len() && (thorough_pick || r.chance(3, 4)) {
                        best = cand;
                    }
                }
                biggest = biggest.max(w.records_below(best.0, best.1).len());
                let (p, c) = match stem {
                    Some(st) if stem_mode && round == 0 && r.chance(2, 3) && w.delegs.iter().any(|d| d.0 == st.0 && d.1 == st.1) => st,
                    _ if r.chance(1, 12) => (1 + r.below(na as u64 - 1) as usize, best.1),
                    _ => (best.0, best.1),
                };
                if stem == Some((p, c)) {
                    stem = None;
                }
                go!(Op::UndelegateCascade { parent: p, child: c });
                cascades += 1;
            }
        }
        rep.hit(if ok { "dag.completed" } else { "dag.cut_short" });
        let shape: Vec<String> = w.lines.iter().filter(|l| l.contains("deleg")).map(|l| l.split(' ').enumerate().filter(|(i, _)| *i != 1).map(|(_, x)| x).collect::<Vec<_>>().join(" ")).collect();
        let key = shape.join(";");
        rep.case("dag", if ok && cascades > 0 && biggest >= 2 && two_parent { Some(&key) } else { None });
        if c == 0 {
            rep.sample(json!({"stream": "dag", "policy": format!("{pol:?}"), "agents": na - 1, "max_delegation_depth": max_deleg, "trace": w.lines}));
        }
    }
}

/// random raw graphs: the BFS itself, including shapes the vault API never produces
fn perm_stream(m: &mut Model, rep: &mut Report, root: &Rng, n: usize) {
    for c in 0..n {
        let mut r = root.fork(&format!("perm{c}"));
        let pol = Pol { admin_limit: r.below(4) as usize, write_limit: r.below(5) as usize, horizon: r.below(7) as usize };
        let mut w = World::new(&mut r, m, pol, 3, 256, 3, 5, 2);
        let ne = w.idents.len();
        for s in 0..2 {
            exec(&mut w, m, rep, &mut r, "perm.setup", &Op::Set { req: 0, sec: s, big: false });
        }
        let shape = r.below(4);
        let n_member = 2 + r.below(10);
        for i in 0..n_member {
            let (a, b) = match shape {
                0 => (1 + (i as usize % (ne - 1)), 1 + ((i as usize + 1) % (ne - 1))), // ring / chain
                _ => (1 + r.below(ne as u64 - 1) as usize, 1 + r.below(ne as u64 - 1) as usize),
            };
            if a != b {
                exec(&mut w, m, rep, &mut r, "perm.setup", &Op::AddMember { a, b: Nd::Ent(b) });
            }
        }
        if r.chance(1, 4) {
            let a = 1 + r.below(ne as u64 - 1) as usize;
            let sx = r.below(2) as usize;
            exec(&mut w, m, rep, &mut r, "perm.setup", &Op::AddMember { a, b: Nd::Sec(sx) });
        }
        // edges of types outside the allowlist, and allow-listed MEMBER-prefixed ones, directed or undirected
        for _ in 0..r.below(5) {
            let a = 1 + r.below(ne as u64 - 1) as usize;
            let b = if r.chance(1, 5) { Nd::Sec(r.below(2) as usize) } else { Nd::Ent(1 + r.below(ne as u64 - 1) as usize) };
            if b == Nd::Ent(a) {
                continue;
            }
            let ty = if r.chance(1, 2) { *r.pick(OTHER_TYPES) } else { *r.pick(MEMBERISH_TYPES) };
            let op = Op::RawEdge { a, b, ty, cap: *r.pick(&[0u64, 0, 2]), sig: r.below(5) as u8, undirected: r.chance(1, 3) };
            exec(&mut w, m, rep, &mut r, "perm.setup", &op);
        }
        // access edges: through the API (signed) and raw (legacy / odd type suffixes / capacities / signature classes,
        // now and then pointing at an entity instead of a secret, or undirected)
        for _ in 0..(1 + r.below(5)) {
            let ent = 1 + r.below(ne as u64 - 1) as usize;
            let sx = r.below(2) as usize;
            if r.chance(2, 5) {
                let level = 1 + r.below(3) as u8;
                exec(&mut w, m, rep, &mut r, "perm.setup", &Op::Grant { req: 0, ent, sec: sx, level, plain_api: false });
            } else {
                let ty = if r.chance(1, 8) { *r.pick(OTHER_TYPES) } else { *r.pick(ACCESS_TYPES) };
                let b = if r.chance(1, 8) { Nd::Ent(1 + r.below(ne as u64 - 1) as usize) } else { Nd::Sec(sx) };
                if b == Nd::Ent(ent) {
                    continue;
                }
                let cap = *r.pick(&[0u64, 0, 1, 2, 3, 9]);
                let op = Op::RawEdge { a: ent, b, ty, cap, sig: r.below(5) as u8, undirected: r.chance(1, 6) };
                exec(&mut w, m, rep, &mut r, "perm.setup", &op);
            }
        }
        let mut nontrivial = false;
        for e in 1..ne {
            for s in 0..2 {
                let t = w.now();
                let imp = w.vault.get_permission(&w.idents[e], &w.sec_names[s]).map_or("none".to_string(), |p| lvl(p).to_string());
                let line = format!("perm {t} {e} {}", w.sec_ids[s]);
                let model = m.ask(&line);
                rep.hit(&format!("perm.answer.{imp}"));
                if imp != "none" {
                    nontrivial = true;
                }
                rep.compare("perm", || json!({"query": line, "policy": format!("{pol:?}"), "graph": w.lines}), &imp, &model);
            }
        }
        let key = w.lines.join(";");
        rep.case("perm", if nontrivial { Some(&key) } else { None });
        if c == 0 {
            rep.sample(json!({"stream": "perm", "policy": format!("{pol:?}"), "graph": w.lines}));
        }
    }
}

fn main() {
    let args = parse_args();
    let mut rep = Report::new(
        "directed scenarios + random delegation graphs with cascading revocation (4-8 agents, 3 secrets) + seeded random histories (150-400 vault API calls each, root + 3-5 identities + 2 groups + the secrets' graph-node keys as requester strings, 4-8 secrets in up to 4 namespaces) + random raw permission graphs; \
         a history is non-trivial when >=50 calls ran and >=10 succeeded, a permission graph when some non-root identity holds a level, a delegation graph when some agent had two delegating parents and a cascading revocation had at least two records below the revoked one; distinct = distinct canonical trace",
    );
    rep.expected_branches = [
        "get.ok", "get.err_denied", "get.err_insufficient", "get.err_not_found", "set.ok", "set.err_denied", "set.err_insufficient", "set.err_too_large",
        "rotate.ok", "rotate.err_denied", "rotate.err_insufficient", "rotate.err_crypto", "delete.ok", "delete.err_denied", "delete.err_insufficient", "delete.err_not_found",
        "grant.ok", "grant.err_denied", "grant.err_insufficient", "grant.err_not_found", "grantttl.ok", "grantttl.err_denied", "revoke.ok", "revoke.err_denied",
        "revoke.err_insufficient", "delegate.ok", "delegate.err_denied", "delegate.err_insufficient", "delegate.err_graph", "undelegate.ok", "undelegate.err_not_found",
        "list.ok", "list.via0", "list.via1", "list.via2", "probe.ok", "probe.err_denied", "probe.err_insufficient", "probe.err_not_found", "probe.encrypt_for", "probe.get_expiration", "probe.clear_expiration", "probe.changelog", "probe.diff_versions", "getver.ok", "getver.err_denied", "getver.err_not_found", "vercount.ok", "vercount.err_denied", "rollback.ok", "rollback.err_denied",
        "rollback.err_insufficient", "rollback.err_not_found", "rollback.err_too_large", "batchget.ok", "batchget.entry_ok", "batchset.ok", "batchset.entry_ok", "batchset.via_batch_set", "wrap.ok", "wrap.err_denied", "unwrap.ok",
        "unwrap.err_not_found", "undelegatec.ok", "undelegatec.records_revoked", "reopen.ok", "addmember.ok", "delmember.ok", "rawedge.ok", "rawedge.undirected", "rawedge.directed", "rawedge.sig_class0", "rawedge.sig_class1",
        "rawedge.sig_class2", "rawedge.sig_class3", "rawedge.sig_class4", "rawedge.type.OWNS", "rawedge.type.MEMBER_OF", "rawedge.type.VAULT_ACCESSX_ADMIN", "rawedge.type.VAULT_ACCESS", "rawedge.type.VAULT_ACCESS_FOO", "perm.answer.none", "perm.answer.1", "perm.answer.2", "perm.answer.3",
        "requester.secret_node_key", "requester.node_key_of_no_secret", "permq.none", "permq.1", "permq.2", "permq.3",
        "delegate.child_with_second_parent", "delegate.child_at_two_depths", "undelegatec.shape.agent_reached_through_two_revoked_records",
        "undelegatec.shape.agent_keeps_a_delegation_from_outside", "undelegatec.probe.revoked_pair_has_nothing", "undelegatec.probe.untouched_pair_keeps_access",
        "undelegatec.probe.get_permission", "undelegatec.probe.get",
    ]
    .iter()
    .map(|s| s.to_string())
    .collect();
    let mut m = Model::spawn(&args.driver);
    let root = Rng::new(args.seed);
    let mut seen = BTreeSet::new();
    let t = Instant::now();
    directed(&mut m, &mut rep, &root.fork("directed"), &mut seen);
    let t_dir = t.elapsed().as_secs_f64();
    let (nh, np) = if args.thorough { (400, 6000) } else { (30, 500) };
    dag_stream(&mut m, &mut rep, &root.fork("dag"), if args.thorough { 3000 } else { 150 });
    let t_dag = t.elapsed().as_secs_f64();
    perm_stream(&mut m, &mut rep, &root.fork("perm"), np);
    let t_perm = t.elapsed().as_secs_f64();
    histories(&mut m, &mut rep, &root.fork("histories"), nh, &mut seen);
    rep.note(&format!("stream wall times: directed {:.1}s, dag {:.1}s, perm {:.1}s, histories {:.1}s", t_dir, t_dag - t_dir, t_perm - t_dag, t.elapsed().as_secs_f64() - t_perm));
    rep.note(&format!("corr_vault wall time {:.1}s", t.elapsed().as_secs_f64()));
    rep.note("TTL expiry is driven with real short TTLs (6-55 ms) and sleeps; calls are never started within 4 ms before / 0.4 ms after a pending expiry and a call that overlaps one aborts its history (counted as history.aborted_time_ambiguous)");
    rep.note("secret names are generated without '*' (a '*' turns a list pattern into a wildcard) and without '/' inside a namespace component; names/values shorter than 6 bytes are excluded from the plaintext scan");
    rep.note("requester strings: root, the named identities, and (about 1 call in 12 of a history, and the first directed scenario) the graph-node key `vault_secret:<obfuscated name>` of a secret, read from the graph, or a string of that form naming no secret; grantees, delegation children and raw-edge endpoints are always identities / groups / secret nodes");
    rep.note("delegation graphs are not restricted to trees: an agent may hold delegations from several parents (same branch or not, equal or different depths, same or different secrets). DelegationManager::delegation_depth / is_ancestor take a record by DashMap iteration order, so a delegate call is generated only when every possible pick gives the same answer and the same stored depth (computed over the harness's own copy of the records; skipped calls are counted as dag.skipped_order_dependent_delegation)");
    rep.note("every revoke_delegation_cascading call is followed by get_permission for every (agent, secret) pair (directed + dag streams: also before the call, and get for every pair afterwards); the records that have to go are computed from the harness's own copy of the delegation records (everything reachable from the revoked record, a record x->y being followed by every record y->z), independently of the call's answer and of the model");
    let _: Option<Value> = None;
    rep.write(&args.out);
}
