//! C08 correspondence + oracles: a real `QueryRouter` (relational / graph / vector engines over one
//! shared `TensorStore`, blob store and checkpoint manager over the same store, exactly what
//! `init_blob` + `init_checkpoint_with_config` build) against the Lean checkpoint model.
//!
//! Streams
//!   router      real `CHECKPOINT 'cN'` / `ROLLBACK TO 'cN'` statements through the router text API,
//!               data statements through the router's engines; retention never triggers (max 10).
//!   manager     checkpoints written with `CheckpointStorage::store` + `RetentionManager::enforce`
//!               under a harness clock (distinct or tied `created_at`), small random `max`;
//!               rollback through the router statement.
//!   retention   a blob store of its own, random timestamp lists with ties, random counts.
//!   store_raw   a bare `TensorStore`: plain / `_cache:` / `emb:`(+`_embedding`) keys,
//!               `snapshot_bytes` / `restore_from_bytes` only.
//!   autoret     auto-checkpoints AT the retention limit: `max_checkpoints` 1..4 (sometimes the default
//!               10), the listing filled to (about) the limit with harness-clock checkpoints, then
//!               destructive statements through the router text API (`CheckpointManager::create_auto`,
//!               wall clock = strictly newer than every harness-clock one) and real `CHECKPOINT`
//!               statements (`CheckpointManager::create`) interleaved with data statements, rollbacks,
//!               deletes, `CHECKPOINTS LIMIT n` and the FULL listing `list(None)`.
//!   witness     the model's Lean witnesses replayed on the real code, and the directed regression
//!               cases of repaired defects (id shadowed by a name: /repo fff752bd on the rollback
//!               path, 14af22de on the delete path) — all run first.
//!
//! Target resolution: `ROLLBACK TO x` and `CheckpointManager::delete(x)` = the listed checkpoint
//! with id `x`, else the newest listed one named `x`; a listed id that brings back a checkpoint
//! NAMED with it is violation class `tensor_checkpoint.storage/id_shadowed_by_name`, a delete by a
//! listed id that unlists a checkpoint NAMED with it instead is
//! `tensor_checkpoint.manager_delete/id_shadowed_by_name`.  Raw keys are compared bit for bit by the
//! property oracle (`raw_strict`) and in a canonical form with the model (`raw`), see `show_raw`.
//!
//! After every statement the full observable image (every table scan + an index-path query per
//! index, nodes / edges / neighbours / by-label, all embeddings + searches, raw keys) is compared
//! with the model (correspondence).  At checkpoint time the harness keeps the real image; after a
//! rollback the real image must equal it again (property oracle, evaluated on the implementation's
//! own outputs) — differences are classified into `rep.violation` classes.
use std::collections::{BTreeMap, BTreeSet, HashMap};

use graph_engine::{Direction, GraphError};
use nverif::*;
use query_router::{QueryResult, QueryRouter, RouterError};
use relational_engine::{Column, ColumnType, Condition, RelationalError, Schema, Value};
use serde_json::json;
use tensor_blob::{BlobConfig, BlobStore};
use tensor_checkpoint::{
    CheckpointConfig, CheckpointMetadata, CheckpointState, CheckpointStorage, RetentionManager,
};
use tensor_store::{EmbeddingSlab, EntityId, MetadataSlab, ScalarValue, TensorData, TensorStore, TensorValue};
use vector_engine::{HNSWConfig, VectorError};

const EMB_DIM: usize = 384; // SlabRouterConfig::default().embedding_dim

#[derive(Clone, Debug, PartialEq)]
enum Op {
    RCreate(u64),
    RDrop(u64),
    RIns(u64, i64, i64),
    RDel(u64, i64),
    RHidx(u64),
    RBidx(u64),
    GNode(u64),
    GEdge(u64, u64),
    GDelN(u64),
    GDelE(u64),
    VPut(u64, Vec<i64>),
    VDel(u64),
    VBuild,
    KPut(u64, u64, i64, Option<i64>),
    KDel(u64, u64),
    /// checkpoint; `Some(code)` = an explicit name (see `Sys::code_str`), `None` = the unique name `c<n>`
    Ckpt(Option<u64>),
    /// `ROLLBACK TO <code>`: the target string is an id or a name
    Rollback(u64),
    /// `CheckpointManager::delete(<code>)`
    CkDel(u64),
    /// `CHECKPOINTS LIMIT n`
    CkTop(u64),
    /// destructive statements through the router TEXT API (auto-checkpoint protection on):
    /// `DELETE FROM t WHERE k = x`, `NODE DELETE i`, `EMBED DELETE 'e<k>'`
    TDel(u64, i64),
    TNodeDel(u64),
    TEmbDel(u64),
    /// `CHECKPOINT '<name>'` through the router text API = the real `CheckpointManager::create`
    /// (wall clock) in a stream whose `Ckpt` goes by the harness clock
    CkptReal(Option<u64>),
    /// the FULL listing: `CheckpointManager::list(None)` (the `CHECKPOINTS` statement shows 10 at most)
    CkAll,
}

/// ids and names are strings of one space, coded for the model: code < 1000 = the id string of
/// checkpoint number `code`, code >= 1000 = the proper name `c<code-1000>`
const NAME0: u64 = 1000;
/// name codes of the auto-checkpoints `create_auto` makes (`auto-before-<operation>`)
/// the one compared token for a text destructive statement the router refused (Error canonicalisation, rule 2)
const TEXT_REFUSED: &str = "err refused";
const AUTO_DELETE: u64 = NAME0 + 60;
const AUTO_NODE_DELETE: u64 = NAME0 + 61;
const AUTO_EMBED_DELETE: u64 = NAME0 + 62;

impl Op {
    fn tag(&self) -> &'static str {
        match self {
            Op::RCreate(_) => "rcreate",
            Op::RDrop(_) => "rdrop",
            Op::RIns(..) => "rins",
            Op::RDel(..) => "rdel",
            Op::RHidx(_) => "rhidx",
            Op::RBidx(_) => "rbidx",
            Op::GNode(_) => "gnode",
            Op::GEdge(..) => "gedge",
            Op::GDelN(_) => "gdeln",
            Op::GDelE(_) => "gdele",
            Op::VPut(..) => "vput",
            Op::VDel(_) => "vdel",
            Op::VBuild => "vbuild",
            Op::KPut(..) => "kput",
            Op::KDel(..) => "kdel",
            Op::Ckpt(None) => "ckpt",
            Op::Ckpt(Some(_)) => "ckpt_named",
            Op::Rollback(c) => {
                if *c < NAME0 {
                    "rollback_by_id"
                } else {
                    "rollback"
                }
            }
            Op::CkDel(_) => "ckdel",
            Op::CkTop(_) => "cktop",
            Op::TDel(..) => "text_delete",
            Op::TNodeDel(_) => "text_node_delete",
            Op::TEmbDel(_) => "text_embed_delete",
            Op::CkptReal(_) => "ckpt_real",
            Op::CkAll => "ckall",
        }
    }
    /// the model line (checkpoint lines are built by the caller: they need ts / ord)
    fn line(&self) -> String {
        match self {
            Op::RCreate(t) => format!("rcreate {t}"),
            Op::RDrop(t) => format!("rdrop {t}"),
            Op::RIns(t, k, v) => format!("rins {t} {k} {v}"),
            Op::RDel(t, k) => format!("rdel {t} {k}"),
            Op::RHidx(t) => format!("rhidx {t}"),
            Op::RBidx(t) => format!("rbidx {t}"),
            Op::GNode(l) => format!("gnode {l}"),
            Op::GEdge(a, b) => format!("gedge {a} {b}"),
            Op::GDelN(i) => format!("gdeln {i}"),
            Op::GDelE(i) => format!("gdele {i}"),
            Op::VPut(k, v) => format!("vput {k} {}", ints(v)),
            Op::VDel(k) => format!("vdel {k}"),
            Op::VBuild => "vbuild".into(),
            Op::KPut(c, k, x, e) => format!(
                "kput {c} {k} {x} {}",
                e.map_or("-".to_string(), |e| e.to_string())
            ),
            Op::KDel(c, k) => format!("kdel {c} {k}"),
            Op::Ckpt(None) => "ckpt".into(),
            Op::Ckpt(Some(c)) => format!("ckpt name={c}"),
            Op::Rollback(c) => format!("rollback {c} -"),
            Op::CkDel(c) => format!("ckdel {c} -"),
            Op::CkTop(n) => format!("cktop {n}"),
            Op::TDel(t, k) => format!("rdel {t} {k}"),
            Op::TNodeDel(i) => format!("gdeln {i}"),
            Op::TEmbDel(k) => format!("vdel {k}"),
            Op::CkptReal(None) => "ckpt".into(),
            Op::CkptReal(Some(c)) => format!("ckpt name={c}"),
            Op::CkAll => "ckall".into(),
        }
    }
}

fn ints(v: &[i64]) -> String {
    if v.is_empty() {
        "-".into()
    } else {
        v.iter().map(|x| x.to_string()).collect::<Vec<_>>().join(",")
    }
}
fn nats(v: &[u64]) -> String {
    if v.is_empty() {
        "-".into()
    } else {
        v.iter().map(|x| x.to_string()).collect::<Vec<_>>().join(",")
    }
}
fn dots<T: ToString>(v: &[T]) -> String {
    v.iter().map(|x| x.to_string()).collect::<Vec<_>>().join(".")
}

const PROBE_INTS: [i64; 4] = [0, 1, 2, 3];
const PROBE_LABELS: [u64; 3] = [0, 1, 2];
fn probe_queries() -> Vec<Vec<i64>> {
    vec![vec![1, 1, 1], vec![1, 0, -1]]
}
fn obs_line() -> String {
    format!(
        "obs {} {} {}",
        ints(&PROBE_INTS),
        nats(&PROBE_LABELS),
        probe_queries().iter().map(|q| ints(q)).collect::<Vec<_>>().join(";")
    )
}

fn rel_err(e: &RelationalError) -> String {
    match e {
        RelationalError::TableNotFound(_) => "err notfound".into(),
        RelationalError::TableAlreadyExists(_) | RelationalError::IndexAlreadyExists { .. } => "err exists".into(),
        RelationalError::StorageError(_) => "err storage".into(),
        other => format!("err other:{}", vname(&other)),
    }
}
/// Error canonicalisation (BUILDING.md): the name of the error VARIANT (first identifier of its
/// Debug rendering), never its message text — fall-back tokens are `err other:<Variant>`.
fn vname<T: std::fmt::Debug>(e: &T) -> String {
    format!("{e:?}").chars().take_while(|c| c.is_alphanumeric() || *c == '_').collect()
}
/// `RouterError` flattens every engine error into `<Engine>Error(String)`: the engine is structured,
/// the reason is only text. The reason is read as loosely as the repo's own tests pin the wording
/// (relational_engine/src/tests.rs `test_error_display_*`: "Table not found", "Storage error";
/// query_router lib tests / cursor.rs: "not found"), and a message that matches neither keyword is
/// NOT given another specific reason: it degrades to `None` = "refused, reason unknown" (rule 3).
fn router_reason(e: &RouterError) -> Option<&'static str> {
    let m = match e {
        RouterError::RelationalError(m) | RouterError::GraphError(m) | RouterError::VectorError(m) | RouterError::CheckpointError(m) => m.to_lowercase(),
        RouterError::NotFound(_) => return Some("notfound"),
        _ => return None,
    };
    if m.contains("storage error") {
        Some("storage")
    } else if m.contains("not found") {
        Some("notfound")
    } else {
        None
    }
}
fn rel_err_q(e: &RelationalError) -> String {
    match e {
        RelationalError::TableNotFound(_) => "err:notfound".into(),
        RelationalError::StorageError(_) => "err:storage".into(),
        other => format!("err:other:{}", vname(other)),
    }
}

/// Raw plain keys (class 0) come in FAMILIES: key number `100 * family + index` is the storage key
/// `<FAMS[family]><index>` (family 0 = the `plain:` keys of every earlier stream).  The families are
/// chosen against the layout of the metadata slab — 16 shards, a key lives in shard
/// `first byte % 16` (`MetadataSlab::shard_index`) — so that every shard an engine writes to also
/// receives keys with ANOTHER first byte, before and after it in key order:
///   shard 15: `_meta:` / `_idx:` / `_btree:` / `_graph_idx:` / `_blob:` (0x5F)  with `order:` (0x6F, after) and `/path:` (0x2F, before)
///   shard  5: `edge:` / `emb:` (0x65)                                            with `user:` (0x75, after)
///   shard 14: `node:` (0x6E)                                                     with `Note:` (0x4E, before) and `~tmp:` (0x7E, after)
///   shard  0: `plain:` (0x70) with `Product:` (0x50);  shard 4: `table:` (0x74) with `doc:` (0x64);  shard 9: `item:` alone
/// (the model's `Shard.plainFamilies` lists the same first bytes)
const FAMS: [&str; 10] = ["plain:", "user:", "order:", "Note:", "~tmp:", "Product:", "table:", "doc:", "item:", "/path:"];
/// families grouped by metadata shard (raw families only; the engines' own families are named above)
const FAM_GROUPS: [&[u64]; 6] = [&[0, 5], &[1], &[2, 9], &[3, 4], &[6, 7], &[8]];

fn plain_key(k: u64) -> String {
    let f = (k / 100) as usize;
    if (1..FAMS.len()).contains(&f) {
        format!("{}{}", FAMS[f], k % 100)
    } else {
        format!("plain:{k}")
    }
}

/// the key number of a raw plain key of any family
fn plain_code(key: &str) -> Option<u64> {
    if let Some(k) = key.strip_prefix("plain:").and_then(|s| s.parse::<u64>().ok()) {
        return Some(k);
    }
    for (f, p) in FAMS.iter().enumerate().skip(1) {
        if let Some(j) = key.strip_prefix(p).and_then(|s| s.parse::<u64>().ok()) {
            if j < 100 {
                return Some(f as u64 * 100 + j);
            }
        }
    }
    None
}

/// EVERY key `scan("")` lists — the engines' internal `_` keys, the blob records and chunks of the
/// checkpoints themselves, `node:` / `edge:` / `emb:`, every raw family — with a digest of its
/// fields (field names sorted; FNV-1a over `name=Debug(value)`).  Content-addressed blob chunks
/// (`_blob:chunk:<hash>`) and `emb:` keys (whose slab-dimension `_embedding` is judged bit for bit by
/// `raw_strict` / the embedding image) carry the digest 0: for them the key itself is what counts.
fn full_keys(st: &TensorStore) -> BTreeMap<String, u64> {
    let mut out = BTreeMap::new();
    for key in st.scan("") {
        let d = if key.starts_with("_blob:chunk:") || key.starts_with("emb:") {
            0
        } else {
            match st.get(&key) {
                Ok(t) => {
                    let mut fs: Vec<String> = t.fields_iter().map(|(n, v)| format!("{n}={v:?}")).collect();
                    fs.sort();
                    let mut h: u64 = 0xcbf29ce484222325;
                    for b in fs.join(";").bytes() {
                        h = (h ^ u64::from(b)).wrapping_mul(0x100000001b3);
                    }
                    h | 1
                }
                Err(_) => 2, // listed by scan, not readable by get
            }
        };
        out.insert(key, d);
    }
    out
}

/// property oracle on the FULL key set: `then` = every key of the store when the checkpoint was
/// taken, `now` = every key after rolling back to it.  (class, what) per kind of difference.
fn diff_full_keys(then: &BTreeMap<String, u64>, now: &BTreeMap<String, u64>) -> Vec<(String, String)> {
    let show = |v: &Vec<&String>| {
        let mut s = v.iter().take(12).map(|k| k.as_str()).collect::<Vec<_>>().join(", ");
        if v.len() > 12 {
            s.push_str(&format!(", … ({} in all)", v.len()));
        }
        s
    };
    let mut out = vec![];
    let lost: Vec<&String> = then.keys().filter(|k| !now.contains_key(*k)).collect();
    if !lost.is_empty() {
        out.push((
            KEYS_LOST_CLASS.to_string(),
            format!("{} of the {} storage keys that existed when the checkpoint was taken are missing after the rollback: {}", lost.len(), then.len(), show(&lost)),
        ));
    }
    let extra: Vec<&String> = now.keys().filter(|k| !then.contains_key(*k)).collect();
    if !extra.is_empty() {
        out.push((
            KEYS_LEFT_CLASS.to_string(),
            format!("{} storage keys that did not exist when the checkpoint was taken are there after the rollback: {}", extra.len(), show(&extra)),
        ));
    }
    let changed: Vec<&String> = then.iter().filter(|(k, d)| now.get(*k).is_some_and(|e| e != *d)).map(|p| p.0).collect();
    if !changed.is_empty() {
        out.push((
            VALUES_CHANGED_CLASS.to_string(),
            format!("{} storage keys hold other fields after the rollback than when the checkpoint was taken: {}", changed.len(), show(&changed)),
        ));
    }
    out
}

/// classes of the full-key-set oracle (every key of the store, internal ones included)
const KEYS_LOST_CLASS: &str = "tensor_store.restore_from_bytes/keys_lost_after_restore";
const KEYS_LEFT_CLASS: &str = "tensor_store.restore_from_bytes/keys_left_after_restore";
const VALUES_CHANGED_CLASS: &str = "tensor_store.restore_from_bytes/values_changed_after_restore";
/// a checkpoint that was listed when the rollback target was taken (so its blob is IN the target's
/// snapshot) and was still listed before the rollback is gone after it — not the known
/// `checkpoints_lost_after_rollback`, which is about the target itself and everything made after it
const OLDER_LOST_CLASS: &str = "query_router.rollback/older_checkpoint_lost_after_rollback";
const NOT_LOADABLE_AFTER_ROLLBACK_CLASS: &str = "query_router.rollback/listed_checkpoint_not_loadable_after_rollback";
/// a table that was listed when the checkpoint was taken is not even LISTED after the rollback (its
/// `_meta:table:` key did not come back) — not the known `relational_tables_lost`, where the table
/// is listed again and its rows (relational slab) are gone
const TABLE_UNLISTED_CLASS: &str = "query_router.rollback/table_unlisted_after_rollback";

static BLOB_CHUNK: std::sync::atomic::AtomicUsize = std::sync::atomic::AtomicUsize::new(0);

/// the real system under test
struct Sys {
    router: QueryRouter,
    rt: tokio::runtime::Runtime,
    max: usize,
    /// model checkpoint id -> real checkpoint id (uuid or harness-made)
    ck_real: BTreeMap<u64, String>,
    /// model checkpoint id -> (name code, harness timestamp)
    ck_meta: BTreeMap<u64, (u64, u64)>,
    next_ck: u64,
}

impl Sys {
    /// `auto`: auto-checkpoint before destructive statements, no interactive confirmation
    fn new_with(max: usize, auto: bool) -> Sys {
        let mut router = QueryRouter::new();
        // blob chunk size of the checkpoint store: 0 = the default (1 MB: one chunk per checkpoint);
        // small = checkpoints are split into many content-addressed chunks, which successive
        // checkpoints of similar data SHARE (retention / delete must not take a survivor's chunks)
        let chunk = BLOB_CHUNK.load(std::sync::atomic::Ordering::Relaxed);
        let cfg = if chunk == 0 { BlobConfig::default() } else { BlobConfig::default().with_chunk_size(chunk) };
        router.init_blob_with_config(cfg).expect("init_blob");
        router
            .init_checkpoint_with_config(
                CheckpointConfig::new()
                    .with_max_checkpoints(max)
                    .with_auto_checkpoint(auto)
                    .with_interactive_confirm(false),
            )
            .expect("init_checkpoint");
        let rt = tokio::runtime::Builder::new_current_thread().enable_all().build().unwrap();
        Sys { router, rt, max, ck_real: BTreeMap::new(), ck_meta: BTreeMap::new(), next_ck: 0 }
    }
    fn store(&self) -> &TensorStore {
        self.router.vector().store()
    }
    fn tname(t: u64) -> String {
        format!("t{t}")
    }
    fn raw_key(cls: u64, k: u64) -> String {
        match cls {
            1 => format!("_cache:c{k}"),
            2 => format!("emb:e{k}"),
            _ => plain_key(k),
        }
    }

    fn apply(&self, op: &Op) -> String {
        let rel = self.router.relational();
        let g = self.router.graph();
        let v = self.router.vector();
        match op {
            Op::RCreate(t) => {
                let schema = Schema::new(vec![Column::new("k", ColumnType::Int), Column::new("v", ColumnType::Int)]);
                match rel.create_table(&Self::tname(*t), schema) {
                    Ok(()) => "ok".into(),
                    Err(e) => rel_err(&e),
                }
            }
            Op::RDrop(t) => match rel.drop_table(&Self::tname(*t)) {
                Ok(()) => "ok".into(),
                Err(e) => rel_err(&e),
            },
            Op::RIns(t, k, val) => {
                let mut m = HashMap::new();
                m.insert("k".to_string(), Value::Int(*k));
                m.insert("v".to_string(), Value::Int(*val));
                match rel.insert(&Self::tname(*t), m) {
                    Ok(id) => format!("id {id}"),
                    Err(e) => rel_err(&e),
                }
            }
            Op::RDel(t, k) => match rel.delete_rows(&Self::tname(*t), Condition::Eq("k".into(), Value::Int(*k))) {
                Ok(n) => format!("count {n}"),
                Err(e) => rel_err(&e),
            },
            Op::RHidx(t) => match rel.create_index(&Self::tname(*t), "k") {
                Ok(()) => "ok".into(),
                Err(e) => rel_err(&e),
            },
            Op::RBidx(t) => match rel.create_btree_index(&Self::tname(*t), "v") {
                Ok(()) => "ok".into(),
                Err(e) => rel_err(&e),
            },
            Op::GNode(l) => match g.create_node(format!("L{l}"), HashMap::new()) {
                Ok(id) => format!("id {id}"),
                Err(e) => format!("err other:{}", vname(&e)),
            },
            Op::GEdge(a, b) => match g.create_edge(*a, *b, "E", HashMap::new(), true) {
                Ok(id) => format!("id {id}"),
                Err(GraphError::NodeNotFound(_)) => "err notfound".into(),
                Err(e) => format!("err other:{}", vname(&e)),
            },
            Op::GDelN(i) => match g.delete_node(*i) {
                Ok(()) => "ok".into(),
                Err(GraphError::NodeNotFound(_)) => "err notfound".into(),
                Err(e) => format!("err other:{}", vname(&e)),
            },
            Op::GDelE(i) => match g.delete_edge(*i) {
                Ok(()) => "ok".into(),
                Err(GraphError::EdgeNotFound(_)) => "err notfound".into(),
                Err(e) => format!("err other:{}", vname(&e)),
            },
            Op::VPut(k, vec) => match v.store_embedding(&format!("e{k}"), vec.iter().map(|x| *x as f32).collect()) {
                Ok(()) => "ok".into(),
                Err(VectorError::EmptyVector) => "err bad".into(),
                Err(e) => format!("err other:{}", vname(&e)),
            },
            Op::VDel(k) => match v.delete_embedding(&format!("e{k}")) {
                Ok(()) => "ok".into(),
                Err(VectorError::NotFound(_)) => "err notfound".into(),
                Err(e) => format!("err other:{}", vname(&e)),
            },
            Op::VBuild => match v.build_and_cache_index(HNSWConfig::default()) {
                Ok(()) => "ok".into(),
                Err(VectorError::NotFound(_)) => "err notfound".into(),
                Err(VectorError::DimensionMismatch { .. }) => "err bad".into(),
                Err(e) => format!("err other:{}", vname(&e)),
            },
            Op::KPut(cls, k, x, e) => {
                let mut t = TensorData::new();
                t.set("x", TensorValue::Scalar(ScalarValue::Int(*x)));
                if *cls == 2 {
                    if let Some(e) = e {
                        t.set("_embedding", TensorValue::Vector(vec![*e as f32; EMB_DIM]));
                    }
                }
                match self.store().put(Self::raw_key(*cls, *k), t) {
                    Ok(()) => "ok".into(),
                    Err(e) => format!("err other:{}", vname(&e)),
                }
            }
            Op::KDel(cls, k) => match self.store().delete(&Self::raw_key(*cls, *k)) {
                Ok(()) => "ok".into(),
                Err(tensor_store::TensorStoreError::NotFound(_)) => "err notfound".into(),
                #[allow(unreachable_patterns)]
                Err(e) => format!("err other:{}", vname(&e)),
            },
            Op::Ckpt(_) | Op::CkptReal(_) | Op::CkAll | Op::Rollback(_) | Op::CkDel(_) | Op::CkTop(_) | Op::TDel(..) | Op::TNodeDel(_) | Op::TEmbDel(_) => {
                unreachable!("handled by the stream")
            }
        }
    }

    /// a destructive statement through the router text API; the answer in the engine ops' terms
    fn text_destructive(&self, op: &Op) -> (String, &'static str) {
        let (stmt, is_count) = match op {
            Op::TDel(t, k) => (format!("DELETE FROM {} WHERE k = {k}", Self::tname(*t)), true),
            Op::TNodeDel(i) => (format!("NODE DELETE {i}"), false),
            Op::TEmbDel(k) => (format!("EMBED DELETE 'e{k}'"), false),
            _ => unreachable!(),
        };
        match self.router.execute_parsed(&stmt) {
            Ok(QueryResult::Count(n)) => {
                if is_count {
                    (format!("count {n}"), "")
                } else {
                    ("ok".into(), "")
                }
            }
            Ok(other) => (format!("err other:{}", vname(&other)), "other"),
            // rule 2: the three engines' refusals arrive as `<Engine>Error(String)`; nothing in C08
            // depends on WHY a text DELETE was refused (the image and the checkpoint listing are
            // compared after every statement), so ONE token `err refused` is compared (the model's
            // `err notfound` / `err storage` are mapped to it at comparison time, see `TEXT_REFUSED`)
            // and the reason read from the text is kept as a coverage statistic only.
            Err(e @ (RouterError::RelationalError(_) | RouterError::GraphError(_) | RouterError::VectorError(_))) => {
                (TEXT_REFUSED.into(), router_reason(&e).unwrap_or("unclassified"))
            }
            Err(e) => (format!("err other:{}", vname(&e)), "other"),
        }
    }

    /// The same questions through the router TEXT API (`SELECT`, `NODE GET`, `NEIGHBORS`,
    /// `EMBED GET`, `SIMILAR` via `execute_parsed`), checked against the engine-level image `img`
    /// taken at the same moment (which is what the model is compared with after every statement).
    /// Returns one line per answer that differs.
    fn text_api_diffs(&self, img: &Image) -> Vec<String> {
        let mut out = vec![];
        let ex = |q: &str| self.router.execute_parsed(q);
        for (t, scan, _, _) in &img.tables {
            let q = format!("SELECT * FROM {}", Self::tname(*t));
            let got = match ex(&q) {
                Ok(QueryResult::Rows(rows)) => {
                    let mut items: Vec<(u64, String)> = rows
                        .iter()
                        .map(|r| {
                            let g = |c: &str| match r.get(c) {
                                Some(Value::Int(x)) => x.to_string(),
                                other => format!("?{other:?}"),
                            };
                            (r.id, format!("{}.{}.{}", r.id, g("k"), g("v")))
                        })
                        .collect();
                    items.sort();
                    format!("ok:{}", items.into_iter().map(|p| p.1).collect::<Vec<_>>().join(","))
                }
                Ok(other) => format!("?{other:?}"),
                // rule 3: this ORACLE (text answer = engine answer) needs the reason and the router gives
                // only text; keyword match as loose as the repo's tests pin it (`router_reason`), and an
                // unrecognised relational message degrades to "refused", which agrees with any engine error
                Err(e @ RouterError::RelationalError(_)) => match router_reason(&e) {
                    Some(r) => format!("err:{r}"),
                    None => "err:refused".into(),
                },
                Err(e) => format!("err:other:{}", vname(&e)),
            };
            if &got != scan && !(got == "err:refused" && scan.starts_with("err:") && !scan.starts_with("err:other")) {
                out.push(format!("{q}: text {got} / engine {scan}"));
            }
        }
        for n in img.nodes.split(',').filter(|x| !x.is_empty()) {
            let (id, label) = n.split_once(':').unwrap_or((n, "?"));
            let q = format!("NODE GET {id}");
            let got = match ex(&q) {
                Ok(QueryResult::Nodes(ns)) => {
                    ns.iter().map(|x| format!("{}:{}", x.id, x.label.strip_prefix('L').unwrap_or(&x.label))).collect::<Vec<_>>().join(",")
                }
                other => format!("?{other:?}"),
            };
            if got != format!("{id}:{label}") {
                out.push(format!("{q}: text {got} / engine {id}:{label}"));
            }
        }
        for b in img.nbrs.split(',').filter(|x| !x.is_empty()) {
            let (id, want) = b.split_once(':').unwrap_or((b, ""));
            let q = format!("NEIGHBORS {id} BOTH");
            let got = match ex(&q) {
                Ok(QueryResult::Ids(mut ids)) => {
                    ids.sort_unstable();
                    ids.dedup();
                    dots(&ids)
                }
                other => format!("?{other:?}"),
            };
            let mut w: Vec<u64> = want.split('.').filter_map(|x| x.parse().ok()).collect();
            w.sort_unstable();
            w.dedup();
            if got != dots(&w) {
                out.push(format!("{q}: text {got} / engine {want}"));
            }
        }
        let mut dim3: Vec<u64> = vec![];
        for e in img.embs.split(',').filter(|x| !x.is_empty()) {
            let (k, want) = e.split_once(':').unwrap_or((e, ""));
            if want.split('.').count() == 3 {
                if let Ok(k) = k.parse() {
                    dim3.push(k);
                }
            }
            let q = format!("EMBED GET 'e{k}'");
            let got = match ex(&q) {
                Ok(QueryResult::Value(s)) => s
                    .trim_matches(|c| c == '[' || c == ']')
                    .split(',')
                    .filter_map(|x| x.trim().parse::<f32>().ok())
                    .map(|x| (x as i64).to_string())
                    .collect::<Vec<_>>()
                    .join("."),
                other => format!("?{other:?}"),
            };
            if got != want {
                out.push(format!("{q}: text {got} / engine {want}"));
            }
        }
        // SIMILAR does a brute-force scan (never the vector engine's cached HNSW index): it must
        // answer exactly the stored embeddings of the query's dimension
        dim3.sort_unstable();
        // (non-negative components: `-x` in a vector literal is rejected by execute_parsed — the
        // known C15 finding negative_number_rejected)
        for qv in [vec![1i64, 1, 1], vec![1, 0, 2]] {
            let q = format!("SIMILAR [{}] LIMIT 64", qv.iter().map(|x| format!("{x}.0")).collect::<Vec<_>>().join(", "));
            let got = match ex(&q) {
                Ok(QueryResult::Similar(rs)) => {
                    let mut ks: Vec<u64> = rs.iter().filter_map(|r| r.key.strip_prefix('e').and_then(|s| s.parse().ok())).collect();
                    ks.sort_unstable();
                    dots(&ks)
                }
                other => format!("?{other:?}"),
            };
            if got != dots(&dim3) {
                out.push(format!("{q}: text {got} / stored embeddings of that dimension {}", dots(&dim3)));
            }
        }
        out
    }

    /// (real id, name, created_at) of every listed checkpoint
    fn listing(&self) -> Vec<(String, String, u64)> {
        let blob = self.router.blob().expect("blob").clone();
        self.rt
            .block_on(async {
                let b = blob.lock().await;
                CheckpointStorage::list(&b).await
            })
            .map(|l| l.into_iter().map(|c| (c.id, c.name, c.created_at)).collect())
            .unwrap_or_default()
    }

    /// the FULL listing through the manager's own API, `CheckpointManager::list(None)`, newest
    /// first: (real id, name, created_at)
    fn list_all(&self) -> Result<Vec<(String, String, u64)>, String> {
        let mgr = self.router.checkpoint().expect("checkpoint manager").clone();
        self.rt
            .block_on(async {
                let m = mgr.lock().await;
                m.list(None).await
            })
            .map(|l| l.into_iter().map(|c| (c.id, c.name, c.created_at)).collect())
            .map_err(|e| e.to_string())
    }

    /// the string a target / name code stands for
    fn code_str(&self, code: u64) -> String {
        if code == AUTO_DELETE {
            "auto-before-delete".into()
        } else if code == AUTO_NODE_DELETE {
            "auto-before-node-delete".into()
        } else if code == AUTO_EMBED_DELETE {
            "auto-before-embed-delete".into()
        } else if code >= NAME0 {
            format!("c{}", code - NAME0)
        } else {
            self.ck_real.get(&code).cloned().unwrap_or_else(|| format!("hid-{code}"))
        }
    }

    /// `CHECKPOINT '<name>'` through the router text API; `created_at` is the wall clock: the
    /// value the listing reports is handed to the model (fallback `ts` if retention dropped it)
    fn checkpoint_router(&mut self, name: u64, ts: u64) -> (u64, String) {
        let n = self.next_ck;
        self.next_ck += 1;
        let name_s = self.code_str(name);
        match self.router.execute_parsed(&format!("CHECKPOINT '{name_s}'")) {
            Ok(QueryResult::Value(s)) => {
                let id = s.rsplit(' ').next().unwrap_or("").to_string();
                let blob = self.router.blob().expect("blob").clone();
                let listed = self
                    .rt
                    .block_on(async {
                        let b = blob.lock().await;
                        CheckpointStorage::list(&b).await
                    })
                    .unwrap_or_default();
                // not listed = retention evicted it at once, which takes a created_at tie with
                // everything kept: its timestamp is the newest listed one
                let real_ts = listed.iter().find(|c| c.id == id).map(|c| c.created_at).or_else(|| {
                    if listed.len() >= self.max { listed.iter().map(|c| c.created_at).max() } else { None }
                });
                self.ck_real.insert(n, id);
                self.ck_meta.insert(n, (name, real_ts.unwrap_or(ts)));
                (n, format!("id {n}"))
            }
            Ok(other) => (n, format!("err other:{}", vname(&other))),
            Err(e) => (n, format!("err other:{}", vname(&e))),
        }
    }

    /// what `CheckpointManager::create` does, with the harness clock for `created_at`
    fn checkpoint_manager(&mut self, name: u64, ts: u64) -> (u64, String) {
        let n = self.next_ck;
        self.next_ck += 1;
        let name_s = self.code_str(name);
        let store = self.store().clone();
        let bytes = match store.snapshot_bytes() {
            Ok(b) => b,
            Err(e) => return (n, format!("err other:{}", vname(&e))),
        };
        let mut state = CheckpointState::new(format!("hid-{n}"), name_s, bytes, CheckpointMetadata::default());
        state.created_at = ts;
        let blob = self.router.blob().expect("blob").clone();
        let max = self.max;
        let r = self.rt.block_on(async {
            let b = blob.lock().await;
            CheckpointStorage::store(&state, &b).await?;
            RetentionManager::new(max).enforce(&b).await
        });
        match r {
            Ok(_) => {
                self.ck_real.insert(n, format!("hid-{n}"));
                self.ck_meta.insert(n, (name, ts));
                (n, format!("id {n}"))
            }
            Err(e) => (n, format!("err other:{}", vname(&e))),
        }
    }

    fn rollback(&self, code: u64) -> String {
        let target = self.code_str(code);
        match self.router.execute_parsed(&format!("ROLLBACK TO '{target}'")) {
            Ok(_) => "ok".into(),
            // the model knows ONE refusal of ROLLBACK TO (`err notfound`: the target resolves to no listed
            // checkpoint) and the router reports every checkpoint-side refusal as `CheckpointError(String)`:
            // by variant, not by the wording "not found" (rule 2; the target-resolution oracle only needs
            // ok / refused, and a restore that fails for another reason leaves an image the model's
            // unchanged image is compared with right after)
            Err(RouterError::CheckpointError(_)) => "err notfound".into(),
            Err(e) => format!("err other:{}", vname(&e)),
        }
    }

    /// `CheckpointManager::delete(id_or_name)` on the router's own manager
    fn ckdel(&self, code: u64) -> String {
        let target = self.code_str(code);
        let mgr = self.router.checkpoint().expect("checkpoint manager").clone();
        let r = self.rt.block_on(async {
            let m = mgr.lock().await;
            m.delete(&target).await
        });
        match r {
            Ok(()) => "ok".into(),
            Err(tensor_checkpoint::CheckpointError::NotFound(_)) => "err notfound".into(),
            Err(e) => format!("err other:{}", vname(&e)),
        }
    }

    /// `CHECKPOINTS LIMIT n` through the router text API: model ids in the order answered
    fn cktop(&self, n: u64) -> Result<Vec<u64>, String> {
        match self.router.execute_parsed(&format!("CHECKPOINTS LIMIT {n}")) {
            Ok(QueryResult::CheckpointList(l)) => {
                let rev: HashMap<&String, u64> = self.ck_real.iter().map(|(k, v)| (v, *k)).collect();
                l.iter().map(|c| rev.get(&c.id).copied().ok_or_else(|| format!("unknown id {}", c.id))).collect()
            }
            Ok(other) => Err(format!("other:{other:?}")),
            Err(e) => Err(format!("{e}")),
        }
    }

    /// `CHECKPOINTS` (no LIMIT) through the router text API: model ids in the order answered
    fn cktop_default(&self) -> Result<Vec<u64>, String> {
        match self.router.execute_parsed("CHECKPOINTS") {
            Ok(QueryResult::CheckpointList(l)) => {
                let rev: HashMap<&String, u64> = self.ck_real.iter().map(|(k, v)| (v, *k)).collect();
                l.iter().map(|c| rev.get(&c.id).copied().ok_or_else(|| format!("unknown id {}", c.id))).collect()
            }
            Ok(other) => Err(format!("other:{other:?}")),
            Err(e) => Err(format!("{e}")),
        }
    }

    /// model ids of the checkpoints the storage lists (in listing order), with sizes
    fn live(&self) -> Vec<(u64, usize)> {
        let blob = self.router.blob().expect("blob").clone();
        let list = self.rt.block_on(async {
            let b = blob.lock().await;
            CheckpointStorage::list(&b).await
        });
        let rev: HashMap<&String, u64> = self.ck_real.iter().map(|(k, v)| (v, *k)).collect();
        let mut out = vec![];
        if let Ok(list) = list {
            for cp in list {
                if let Some(n) = rev.get(&cp.id) {
                    out.push((*n, cp.size));
                }
            }
        }
        out
    }
    fn live_ids(&self) -> Vec<u64> {
        let mut v: Vec<u64> = self.live().into_iter().map(|p| p.0).collect();
        v.sort_unstable();
        v
    }
    /// the checkpoint a target string (of `ROLLBACK TO` and of `CheckpointManager::delete`) must
    /// resolve to by the documented rule (the listed
    /// checkpoint whose ID is the string; otherwise the newest listed checkpoint whose NAME is the
    /// string), computed from the harness's own bookkeeping: Ok(None) = nothing matches,
    /// Err(()) = several newest name matches share a timestamp (hash order decides; not predictable)
    fn expected_target(&self, code: u64, live: &[u64]) -> Result<Option<u64>, ()> {
        if live.contains(&code) {
            return Ok(Some(code));
        }
        let cands: Vec<(u64, u64)> = live
            .iter()
            .filter_map(|i| {
                let (nm, ts) = self.ck_meta.get(i)?;
                if *nm == code {
                    Some((*i, *ts))
                } else {
                    None
                }
            })
            .collect();
        let Some(best) = cands.iter().map(|c| c.1).max() else { return Ok(None) };
        let top: Vec<u64> = cands.iter().filter(|c| c.1 == best).map(|c| c.0).collect();
        if top.len() == 1 {
            Ok(Some(top[0]))
        } else {
            Err(())
        }
    }
    /// listed checkpoints OTHER than `code` whose NAME is the id string of checkpoint `code`
    fn named_with_id_of(&self, code: u64, live: &[u64]) -> Vec<u64> {
        live.iter().copied().filter(|j| *j != code && self.ck_meta.get(j).is_some_and(|m| m.0 == code)).collect()
    }
    fn loadable(&self, n: u64) -> bool {
        let blob = self.router.blob().expect("blob").clone();
        let id = self.code_str(n);
        self.rt.block_on(async {
            let b = blob.lock().await;
            CheckpointStorage::load(&id, &b).await.is_ok()
        })
    }

    // ------------------------------------------------------------ the observable image

    fn rows(&self, t: &str, c: Condition) -> String {
        match self.router.relational().select(t, c) {
            Ok(rows) => {
                let items: Vec<String> = rows
                    .iter()
                    .map(|r| {
                        let g = |c: &str| match r.get(c) {
                            Some(Value::Int(x)) => x.to_string(),
                            other => format!("?{other:?}"),
                        };
                        format!("{}.{}.{}", r.id, g("k"), g("v"))
                    })
                    .collect();
                format!("ok:{}", items.join(","))
            }
            Err(e) => rel_err_q(&e),
        }
    }

    fn image(&self) -> Image {
        let rel = self.router.relational();
        let g = self.router.graph();
        let v = self.router.vector();
        // tables
        let mut ts: Vec<u64> = rel
            .list_tables()
            .iter()
            .filter_map(|n| n.strip_prefix('t').and_then(|s| s.parse().ok()))
            .collect();
        ts.sort_unstable();
        let mut tables = vec![];
        for t in &ts {
            let name = Self::tname(*t);
            let scan = self.rows(&name, Condition::True);
            let eqs: Vec<String> =
                PROBE_INTS.iter().map(|x| self.rows(&name, Condition::Eq("k".into(), Value::Int(*x)))).collect();
            let lts: Vec<String> =
                PROBE_INTS.iter().map(|x| self.rows(&name, Condition::Lt("v".into(), Value::Int(*x)))).collect();
            tables.push((*t, scan, eqs.join("/"), lts.join("/")));
        }
        // graph
        let lab = |l: &Vec<String>| l.first().and_then(|s| s.strip_prefix('L').map(str::to_string)).unwrap_or("?".into());
        let nodes_v = g.all_nodes();
        let nodes: Vec<String> = nodes_v.iter().map(|n| format!("{}:{}", n.id, lab(&n.labels))).collect();
        let edges: Vec<String> = g.all_edges().iter().map(|e| format!("{}:{}>{}", e.id, e.from, e.to)).collect();
        let nbrs: Vec<String> = nodes_v
            .iter()
            .map(|n| {
                let ids: Vec<u64> = g
                    .neighbors(n.id, None, Direction::Both, None)
                    .map(|v| v.iter().map(|x| x.id).collect())
                    .unwrap_or_default();
                format!("{}:{}", n.id, dots(&ids))
            })
            .collect();
        let by_label: Vec<String> = PROBE_LABELS
            .iter()
            .map(|l| {
                let ids: Vec<u64> =
                    g.find_nodes_by_label(&format!("L{l}")).map(|v| v.iter().map(|x| x.id).collect()).unwrap_or_default();
                dots(&ids)
            })
            .collect();
        // vectors
        let mut keys: Vec<u64> =
            v.list_keys().iter().filter_map(|k| k.strip_prefix('e').and_then(|s| s.parse().ok())).collect();
        keys.sort_unstable();
        keys.dedup();
        let mut embs = vec![];
        for k in &keys {
            if let Ok(vec) = v.get_embedding(&format!("e{k}")) {
                embs.push(format!("{k}:{}", comps(&vec)));
            }
        }
        let search: Vec<String> = probe_queries()
            .iter()
            .map(|q| {
                let qf: Vec<f32> = q.iter().map(|x| *x as f32).collect();
                match v.search_similar(&qf, 64) {
                    Ok(rs) => {
                        let mut ks: Vec<u64> =
                            rs.iter().filter_map(|r| r.key.strip_prefix('e').and_then(|s| s.parse().ok())).collect();
                        ks.sort_unstable();
                        dots(&ks)
                    }
                    Err(e) => format!("err:{e:?}"),
                }
            })
            .collect();
        // raw keys
        let st = self.store();
        let mut raw: Vec<(u64, String)> = vec![];
        let mut raw_strict: Vec<(u64, String)> = vec![];
        for key in st.scan("") {
            let (code, name) = if let Some(k) = plain_code(&key) {
                (k, format!("m{k}"))
            } else if let Some(k) = key.strip_prefix("_cache:c").and_then(|s| s.parse::<u64>().ok()) {
                (1_000_000 + k, format!("c{k}"))
            } else if let Some(k) = key.strip_prefix("emb:e").and_then(|s| s.parse::<u64>().ok()) {
                (2_000_000 + k, format!("e{k}"))
            } else {
                continue;
            };
            if let Ok(t) = st.get(&key) {
                raw.push((code, format!("{name}={}", show_raw(&t, false))));
                raw_strict.push((code, format!("{name}={}", show_raw(&t, true))));
            }
        }
        raw.sort();
        raw_strict.sort();
        Image {
            tables,
            nodes: nodes.join(","),
            edges: edges.join(","),
            nbrs: nbrs.join(","),
            by_label: by_label.join("|"),
            embs: embs.join(","),
            search: search.join("|"),
            raw: raw.into_iter().map(|p| p.1).collect::<Vec<_>>().join(","),
            raw_strict: raw_strict.into_iter().map(|p| p.1).collect::<Vec<_>>().join(","),
        }
    }
}

/// components of a vector: integral values as integers, anything else with all its digits (a
/// cast would hide a perturbation)
fn comps(v: &[f32]) -> String {
    v.iter().map(|x| if *x == x.trunc() && x.abs() < 1e9 { (*x as i64).to_string() } else { format!("{x:?}") }).collect::<Vec<_>>().join(".")
}

/// tolerance of the CANONICAL form of a slab-dimension `_embedding` (what is compared with the
/// model, whose per-vector snapshot codec is the identity): every component within this distance of
/// one and the same integer
const EMB_TOL: f32 = 0.01;

/// `strict` = bit-level (the property oracle: what was put must come back bit for bit);
/// otherwise the canonical form compared with the model: a slab-dimension `_embedding` whose
/// components are all within `EMB_TOL` of one integer `n` is `n` — the real snapshot codec
/// (tensor-train for 384 components) returns even a constant integer vector only up to a few 1e-6,
/// see the known finding `dense_embedding_perturbed`
fn show_raw(t: &TensorData, strict: bool) -> String {
    if let Some(v) = t.get("vector") {
        let dense: Vec<f32> = match v {
            TensorValue::Vector(v) => v.clone(),
            TensorValue::Sparse(s) => s.to_dense(),
            _ => vec![],
        };
        return format!("v{}", comps(&dense));
    }
    let x = match t.get("x") {
        Some(TensorValue::Scalar(ScalarValue::Int(x))) => x.to_string(),
        _ => "-".into(),
    };
    let e = match t.get("_embedding") {
        Some(TensorValue::Vector(v)) if !v.is_empty() => {
            let f = v[0];
            let n = f.round();
            if v.len() == EMB_DIM && v.iter().all(|y| y.to_bits() == f.to_bits()) && f == f.trunc() {
                // bit-identical components of an integer value: no rounding can hide in the cast
                (f as i64).to_string()
            } else if !strict && v.len() == EMB_DIM && v.iter().all(|y| (y - n).abs() <= EMB_TOL) {
                (n as i64).to_string()
            } else if v.len() == EMB_DIM {
                // FNV-1a over the bit patterns: two values print alike iff they are bit-identical
                let mut h: u64 = 0xcbf29ce484222325;
                for y in v {
                    for b in y.to_bits().to_le_bytes() {
                        h = (h ^ u64::from(b)).wrapping_mul(0x100000001b3);
                    }
                }
                format!("?{}:{:?}..#{h:016x}", v.len(), f)
            } else {
                format!("?{}", v.len())
            }
        }
        Some(TensorValue::Sparse(s)) => format!("?sparse{}", s.to_dense().len()),
        _ => "-".into(),
    };
    format!("x{x}e{e}")
}

#[derive(Clone, Debug, PartialEq)]
struct Image {
    tables: Vec<(u64, String, String, String)>,
    nodes: String,
    edges: String,
    nbrs: String,
    by_label: String,
    embs: String,
    search: String,
    /// canonical (model-comparable) form of the raw keys
    raw: String,
    /// bit-level form of the raw keys (property oracle only; not sent to the model)
    raw_strict: String,
}

impl Image {
    /// the part of the image that a rollback restores exactly (read through the key-addressed
    /// slabs: `rollback_exact_partial`): identifies WHICH checkpoint's image came back
    fn kv(&self) -> (Vec<u64>, &str, &str, &str, &str, &str) {
        (self.tables.iter().map(|t| t.0).collect(), &self.nodes, &self.edges, &self.nbrs, &self.embs, &self.raw)
    }
    fn line(&self) -> String {
        let t: Vec<String> = self.tables.iter().map(|(t, s, e, l)| format!("t{t}[{s}|{e}|{l}]")).collect();
        [
            format!("T {}", t.join(";")),
            format!("N {}", self.nodes),
            format!("E {}", self.edges),
            format!("B {}", self.nbrs),
            format!("L {}", self.by_label),
            format!("V {}", self.embs),
            format!("S {}", self.search),
            format!("R {}", self.raw),
        ]
        .join(" # ")
        .trim_end()
        .to_string()
    }
}

/// property oracle: `now` (after rolling back to a checkpoint) vs `then` (the real image when the
/// checkpoint was taken).  Returns (class, what) per difference.
fn diff_images(then: &Image, now: &Image) -> Vec<(String, String)> {
    let mut out = vec![];
    if then.tables != now.tables {
        let nowm: BTreeMap<u64, &(u64, String, String, String)> = now.tables.iter().map(|t| (t.0, t)).collect();
        let mut lost = false;
        let mut idx_only = true;
        let mut unlisted: Vec<u64> = vec![];
        for t in &then.tables {
            match nowm.get(&t.0) {
                None => {
                    unlisted.push(t.0);
                    idx_only = false;
                }
                Some(n) => {
                    if t.1 != n.1 {
                        idx_only = false;
                        if t.1.starts_with("ok:") && n.1.starts_with("err:") {
                            lost = true;
                        }
                    }
                }
            }
        }
        if now.tables.len() != then.tables.len() {
            idx_only = false;
        }
        if !unlisted.is_empty() {
            out.push((
                TABLE_UNLISTED_CLASS.to_string(),
                format!("tables {unlisted:?} were listed when the checkpoint was taken and list_tables does not show them after the rollback (the table's `_meta:table:` key did not come back; the known finding relational_tables_lost is about tables that ARE listed again and whose rows are gone)"),
            ));
        }
        if lost {
            out.push((
                "tensor_store.restore_from_bytes/relational_tables_lost".to_string(),
                "a table that could be scanned when the checkpoint was taken is listed but unreadable after the rollback (the relational slab is cleared and not restored)".to_string(),
            ));
        } else if idx_only {
            out.push((
                "query_router.rollback/stale_index_after_rollback".to_string(),
                "table scans equal the checkpointed ones but an index-path query differs".to_string(),
            ));
        } else {
            out.push((
                "query_router.rollback/relational_state_not_restored".to_string(),
                "table scans after the rollback differ from the checkpointed ones".to_string(),
            ));
        }
    }
    if then.nodes != now.nodes || then.edges != now.edges || then.nbrs != now.nbrs {
        out.push((
            "query_router.rollback/graph_state_not_restored".to_string(),
            "nodes / edges / neighbours after the rollback differ from the checkpointed ones".to_string(),
        ));
    } else if then.by_label != now.by_label {
        out.push((
            "query_router.rollback/stale_index_after_rollback".to_string(),
            "all_nodes equals the checkpointed one but find_nodes_by_label (in-memory label index of the graph engine, not reset by the rollback) differs".to_string(),
        ));
    }
    if then.embs != now.embs {
        out.push((
            "query_router.rollback/vector_state_not_restored".to_string(),
            "embeddings after the rollback differ from the checkpointed ones".to_string(),
        ));
    } else if then.search != now.search {
        out.push((
            "query_router.rollback/stale_hnsw_cache_after_rollback".to_string(),
            "embeddings equal the checkpointed ones but search_similar (cached HNSW index of the vector engine, not invalidated by the rollback) answers differently".to_string(),
        ));
    }
    if then.raw != now.raw {
        out.push((
            "tensor_store.restore_from_bytes/keys_not_restored".to_string(),
            "plain / cache / emb keys after the restore differ from the snapshotted ones".to_string(),
        ));
    } else if then.raw_strict != now.raw_strict {
        // same keys, same scalar fields, every slab-dimension `_embedding` within EMB_TOL of what
        // it was (the canonical forms agree) — but not bit for bit
        out.push((
            DENSE_CLASS.to_string(),
            format!("every plain / cache / emb key is back with its scalar field, but a {EMB_DIM}-dim `_embedding` under an `emb:` key is not bit-exact (within {EMB_TOL} per component): the snapshot carries the embedding-slab copy through tensor-train compression and the restore re-puts it over the exact value kept in the metadata slab; at the checkpoint [{}], after the rollback [{}]", then.raw_strict, now.raw_strict),
        ));
    }
    out
}

struct Ctx {
    rep: Report,
    per_class: BTreeMap<String, u32>,
}
impl Ctx {
    fn violation(&mut self, class: &str, what: &str, input: serde_json::Value) {
        self.rep.hit(&format!("violation:{class}"));
        let n = self.per_class.entry(class.to_string()).or_insert(0);
        *n += 1;
        if *n <= 2 {
            self.rep.violation(class, what, input);
        }
    }
}

fn wall_secs() -> u64 {
    std::time::SystemTime::now().duration_since(std::time::UNIX_EPOCH).map(|d| d.as_secs()).unwrap_or(0)
}

/// Retention as a creation path applies it, judged on the real listing alone: `live_before` were
/// listed, checkpoint number `n` was made, `kept` are listed now.  Exactly min(before + 1, max) are
/// kept; nothing dropped has a later created_at than something kept (an EQUAL created_at with the
/// later-made one dropped is the known tie finding — and only that); every kept one loads.
#[allow(clippy::too_many_arguments)]
fn retention_after_create(ctx: &mut Ctx, sys: &Sys, stream: &str, site: &str, max: usize, live_before: &[u64], n: u64, kept: &[u64], trace: &[String], tss: &[u64], stmt: &str) -> bool {
    let mut violated = false;
    let mut total: Vec<u64> = live_before.to_vec();
    total.push(n);
    let dropped: Vec<u64> = total.iter().copied().filter(|i| !kept.contains(i)).collect();
    let want = total.len().min(max);
    let ts_of = |i: &u64| sys.ck_meta.get(i).map(|m| m.1).unwrap_or(0);
    let input = json!({"stream": stream, "max": max, "ops": trace, "statement": stmt, "ts": tss, "listed_before": live_before, "made": n, "listed_after": kept, "dropped": dropped,
        "created_at": total.iter().map(|i| (i.to_string(), json!(ts_of(i)))).collect::<serde_json::Map<String, serde_json::Value>>()});
    if kept.len() != want || kept.iter().any(|k| !total.contains(k)) {
        violated = true;
        ctx.violation(
            &format!("{site}/wrong_count"),
            &format!("{} checkpoints were listed (max_checkpoints = {max}), statement {stmt} made one more: {} are listed afterwards, retention must leave min(listed + 1, max) = {want} of them", live_before.len(), kept.len()),
            input.clone(),
        );
    }
    for d in &dropped {
        for k in kept {
            if ts_of(d) > ts_of(k) {
                violated = true;
                ctx.violation(
                    &format!("{site}/newer_dropped_older_kept"),
                    &format!("retention deleted checkpoint number {d} (created_at {}) and kept number {k} (created_at {})", ts_of(d), ts_of(k)),
                    input.clone(),
                );
            } else if ts_of(d) == ts_of(k) && d > k {
                violated = true;
                ctx.violation(
                    TIE_CLASS,
                    &format!("retention kept checkpoint c{k} and deleted the later-created c{d} (equal created_at seconds; list order of ties is the blob tag scan's hash order)"),
                    input.clone(),
                );
            }
        }
    }
    for k in kept {
        if !sys.loadable(*k) {
            violated = true;
            ctx.violation(&format!("{site}/retained_not_loadable"), &format!("retained checkpoint c{k} cannot be loaded"), input.clone());
        }
    }
    violated
}

#[derive(Clone, Copy, PartialEq)]
enum Mode {
    Router,
    Manager,
    /// router statements with auto-checkpoint protection on (destructive statements through the text API)
    Auto,
    /// auto-checkpoint protection on, small `max_checkpoints`: `Ckpt` by the harness clock (fills
    /// the listing), `CkptReal` and the destructive text statements by the wall clock
    AutoRet,
}

/// site of the creation path a statement went through (violation classes are `<site>/<kind>`)
const SITE_CREATE: &str = "tensor_checkpoint.manager_create";
const SITE_CREATE_AUTO: &str = "tensor_checkpoint.manager_create_auto";
const SITE_RETENTION: &str = "tensor_checkpoint.retention";

struct Gen {
    tables: u64,
    nodes_hi: u64,
    edges_hi: u64,
}

/// names shared by several checkpoints (manager mode: the harness clock orders them)
const SHARED_NAMES: [u64; 2] = [NAME0 + 50, NAME0 + 51];

fn gen_target(r: &mut Rng, n_ck: u64, mode: Mode) -> u64 {
    if r.chance(1, 12) {
        // nothing of that id / name (or not yet)
        if r.chance(1, 2) { NAME0 + n_ck + r.below(2) } else { n_ck + r.below(2) }
    } else if r.chance(1, 4) {
        r.below(n_ck) // by id
    } else if mode == Mode::Manager && r.chance(1, 4) {
        SHARED_NAMES[r.below(2) as usize]
    } else if (mode == Mode::Auto || mode == Mode::AutoRet) && r.chance(1, 3) {
        [AUTO_DELETE, AUTO_NODE_DELETE, AUTO_EMBED_DELETE][r.below(3) as usize]
    } else {
        NAME0 + r.below(n_ck) // by its own name
    }
}

/// a raw plain key number: 2 in 5 from another family than `plain:` (biased to the families that
/// share a metadata shard with an engine's keys: `user:`, `order:`, `Note:`, `~tmp:`, `/path:`)
fn gen_plain_k(r: &mut Rng) -> u64 {
    if r.chance(2, 5) {
        *r.pick(&[1u64, 1, 2, 2, 3, 4, 9, 5, 6, 7, 8]) * 100 + r.below(3)
    } else {
        r.below(4)
    }
}

fn gen_op(r: &mut Rng, g: &mut Gen, n_ck: u64, raw_mix: bool, mode: Mode) -> Op {
    let t = r.below(g.tables);
    let w = r.below(104);
    match w {
        0..=5 => Op::RCreate(t),
        6..=7 => Op::RDrop(t),
        8..=21 => Op::RIns(t, r.below(4) as i64, r.below(4) as i64),
        22..=26 => Op::RDel(t, r.below(4) as i64),
        27..=29 => Op::RHidx(t),
        30..=32 => Op::RBidx(t),
        33..=43 => {
            g.nodes_hi += 1;
            Op::GNode(r.below(3))
        }
        44..=52 => {
            g.edges_hi += 1;
            Op::GEdge(1 + r.below(g.nodes_hi.max(1) + 1), 1 + r.below(g.nodes_hi.max(1) + 1))
        }
        53..=57 => Op::GDelN(1 + r.below(g.nodes_hi.max(1) + 1)),
        58..=61 => Op::GDelE(1 + r.below(g.edges_hi.max(1) + 1)),
        62..=72 => {
            let mut v: Vec<i64> = (0..3).map(|_| r.range(-2, 3)).collect();
            if v.iter().all(|x| *x == 0) {
                v[0] = 1;
            }
            Op::VPut(r.below(5), v)
        }
        73..=76 => Op::VDel(r.below(5)),
        77..=79 => Op::VBuild,
        80..=84 => {
            if raw_mix {
                let cls = r.below(3);
                // emb-class raw keys live beside the vector engine's keys (keys 5..7: no collision
                // unless asked for), plain / cache anywhere
                let k = if cls == 2 { 5 + r.below(3) } else if cls == 0 { gen_plain_k(r) } else { r.below(4) };
                let e = if cls == 2 && r.chance(3, 4) { Some(r.range(-3, 3)) } else { None };
                Op::KPut(cls, k, r.range(-5, 5), e)
            } else {
                let cls = r.below(2);
                Op::KPut(cls, if cls == 0 { gen_plain_k(r) } else { r.below(4) }, r.range(-5, 5), None)
            }
        }
        85..=86 => {
            let cls = if raw_mix { r.below(3) } else { r.below(2) };
            Op::KDel(cls, if cls == 2 { 5 + r.below(3) } else if cls == 0 { gen_plain_k(r) } else { r.below(4) })
        }
        87..=92 => {
            if mode == Mode::Manager && r.chance(1, 3) {
                if n_ck > 0 && r.chance(1, 3) {
                    // named with the id string of an earlier checkpoint
                    Op::Ckpt(Some(r.below(n_ck)))
                } else {
                    Op::Ckpt(Some(SHARED_NAMES[r.below(2) as usize]))
                }
            } else if mode == Mode::Router && n_ck > 0 && r.chance(1, 8) {
                // CHECKPOINT '<uuid of an earlier checkpoint>'
                Op::Ckpt(Some(r.below(n_ck)))
            } else {
                Op::Ckpt(None)
            }
        }
        100..=101 if n_ck > 0 => {
            // half of the deletes go by id: with 1 checkpoint in 8 / 9 named with an earlier id that
            // is where the id pass of the target resolution (14af22de) decides what is unlisted
            if r.chance(1, 2) {
                Op::CkDel(r.below(n_ck))
            } else {
                Op::CkDel(gen_target(r, n_ck, mode))
            }
        }
        102..=103 if n_ck > 0 => Op::CkTop(r.below(4)),
        _ => {
            if n_ck == 0 {
                Op::Ckpt(None)
            } else {
                Op::Rollback(gen_target(r, n_ck, mode))
            }
        }
    }
}

/// The shape of history on which entity ids matter across a snapshot: 3-5 `emb:` keys (raw keys
/// 5..9) with slab-dimension `_embedding`s of pairwise DISTINCT contents, sometimes a vector-engine
/// key (`emb:e0..4`, an entity id without a slab entry) in front or among them, then one or two of
/// the keys created EARLIER than a survivor deleted, one of them sometimes re-created with a new
/// content.  Returns the statements and the number of slab keys alive at the end.
fn gen_emb_prelude(r: &mut Rng) -> (Vec<Op>, usize) {
    let mut keys: Vec<u64> = vec![5, 6, 7, 8, 9];
    let mut vals: Vec<i64> = vec![-3, -2, -1, 1, 2, 3, 4];
    // Fisher-Yates with the harness rng
    for i in (1..keys.len()).rev() {
        keys.swap(i, r.below(i as u64 + 1) as usize);
    }
    for i in (1..vals.len()).rev() {
        vals.swap(i, r.below(i as u64 + 1) as usize);
    }
    let n = 3 + r.below(3) as usize;
    let mut ops: Vec<Op> = vec![];
    let mut created: Vec<Op> = vec![]; // the delete that undoes creation i
    let vpos = if r.chance(1, 3) { Some(r.below(n as u64 - 1) as usize) } else { None };
    for i in 0..n {
        if vpos == Some(i) {
            let vk = r.below(5);
            ops.push(Op::VPut(vk, vec![1 + r.below(2) as i64, r.range(-2, 3), r.range(-2, 3)]));
            created.push(Op::VDel(vk));
        }
        ops.push(Op::KPut(2, keys[i], r.range(-5, 5), Some(vals[i])));
        created.push(Op::KDel(2, keys[i]));
    }
    // delete one or two creations that are not the last one
    let mut alive = n;
    let d1 = r.below(created.len() as u64 - 1) as usize;
    ops.push(created[d1].clone());
    let mut deleted = vec![d1];
    if r.chance(1, 3) {
        let d2 = r.below(created.len() as u64 - 1) as usize;
        if d2 != d1 {
            ops.push(created[d2].clone());
            deleted.push(d2);
        }
    }
    for d in &deleted {
        if matches!(created[*d], Op::KDel(..)) {
            alive -= 1;
        }
    }
    if r.chance(1, 3) {
        if let Op::KDel(_, k) = created[deleted[0]] {
            ops.push(Op::KPut(2, k, r.range(-5, 5), Some(vals[5])));
            alive += 1;
        }
    }
    (ops, alive)
}

/// run one op list on a fresh real system + the model; returns true if everything agreed
fn run_case(ctx: &mut Ctx, m: &mut Model, stream: &str, mode: Mode, max: usize, ops: &[Op], tss: &[u64], record: bool) -> (bool, bool) {
    let auto = mode == Mode::Auto || mode == Mode::AutoRet;
    let mut sys = Sys::new_with(max, auto);
    m.ask("reset");
    m.ask(&format!("setmax {max}"));
    let mut agreed = true;
    let mut violated = false;
    let mut oracle: BTreeMap<u64, Image> = BTreeMap::new();
    // per checkpoint number: EVERY storage key (with a digest of its fields) when it was taken, and
    // the checkpoints that were listed then (their blobs are part of its snapshot)
    let mut full_at: BTreeMap<u64, BTreeMap<String, u64>> = BTreeMap::new();
    let mut listed_at: BTreeMap<u64, Vec<u64>> = BTreeMap::new();
    // after the first model / implementation disagreement the case goes on REAL-ONLY: the model is
    // no longer consulted, the real system is still driven and every oracle still evaluated
    let mut model_on = true;
    let mut trace: Vec<String> = vec![];
    let mut ck_i = 0usize;
    let mut state_changes = 0;
    let mut ok_results = 0;
    let mut after_rollback = false;
    for op in ops {
        if record {
            ctx.rep.hit(&format!("op:{}", op.tag()));
        }
        let (imp, model_line) = match op {
            Op::Ckpt(name) | Op::CkptReal(name) => {
                // `real`: the CHECKPOINT statement = CheckpointManager::create (wall clock); otherwise
                // CheckpointStorage::store + RetentionManager::enforce under the harness clock
                let real = matches!(op, Op::CkptReal(_)) || mode == Mode::Router || mode == Mode::Auto;
                // the harness-side snapshot oracle: the real image at checkpoint time
                let before = sys.image();
                let before_full = full_keys(sys.store());
                let td = sys.text_api_diffs(&before);
                ctx.rep.hit("text_api:checked_at_checkpoint");
                if !td.is_empty() {
                    violated = true;
                    ctx.violation(
                        "query_router.text_api/answer_differs_from_engine",
                        &format!("at CHECKPOINT the router text statements answer differently from the engines: {}", td.join(" ; ")),
                        json!({"stream": stream, "ops": trace.clone()}),
                    );
                }
                let live_before = sys.live_ids();
                let ts = tss.get(ck_i).copied().unwrap_or(1000 + ck_i as u64);
                ck_i += 1;
                let name = name.unwrap_or(NAME0 + sys.next_ck);
                let (n, ans) = if real { sys.checkpoint_router(name, ts) } else { sys.checkpoint_manager(name, ts) };
                if real && live_before.len() >= max {
                    ctx.rep.hit("create:at_retention_limit");
                }
                oracle.insert(n, before);
                full_at.insert(n, before_full);
                listed_at.insert(n, live_before.clone());
                let live_after = sys.live_ids();
                // the by_tag order is a hash-set order: reconstruct one consistent with what was kept
                let kept: Vec<u64> = live_after.clone();
                let mut ord = kept.clone();
                for i in live_before.iter().chain(std::iter::once(&n)) {
                    if !ord.contains(i) {
                        ord.push(*i);
                    }
                }
                // retention oracle (creation order = model id order; timestamps never decrease)
                let total: Vec<u64> = {
                    let mut t = live_before.clone();
                    t.push(n);
                    t
                };
                let dropped: Vec<u64> = total.iter().copied().filter(|i| !kept.contains(i)).collect();
                if ans.starts_with("id") {
                    let want = total.len().min(max);
                    if kept.len() != want {
                        violated = true;
                        ctx.violation(
                            "tensor_checkpoint.retention/wrong_count",
                            &format!("{} checkpoints kept, expected min(count, max) = {want}", kept.len()),
                            json!({"stream": stream, "max": max, "ops": trace.clone(), "ts": tss, "kept": kept, "before": total}),
                        );
                    }
                    if let (Some(dmax), Some(kmin)) = (dropped.iter().max(), kept.iter().min()) {
                        if dmax > kmin {
                            violated = true;
                            ctx.violation(
                                "tensor_checkpoint.retention/newer_dropped_on_timestamp_tie",
                                &format!("retention kept checkpoint c{kmin} and deleted the later-created c{dmax} (equal created_at seconds; list order of ties is the blob tag scan's hash order)"),
                                json!({"stream": stream, "max": max, "ops": trace.clone(), "ts": tss, "kept": kept, "dropped": dropped}),
                            );
                        }
                    }
                    for k in &kept {
                        if !sys.loadable(*k) {
                            violated = true;
                            ctx.violation(
                                "tensor_checkpoint.retention/retained_not_loadable",
                                &format!("retained checkpoint c{k} cannot be loaded"),
                                json!({"stream": stream, "max": max, "ops": trace.clone(), "ts": tss}),
                            );
                        }
                    }
                }
                let ts = sys.ck_meta.get(&n).map_or(ts, |m| m.1);
                (ans, format!("ckpt {ts} {} {name}", nats(&ord)))
            }
            Op::CkDel(code) => {
                let live_before = sys.live_ids();
                let exp = match sys.expected_target(*code, &live_before) {
                    Ok(e) => e,
                    Err(()) => {
                        ctx.rep.hit("ambiguous_target_skipped");
                        continue;
                    }
                };
                let img_before = sys.image();
                let ans = sys.ckdel(*code);
                let live_after = sys.live_ids();
                let want: Vec<u64> = live_before.iter().copied().filter(|i| Some(*i) != exp).collect();
                let ok_expected = exp.is_some();
                // a delete by the id of a LISTED checkpoint must unlist that very checkpoint: when
                // instead exactly one other checkpoint, NAMED with that id string, is gone and the
                // target is still listed, the id was shadowed by the name on the delete path
                // (repaired by /repo 14af22de) — its own narrow class
                let shadowers = sys.named_with_id_of(*code, &live_before);
                let removed: Vec<u64> = live_before.iter().copied().filter(|i| !live_after.contains(i)).collect();
                let mut shadowed = false;
                if live_before.contains(code) && !shadowers.is_empty() {
                    // the id pass of find_by_id_or_name is the only thing that makes this delete reach `code`
                    ctx.rep.hit("ckdel:listed_id_also_a_name");
                    if ans == "ok" && removed.len() == 1 && shadowers.contains(&removed[0]) && live_after.contains(code) {
                        shadowed = true;
                        violated = true;
                        ctx.violation(
                            DELETE_SHADOW_CLASS,
                            &format!("checkpoint number {code} is listed, but CheckpointManager::delete(<its id>) unlisted checkpoint number {}, whose NAME is that id string, and left checkpoint number {code} listed (delete must resolve its target like rollback: the id match wins over a name match)", removed[0]),
                            json!({"stream": stream, "ops": trace.clone(), "op": op.line(), "target": code, "expected": code, "removed": removed[0],
                                   "listed_before": live_before, "listed_after": live_after, "ts": tss, "max": max}),
                        );
                    }
                }
                let data_changed = sys.image() != img_before;
                if (!shadowed && ((ans == "ok") != ok_expected || live_after != want)) || data_changed {
                    violated = true;
                    ctx.violation(
                        "tensor_checkpoint.delete/wrong_checkpoint_deleted",
                        &format!("delete of target code {code} answered {ans}; listed before {live_before:?}, after {live_after:?}, expected to remove {exp:?} only (the listed checkpoint with that id, else the newest listed one with that name) and leave the data untouched (data changed: {data_changed})"),
                        json!({"stream": stream, "ops": trace.clone(), "target": code}),
                    );
                }
                for k in &live_after {
                    if !sys.loadable(*k) {
                        violated = true;
                        ctx.violation(
                            "tensor_checkpoint.delete/retained_not_loadable",
                            &format!("checkpoint c{k} is listed after a delete of another one but cannot be loaded"),
                            json!({"stream": stream, "ops": trace.clone(), "target": code}),
                        );
                    }
                }
                (ans, op.line())
            }
            Op::CkTop(n) => {
                let live_before = sys.live_ids();
                match sys.cktop(*n) {
                    Ok(ids) => {
                        let ts_of = |i: &u64| sys.ck_meta.get(i).map(|m| m.1).unwrap_or(0);
                        let shown_min = ids.iter().map(ts_of).min();
                        let hidden_max = live_before.iter().filter(|i| !ids.contains(i)).map(ts_of).max();
                        let sorted = ids.windows(2).all(|w| ts_of(&w[0]) >= ts_of(&w[1]));
                        let mut uniq = ids.clone();
                        uniq.sort_unstable();
                        uniq.dedup();
                        let bad_count = ids.len() != live_before.len().min(*n as usize) || uniq.len() != ids.len();
                        let bad_member = ids.iter().any(|i| !live_before.contains(i));
                        let bad_order = !sorted || matches!((shown_min, hidden_max), (Some(a), Some(b)) if b > a);
                        if bad_count || bad_member || bad_order {
                            violated = true;
                            ctx.violation(
                                "tensor_checkpoint.list/limit_not_newest",
                                &format!("CHECKPOINTS LIMIT {n} answered {ids:?} with {live_before:?} listed (count / membership / newest-first order wrong)"),
                                json!({"stream": stream, "ops": trace.clone(), "limit": n, "ts": tss}),
                            );
                        }
                        (nats(&ids), format!("cktop {n} {}", nats(&ids)))
                    }
                    Err(e) => (format!("err other:{}", vname(&e)), format!("cktop {n} -")),
                }
            }
            Op::TDel(..) | Op::TNodeDel(_) | Op::TEmbDel(_) => {
                // the image BEFORE the destructive statement is what its auto-checkpoint must hold
                let before = sys.image();
                let before_full = full_keys(sys.store());
                let live_before = sys.live_ids();
                let listed_before = sys.listing();
                let known: BTreeSet<String> = sys.ck_real.values().cloned().collect();
                let expect_auto = match op {
                    Op::TDel(t, k) => before
                        .tables
                        .iter()
                        .find(|x| x.0 == *t)
                        .and_then(|x| x.1.strip_prefix("ok:"))
                        .is_some_and(|rows| rows.split(',').any(|r| r.split('.').nth(1) == Some(&k.to_string()))),
                    _ => true,
                } && auto;
                let (name, name_s) = match op {
                    Op::TDel(..) => (AUTO_DELETE, "auto-before-delete"),
                    Op::TNodeDel(_) => (AUTO_NODE_DELETE, "auto-before-node-delete"),
                    _ => (AUTO_EMBED_DELETE, "auto-before-embed-delete"),
                };
                let at_limit = live_before.len() >= max;
                if expect_auto && at_limit {
                    // create_auto with the listing already at max_checkpoints: retention must evict
                    ctx.rep.hit("auto_checkpoint:at_retention_limit");
                }
                let t_before = wall_secs();
                let (ans, why) = sys.text_destructive(op);
                if !why.is_empty() {
                    // the refusal reason as the message words it: a coverage statistic, never compared
                    ctx.rep.hit(&format!("text_destructive:refused_{why}"));
                }
                let listed_after = sys.listing();
                let fresh: Vec<(String, String, u64)> =
                    listed_after.iter().filter(|c| !known.contains(&c.0)).cloned().collect();
                // At the limit, an auto-checkpoint whose created_at second ties with EVERY listed one
                // can be evicted by its own retention pass at once (known finding
                // newer_dropped_on_timestamp_tie): then nothing in the listing tells that it was made.
                // Only in exactly that state (limit reached, listing unchanged, every listed
                // created_at not older than the clock read before the statement) is a missing
                // auto-checkpoint not reported; the model is told it was made and dropped.
                let ids_of = |l: &[(String, String, u64)]| l.iter().map(|c| c.0.clone()).collect::<BTreeSet<String>>();
                let evicted_at_once = expect_auto
                    && fresh.is_empty()
                    && at_limit
                    && ids_of(&listed_before) == ids_of(&listed_after)
                    && listed_after.iter().all(|c| c.2 >= t_before);
                if evicted_at_once {
                    ctx.rep.hit("auto_checkpoint:evicted_at_once_on_tie");
                } else if fresh.len() != usize::from(expect_auto) || fresh.iter().any(|c| c.1 != name_s) {
                    violated = true;
                    ctx.violation(
                        "query_router.auto_checkpoint/missing_or_unexpected",
                        &format!("statement {op:?}: auto-checkpoints created {fresh:?}, expected {} named {name_s}", usize::from(expect_auto)),
                        json!({"stream": stream, "max": max, "ops": trace.clone(), "op": format!("{op:?}"), "ts": tss}),
                    );
                }
                let made: Option<(Option<String>, u64)> = if let Some(c) = fresh.first() {
                    Some((Some(c.0.clone()), c.2))
                } else if evicted_at_once {
                    Some((None, listed_after.iter().map(|c| c.2).max().unwrap_or(t_before)))
                } else {
                    None
                };
                if let Some((real_id, ts_new)) = made {
                    // the model takes it through `create_auto` (`ackpt`: store, then enforce)
                    let n = sys.next_ck;
                    sys.next_ck += 1;
                    if let Some(id) = real_id {
                        sys.ck_real.insert(n, id);
                    }
                    sys.ck_meta.insert(n, (name, ts_new));
                    oracle.insert(n, before);
                    full_at.insert(n, before_full);
                    listed_at.insert(n, live_before.clone());
                    ck_i += 1;
                    let live_after = sys.live_ids();
                    // retention as create_auto applies it, on the real listing: exactly
                    // min(listed before + 1, max) listed, nothing dropped that is newer than
                    // something kept, every retained checkpoint loadable
                    if retention_after_create(ctx, &sys, stream, SITE_CREATE_AUTO, max, &live_before, n, &live_after, &trace, tss, &format!("{op:?}")) {
                        violated = true;
                    }
                    if at_limit && live_after.contains(&n) && live_after.len() == max {
                        ctx.rep.hit("auto_checkpoint:evicted_one_at_limit");
                    }
                    let mut ord = live_after.clone();
                    for i in live_before.iter().chain(std::iter::once(&n)) {
                        if !ord.contains(i) {
                            ord.push(*i);
                        }
                    }
                    let ck_line = format!("ackpt {ts_new} {} {name}", nats(&ord));
                    trace.push(ck_line.clone());
                    if model_on {
                        let mo = m.ask(&ck_line);
                        let tr = trace.clone();
                        if !ctx.rep.compare(stream, || json!({"ops": tr, "max": max, "what": "auto-checkpoint"}), &format!("id {n}"), &mo) {
                            agreed = false;
                            model_on = false;
                        }
                    }
                    ctx.rep.hit("auto_checkpoint:created");
                }
                (ans, op.line())
            }
            Op::CkAll => {
                let live_before = sys.live_ids();
                match sys.list_all() {
                    Ok(all) => {
                        let rev: HashMap<&String, u64> = sys.ck_real.iter().map(|(k, v)| (v, *k)).collect();
                        let ids: Vec<u64> = all.iter().filter_map(|c| rev.get(&c.0).copied()).collect();
                        let mut sorted_ids = ids.clone();
                        sorted_ids.sort_unstable();
                        sorted_ids.dedup();
                        let unknown = all.len() - ids.len();
                        let newest_first = all.windows(2).all(|w| w[0].2 >= w[1].2);
                        let not_loadable: Vec<u64> = ids.iter().copied().filter(|k| !sys.loadable(*k)).collect();
                        // the CHECKPOINTS statement without LIMIT: the first min(10, n) of the listing
                        let shown = sys.cktop_default();
                        let shown_bad = match &shown {
                            Ok(l) => l.len() != all.len().min(10) || l.iter().any(|i| !ids.contains(i)),
                            Err(_) => true,
                        };
                        if unknown > 0 || sorted_ids != live_before || sorted_ids.len() != ids.len() || !newest_first || !not_loadable.is_empty() || shown_bad {
                            violated = true;
                            ctx.violation(
                                "tensor_checkpoint.manager_list/full_listing_wrong",
                                &format!("CheckpointManager::list(None) answered {:?} (checkpoint numbers {ids:?}, {unknown} unknown) with {live_before:?} stored: every stored checkpoint once, newest first, each loadable (not loadable: {not_loadable:?}); CHECKPOINTS without LIMIT answered {shown:?}", all.iter().map(|c| (&c.1, c.2)).collect::<Vec<_>>()),
                                json!({"stream": stream, "max": max, "ops": trace.clone(), "ts": tss}),
                            );
                        }
                        if all.len() == max {
                            ctx.rep.hit("ckall:at_retention_limit");
                        }
                        (nats(&ids), format!("ckall {}", nats(&ids)))
                    }
                    Err(e) => (format!("err other:{}", vname(&e)), "ckall -".into()),
                }
            }
            Op::Rollback(code) => {
                let live_before = sys.live_ids();
                let exp = match sys.expected_target(*code, &live_before) {
                    Ok(e) => e,
                    Err(()) => {
                        ctx.rep.hit("ambiguous_target_skipped");
                        continue;
                    }
                };
                let n = &exp.unwrap_or(u64::MAX);
                let ans = sys.rollback(*code);
                if (ans == "ok") != exp.is_some() {
                    violated = true;
                    ctx.violation(
                        "query_router.rollback/target_resolution",
                        &format!("ROLLBACK TO target code {code} answered {ans} while the listed checkpoint with that id, else the newest listed one with that name, is {exp:?} (listed: {live_before:?})"),
                        json!({"stream": stream, "ops": trace.clone(), "target": code}),
                    );
                }
                if ans == "ok" {
                    let shadowers = sys.named_with_id_of(*code, &live_before);
                    if let Some(e) = exp {
                        if e == *code && !shadowers.is_empty() {
                            // the guard of fff752bd is the only thing that makes this target reach `code`
                            ctx.rep.hit("rollback:listed_id_also_a_name");
                        } else if e != *code && *code < NAME0 {
                            ctx.rep.hit("rollback:unlisted_id_by_name");
                        } else if *code >= NAME0 && *code != NAME0 + e {
                            ctx.rep.hit("rollback:by_shared_or_foreign_name");
                        }
                    }
                    after_rollback = true;
                    let now = sys.image();
                    let now_full = full_keys(sys.store());
                    let td = sys.text_api_diffs(&now);
                    ctx.rep.hit("text_api:checked_after_rollback");
                    if !td.is_empty() {
                        violated = true;
                        ctx.violation(
                            "query_router.text_api/answer_differs_from_engine",
                            &format!("after ROLLBACK the router text statements answer differently from the engines: {}", td.join(" ; ")),
                            json!({"stream": stream, "ops": trace.clone(), "target": code}),
                        );
                    }
                    // WHICH checkpoint came back, told by the part of the image a rollback restores
                    // exactly.  A listed id must restore that very checkpoint: when instead the image
                    // of a listed checkpoint NAMED with the id string is back, the id was shadowed by
                    // the name (repaired by /repo fff752bd) — its own narrow class.
                    let shadow: Option<u64> = match (exp, oracle.get(n)) {
                        (Some(e), Some(then)) if e == *code && then.kv() != now.kv() => {
                            shadowers.iter().copied().find(|j| oracle.get(j).is_some_and(|img| img.kv() == now.kv()))
                        }
                        _ => None,
                    };
                    if let Some(j) = shadow {
                        violated = true;
                        ctx.violation(
                            SHADOW_CLASS,
                            &format!("checkpoint number {code} is listed, but ROLLBACK TO <its id> restored checkpoint number {j}, whose NAME is that id string (find_by_id_or_name must prefer the id match over a name match): a retained checkpoint cannot be reached by its id"),
                            json!({"stream": stream, "ops": trace.clone(), "op": op.line(), "target": code, "expected": code, "restored": j, "ts": tss, "max": max,
                                   "image_of_target": oracle.get(n).map(|i| i.line()), "image_after_rollback": now.line()}),
                        );
                    }
                    // the image of a DIFFERENT checkpoint came back: target resolution went wrong.
                    // Told by the exactly-restored part as well: the full images also differ by the
                    // known engine-side defects (a checkpoint taken after an earlier rollback to the
                    // same state carries them, the target's own image does not), which says nothing
                    // about WHICH checkpoint was loaded.
                    let other: Option<u64> = match oracle.get(n) {
                        Some(then) if then.kv() != now.kv() && shadow.is_none() => {
                            oracle.iter().find(|(i, img)| *i != n && img.kv() == now.kv()).map(|p| *p.0)
                        }
                        _ => None,
                    };
                    if let Some(o) = other {
                        violated = true;
                        ctx.violation(
                            "query_router.rollback/wrong_checkpoint_restored",
                            &format!("ROLLBACK TO target code {code} must restore checkpoint number {n} (the listed one with that id, else the newest listed one with that name) but the database now equals the image of checkpoint number {o}"),
                            json!({"stream": stream, "ops": trace.clone(), "target": code, "expected": n, "restored": o}),
                        );
                    }
                    // what the rollback did to the image is judged against the checkpoint that
                    // actually came back (the shadow class above already says it was the wrong one)
                    let n = &shadow.unwrap_or(*n);
                    if let Some(then) = oracle.get(n) {
                        for (class, what) in diff_images(then, &now) {
                            violated = true;
                            ctx.violation(
                                &class,
                                &what,
                                json!({"stream": stream, "ops": trace.clone(), "rollback_to": n,
                                       "image_at_checkpoint": then.line(), "image_after_rollback": now.line()}),
                            );
                        }
                    }
                    // the FULL key set: every storage key that existed when the checkpoint was taken —
                    // internal `_` keys (schemas, indexes, the blob records and chunks of the checkpoints
                    // retained then), `node:` / `edge:` / `emb:`, every raw family — is there again with
                    // the same fields, and no other key is
                    if let Some(then_full) = full_at.get(n) {
                        ctx.rep.hit("rollback:full_key_set_compared");
                        if then_full.keys().any(|k| k.starts_with("_blob:")) {
                            ctx.rep.hit("rollback:full_key_set_with_older_checkpoint_blobs");
                        }
                        for (class, what) in diff_full_keys(then_full, &now_full) {
                            violated = true;
                            ctx.violation(
                                &class,
                                &what,
                                json!({"stream": stream, "max": max, "ts": tss, "ops": trace.clone(), "op": op.line(), "rollback_to": n,
                                       "keys_at_checkpoint": then_full.keys().collect::<Vec<_>>(), "keys_after_rollback": now_full.keys().collect::<Vec<_>>()}),
                            );
                        }
                    }
                    let live_after = sys.live_ids();
                    // a checkpoint that was listed when the target was taken is IN the target's snapshot:
                    // if it was still listed before the rollback it must be listed after it (what the
                    // rollback cannot keep — the known finding — is the target itself and everything
                    // made after it), and every checkpoint listed afterwards must load
                    let in_snapshot: Vec<u64> = listed_at.get(n).cloned().unwrap_or_default();
                    let older_lost: Vec<u64> = live_before.iter().copied().filter(|i| in_snapshot.contains(i) && !live_after.contains(i)).collect();
                    if live_before.iter().any(|i| in_snapshot.contains(i)) {
                        ctx.rep.hit("rollback:older_checkpoint_in_snapshot");
                    }
                    if !older_lost.is_empty() {
                        violated = true;
                        ctx.violation(
                            OLDER_LOST_CLASS,
                            &format!("checkpoints {older_lost:?} were listed when checkpoint number {n} was taken (their blobs are part of its snapshot) and still listed before ROLLBACK TO it; after the rollback they are gone: a retained checkpoint can no longer be rolled back to"),
                            json!({"stream": stream, "max": max, "ts": tss, "ops": trace.clone(), "op": op.line(), "rollback_to": n, "listed_when_taken": in_snapshot, "listed_before": live_before, "listed_after": live_after}),
                        );
                    }
                    for k in &live_after {
                        if !sys.loadable(*k) {
                            violated = true;
                            ctx.violation(
                                NOT_LOADABLE_AFTER_ROLLBACK_CLASS,
                                &format!("checkpoint number {k} is listed after ROLLBACK TO checkpoint number {n} but cannot be loaded"),
                                json!({"stream": stream, "max": max, "ts": tss, "ops": trace.clone(), "op": op.line(), "rollback_to": n, "listed_after": live_after}),
                            );
                        }
                    }
                    let lost: Vec<u64> = live_before.iter().copied().filter(|i| !live_after.contains(i) && !older_lost.contains(i)).collect();
                    if !lost.is_empty() {
                        violated = true;
                        ctx.violation(
                            "query_router.rollback/checkpoints_lost_after_rollback",
                            &format!("checkpoints {lost:?} were listed before ROLLBACK TO checkpoint number {n} and are gone after it (the checkpoint blobs live in the store that is wiped and restored; the checkpoint itself and everything newer are not in its own snapshot)"),
                            json!({"stream": stream, "ops": trace.clone(), "rollback_to": n, "listed_before": live_before, "listed_after": live_after}),
                        );
                    }
                } else if live_before.contains(code) {
                    violated = true;
                    ctx.violation(
                        "query_router.rollback/retained_checkpoint_not_restorable",
                        &format!("checkpoint number {code} is listed but ROLLBACK TO its id fails: {ans}"),
                        json!({"stream": stream, "ops": trace.clone(), "rollback_to": code}),
                    );
                }
                (ans, op.line())
            }
            _ => {
                let listed_before = if let Op::RIns(t, ..) = op {
                    sys.router.relational().list_tables().contains(&Sys::tname(*t))
                } else {
                    false
                };
                let ans = sys.apply(op);
                if listed_before && ans == "err storage" {
                    // a table the engine lists rejects writes
                    violated = true;
                    ctx.violation(
                        "query_router.rollback/writes_fail_after_rollback",
                        "INSERT into a table that list_tables reports fails with a storage error (schema key restored, slab table gone)",
                        json!({"stream": stream, "ops": trace.clone(), "op": op.line(), "after_rollback": after_rollback}),
                    );
                }
                (ans, op.line())
            }
        };
        if imp.starts_with("ok") || imp.starts_with("id") || imp.starts_with("count") {
            ok_results += 1;
            if !matches!(op, Op::VBuild) {
                state_changes += 1;
            }
        }
        if record {
            let tagw: Vec<&str> = imp.split(|c| c == ' ' || c == ':').collect();
            let tag = if matches!(op, Op::CkTop(_)) && tagw[0] != "err" {
                "list".to_string()
            } else if tagw[0] == "err" {
                format!("err {}", tagw.get(1).unwrap_or(&""))
            } else {
                tagw[0].to_string()
            };
            ctx.rep.hit(&format!("res:{tag}"));
        }
        trace.push(model_line.clone());
        // the retention bound on the FULL listing (`CheckpointManager::list(None)`, not the 10 the
        // CHECKPOINTS statement shows), after EVERY statement: never more than max_checkpoints
        match sys.list_all() {
            Ok(all) => {
                if all.len() > max {
                    let site = match op {
                        Op::TDel(..) | Op::TNodeDel(_) | Op::TEmbDel(_) => SITE_CREATE_AUTO,
                        Op::CkptReal(_) => SITE_CREATE,
                        Op::Ckpt(_) if mode == Mode::Router || mode == Mode::Auto => SITE_CREATE,
                        Op::Ckpt(_) => SITE_RETENTION,
                        Op::Rollback(_) => "query_router.rollback",
                        Op::CkDel(_) => "tensor_checkpoint.manager_delete",
                        _ => "tensor_checkpoint.listing",
                    };
                    violated = true;
                    ctx.violation(
                        &format!("{site}/more_listed_than_max"),
                        &format!("after statement {op:?} CheckpointManager::list(None) shows {} checkpoints, max_checkpoints is {max}: {:?} (name, created_at; newest first) — retention keeps the newest checkpoints UP TO the configured count", all.len(), all.iter().map(|c| (&c.1, c.2)).collect::<Vec<_>>()),
                        json!({"stream": stream, "max": max, "ops": trace.clone(), "statement": format!("{op:?}"), "ts": tss, "listed": all.len()}),
                    );
                }
            }
            Err(e) => {
                violated = true;
                ctx.violation("tensor_checkpoint.manager_list/failed", &format!("CheckpointManager::list(None) failed: {e}"), json!({"stream": stream, "ops": trace.clone()}));
            }
        }
        if !model_on {
            continue;
        }
        let mo = m.ask(&model_line);
        // a refused text DELETE / NODE DELETE / EMBED DELETE is compared as ONE token (see `text_destructive`)
        let mo = if matches!(op, Op::TDel(..) | Op::TNodeDel(_) | Op::TEmbDel(_)) && (mo == "err notfound" || mo == "err storage") { TEXT_REFUSED.to_string() } else { mo };
        let tr = trace.clone();
        if !ctx.rep.compare(stream, || json!({"ops": tr, "max": max}), &imp, &mo) {
            agreed = false;
        }
        // full image after every statement
        let img = sys.image().line();
        let mimg = m.ask(&obs_line());
        let tr = trace.clone();
        if !ctx.rep.compare(stream, || json!({"ops": tr, "max": max, "what": "image"}), &img, &mimg) {
            agreed = false;
        }
        let ck = nats(&sys.live_ids());
        let mck = m.ask("cklist");
        let tr = trace.clone();
        if !ctx.rep.compare(stream, || json!({"ops": tr, "max": max, "what": "cklist"}), &ck, &mck) {
            agreed = false;
        }
        if !agreed {
            // real-only from here on (BUILDING.md: the continuation is what turns a broken
            // correspondence into a concrete failing input)
            model_on = false;
            if record {
                ctx.rep.hit("case:continued_real_only_after_disagreement");
            }
        }
    }
    if record {
        let key = trace.join(";");
        let nontrivial = ok_results >= 1 && state_changes >= 1;
        ctx.rep.case(stream, if nontrivial { Some(&key) } else { None });
        if mode == Mode::Router && ck_i >= 4 {
            let sizes: Vec<(u64, usize)> = sys.live();
            ctx.rep.observe(json!({"what": "checkpoint blob sizes (newest first): every checkpoint contains all earlier live checkpoint blobs because the blob store shares the snapshotted store", "sizes": sizes}));
        }
    }
    (agreed, violated)
}

fn stream_router(ctx: &mut Ctx, m: &mut Model, rng: &Rng, cases: usize, mode: Mode, name: &str) {
    let mut r = rng.fork(name);
    for _ in 0..cases {
        let max = if mode != Mode::Manager { 10 } else { 1 + r.below(4) as usize };
        let len = 12 + r.below(30) as usize;
        let mut g = Gen { tables: 3, nodes_hi: 0, edges_hi: 0 };
        let mut ops = vec![];
        let mut n_ck = 0u64;
        let mut n_auto = 0u64;
        let raw_mix = r.chance(1, 3);
        let chunk = if r.chance(1, 4) { [96usize, 512][r.below(2) as usize] } else { 0 };
        BLOB_CHUNK.store(chunk, std::sync::atomic::Ordering::Relaxed);
        ctx.rep.hit(if chunk == 0 { "blob_chunk:default" } else { "blob_chunk:small_shared" });
        for _ in 0..len {
            let mut op = gen_op(&mut r, &mut g, n_ck, raw_mix, mode);
            if mode == Mode::Auto && r.chance(2, 3) {
                // the destructive statements go through the router text API (auto-checkpoint first)
                op = match op {
                    Op::RDel(t, k) => Op::TDel(t, k),
                    Op::GDelN(i) => Op::TNodeDel(i),
                    Op::VDel(k) => Op::TEmbDel(k),
                    o => o,
                };
            }
            if matches!(op, Op::TDel(..) | Op::TNodeDel(_) | Op::TEmbDel(_)) {
                // each may add one auto-checkpoint: stay below max_checkpoints = 10 in total
                if n_auto >= 5 {
                    continue;
                }
                n_auto += 1;
                n_ck += 1;
            }
            if matches!(op, Op::Ckpt(_)) {
                if mode == Mode::Auto && n_ck - n_auto >= 3 {
                    continue;
                }
                if mode == Mode::Router && n_ck >= 5 {
                    continue;
                }
                if mode == Mode::Manager && n_ck >= 7 {
                    continue;
                }
                n_ck += 1;
            }
            ops.push(op);
        }
        // the ingredients of the id-shadowed-by-a-name regressions (/repo fff752bd rollback path,
        // 14af22de delete path) need two cooperating statements that the per-statement generator
        // rarely brings together: in 1 case of 4 a checkpoint NAMED with the id of an earlier one is
        // put in after some checkpoint, and a delete / rollback by that very id somewhere after it
        if mode != Mode::Auto && r.chance(1, 4) {
            if let Some(first) = ops.iter().position(|o| matches!(o, Op::Ckpt(_))) {
                let p = first + 1 + r.below((ops.len() - first) as u64) as usize;
                let before = ops[..p].iter().filter(|o| matches!(o, Op::Ckpt(_))).count() as u64;
                let j = r.below(before);
                ops.insert(p, Op::Ckpt(Some(j)));
                n_ck += 1;
                let q = p + 1 + r.below((ops.len() - p) as u64) as usize;
                ops.insert(q, if r.chance(1, 2) { Op::CkDel(j) } else { Op::Rollback(j) });
                ctx.rep.hit("gen:shadow_pair_injected");
            }
        }
        // entity ids across a checkpoint: in 1 case of 3 the case starts with several `emb:` keys
        // holding slab-dimension vectors of DISTINCT contents (sometimes a vector-engine key among
        // them), one or two of the earlier-created ones deleted (sometimes re-created, which moves the
        // key to a fresh id), and a checkpoint; a rollback to it is put in a few statements later.
        // The per-statement generator (3 emb keys, 1 statement in 60) almost never builds this.
        if r.chance(1, 3) {
            let (pre, _) = gen_emb_prelude(&mut r);
            let plen = pre.len();
            let mut all = pre;
            all.push(Op::Ckpt(None));
            all.extend(ops.drain(..));
            ops = all;
            n_ck += 1;
            // the prelude's checkpoint is number 0 (created first); ROLLBACK TO its name or its id
            let rest = ops.len() - plen - 1;
            let q = plen + 1 + r.below(rest.min(8) as u64 + 1) as usize;
            ops.insert(q, if r.chance(1, 3) { Op::Rollback(0) } else { Op::Rollback(NAME0) });
            ctx.rep.hit("gen:emb_ids_prelude");
        }
        // harness clock: non-decreasing, ties with probability 1/3 (manager mode only matters)
        let mut tss = vec![];
        let mut t = 100u64;
        for _ in 0..n_ck {
            if !r.chance(1, 3) {
                t += 1 + r.below(3);
            }
            tss.push(t);
        }
        let (agreed, _v) = run_case(ctx, m, name, mode, max, &ops, &tss, true);
        if !agreed {
            ctx.rep.note(&format!("{name}: the disagreeing case ran with blob chunk size {chunk} (0 = default)"));
            // shrink the op list for the replay file
            let mut scratch = Ctx { rep: Report::new(""), per_class: BTreeMap::new() };
            let small = shrink_list(&ops, &mut |cand: &[Op]| {
                let (a, _) = run_case(&mut scratch, m, name, mode, max, cand, &tss, false);
                !a
            });
            ctx.rep.note(&format!(
                "{name}: shrunk disagreement: {}",
                small.iter().map(|o| o.line()).collect::<Vec<_>>().join("; ")
            ));
        }
    }
    BLOB_CHUNK.store(0, std::sync::atomic::Ordering::Relaxed);
}

/// violation classes that say "retention did not hold the listing to max_checkpoints"
fn is_bound_class(c: &str) -> bool {
    c.ends_with("/more_listed_than_max") || c.ends_with("/wrong_count")
}

/// Auto-checkpoints (and real CHECKPOINT statements) AT the retention limit.  Phase A fills the
/// listing to about `max_checkpoints` with harness-clock checkpoints among data statements; phase B
/// sends destructive statements through the router text API (`create_auto`, wall clock) and real
/// `CHECKPOINT` statements (`create`, wall clock), with data statements, rollbacks, deletes,
/// `CHECKPOINTS LIMIT n` and the full listing in between.  While no more wall-clock checkpoints are
/// made than `max` (3 cases in 4) every eviction takes a strictly older harness-clock checkpoint, so
/// the outcome is fully determined; beyond that created_at ties decide (count and loadability stay
/// fixed, the model follows the observed tie order).
fn stream_autoret(ctx: &mut Ctx, m: &mut Model, rng: &Rng, cases: usize) {
    let name = "autoret";
    let mut r = rng.fork(name);
    for _ in 0..cases {
        let max = if r.chance(1, 10) { 10 } else { 1 + r.below(4) as usize };
        let fill = match r.below(6) {
            0 => max.saturating_sub(1),
            1 => max + 1,
            _ => max,
        };
        let mut g = Gen { tables: 3, nodes_hi: 0, edges_hi: 0 };
        let raw_mix = r.chance(1, 3);
        let mut ops: Vec<Op> = vec![];
        let mut n_ck = 0u64;
        // phase A
        let len_a = fill + 3 + r.below(8) as usize;
        let mut left = fill;
        for i in 0..len_a {
            if left > 0 && r.chance(left as u64, (len_a - i) as u64) {
                ops.push(Op::Ckpt(None));
                left -= 1;
                n_ck += 1;
                continue;
            }
            for _ in 0..8 {
                let op = gen_op(&mut r, &mut g, n_ck, raw_mix, Mode::AutoRet);
                if matches!(op, Op::Ckpt(_)) || (matches!(op, Op::Rollback(_)) && r.chance(1, 2)) {
                    continue;
                }
                ops.push(op);
                break;
            }
        }
        // phase B
        let wall_budget = if r.chance(3, 4) { max } else { max + 3 };
        let mut wall = 0usize;
        let len_b = 5 + r.below(14) as usize;
        for _ in 0..len_b {
            let mut op = if r.chance(1, 4) {
                match r.below(3) {
                    0 => Op::TNodeDel(1 + r.below(g.nodes_hi.max(1) + 1)),
                    1 => Op::TEmbDel(r.below(5)),
                    _ => Op::TDel(r.below(g.tables), r.below(4) as i64),
                }
            } else if r.chance(1, 10) {
                Op::CkAll
            } else {
                gen_op(&mut r, &mut g, n_ck, raw_mix, Mode::AutoRet)
            };
            if r.chance(3, 4) {
                op = match op {
                    Op::RDel(t, k) => Op::TDel(t, k),
                    Op::GDelN(i) => Op::TNodeDel(i),
                    Op::VDel(k) => Op::TEmbDel(k),
                    o => o,
                };
            }
            if let Op::Ckpt(nm) = op {
                op = Op::CkptReal(nm);
            }
            if matches!(op, Op::TDel(..) | Op::TNodeDel(_) | Op::TEmbDel(_) | Op::CkptReal(_)) {
                if wall >= wall_budget {
                    continue;
                }
                wall += 1;
                n_ck += 1;
            }
            ops.push(op);
        }
        ctx.rep.hit(if wall_budget <= max { "autoret:no_tie_needed" } else { "autoret:tie_regime" });
        let mut tss = vec![];
        let mut t = 100u64;
        for _ in 0..n_ck {
            if !r.chance(1, 3) {
                t += 1 + r.below(3);
            }
            tss.push(t);
        }
        let before: BTreeSet<String> = ctx.per_class.keys().filter(|c| is_bound_class(c)).cloned().collect();
        let (agreed, violated) = run_case(ctx, m, name, Mode::AutoRet, max, &ops, &tss, true);
        let fresh_class: Option<String> = ctx.per_class.keys().find(|c| is_bound_class(c) && !before.contains(*c)).cloned();
        if let (true, Some(class)) = (violated, fresh_class) {
            // shrink to the fewest statements that still break the bound in that class
            let small = shrink_list(&ops, &mut |cand: &[Op]| {
                let mut scratch = Ctx { rep: Report::new(""), per_class: BTreeMap::new() };
                run_case(&mut scratch, m, name, Mode::AutoRet, max, cand, &tss, false);
                scratch.per_class.contains_key(&class)
            });
            let lines: Vec<String> = small.iter().map(|o| format!("{o:?}")).collect();
            ctx.rep.note(&format!("{name}: {class} shrunk (max {max}): {}", lines.join("; ")));
            ctx.rep.violation(&class, "the same class on the shrunk statement list", json!({"stream": name, "max": max, "statements": lines, "ts": tss}));
        } else if !agreed {
            let small = shrink_list(&ops, &mut |cand: &[Op]| {
                let mut scratch = Ctx { rep: Report::new(""), per_class: BTreeMap::new() };
                let (a, _) = run_case(&mut scratch, m, name, Mode::AutoRet, max, cand, &tss, false);
                !a
            });
            ctx.rep.note(&format!("{name}: shrunk disagreement (max {max}): {}", small.iter().map(|o| format!("{o:?}")).collect::<Vec<_>>().join("; ")));
        }
    }
}

/// violation classes that say "the rollback did not bring back what the checkpoint held" (none of
/// them is a listed known finding): a fresh one in a seeded stream is shrunk to a minimal statement list
fn is_restore_class(c: &str) -> bool {
    [
        KEYS_LOST_CLASS,
        KEYS_LEFT_CLASS,
        VALUES_CHANGED_CLASS,
        OLDER_LOST_CLASS,
        NOT_LOADABLE_AFTER_ROLLBACK_CLASS,
        TABLE_UNLISTED_CLASS,
        "tensor_store.restore_from_bytes/keys_not_restored",
        "query_router.rollback/graph_state_not_restored",
        "query_router.rollback/vector_state_not_restored",
        "query_router.rollback/relational_state_not_restored",
        "query_router.rollback/retained_checkpoint_not_restorable",
        "query_router.rollback/wrong_checkpoint_restored",
    ]
    .contains(&c)
}

/// Directed, seed-independent (run FIRST): key families that share a shard of the metadata slab.
/// `MetadataSlab::restore` (on the rollback path: `restore_from_bytes` → `SlabRouter::from_bytes`)
/// re-distributes the snapshot's ONE sorted map over 16 shards chosen by the key's first byte; a
/// database whose keys are `_…`, `node:`, `edge:`, `emb:` and `plain:` only never has two different
/// first bytes in one shard, so nothing there tells whether the shards are built entry by entry or
/// wholesale.  The shortest histories in which that is the only thing keeping the rollback exact come
/// first — `user:` keys beside an edge and an embedding (shard 5); `order:` keys beside the internal
/// `_` keys, which include the blobs of an OLDER retained checkpoint (shard 15) — then their
/// neighbours: a family sorting BEFORE the engine's (`/path:` vs `_`, `Note:` vs `node:`) and after it
/// (`~tmp:`), table metadata, EVERY pair of the ten raw families (same shard and different shards,
/// several keys each, two checkpoints, rollback to the newer then to the older one), and every raw
/// family beside all engines at once.
fn stream_shard_directed(ctx: &mut Ctx, m: &mut Model) {
    const CK: Op = Op::Ckpt(None);
    let rb = |n: u64| Op::Rollback(NAME0 + n);
    let kp = |k: u64, x: i64| Op::KPut(0, k, x, None);
    let kd = |k: u64| Op::KDel(0, k);
    let v3 = |k: u64| Op::VPut(k, vec![1, 2, 3]);
    use Op::*;
    let mut cases: Vec<(String, Mode, Vec<Op>, Vec<u64>)> = vec![
        ("user_beside_edge_and_emb".into(), Mode::Router, vec![GNode(0), GNode(1), GEdge(1, 2), v3(0), kp(100, 1), kp(101, 2), CK, GDelE(1), GNode(2), kp(100, 5), rb(0), GEdge(1, 2), v3(1)], vec![]),
        ("order_beside_older_checkpoint".into(), Mode::Router, vec![GNode(0), kp(0, 1), CK, kp(200, 1), kp(201, 2), CK, kp(202, 3), kd(200), rb(1), CkTop(3), rb(0), kp(200, 7)], vec![]),
        ("order_beside_older_checkpoint_manager".into(), Mode::Manager, vec![GNode(0), kp(0, 1), CK, kp(200, 1), kp(201, 2), CK, kp(202, 3), kd(200), rb(1), CkTop(3), Rollback(0), kp(200, 7)], vec![5, 6]),
        ("order_beside_two_older_checkpoints".into(), Mode::Manager, vec![kp(0, 1), CK, kp(1, 1), CK, kp(200, 1), kp(201, 2), CK, kp(202, 3), rb(2), CkAll, rb(1), CkAll, rb(0)], vec![5, 6, 7]),
        ("path_before_internal_keys".into(), Mode::Router, vec![RCreate(0), kp(900, 1), kp(901, 2), CK, kp(902, 3), CK, kd(900), rb(1), rb(0)], vec![]),
        ("note_and_tmp_around_node".into(), Mode::Router, vec![GNode(0), GNode(1), GEdge(1, 2), kp(300, 1), kp(301, 1), kp(400, 1), kp(401, 2), CK, GDelN(1), kd(300), kd(400), rb(0), GNode(2)], vec![]),
        ("table_metadata_beside_order".into(), Mode::Router, vec![RCreate(0), RCreate(1), RHidx(0), kp(200, 1), kp(201, 1), CK, RDrop(1), kd(200), rb(0)], vec![]),
        ("product_beside_plain".into(), Mode::Router, vec![kp(0, 1), kp(1, 2), kp(500, 3), kp(501, 4), CK, kd(0), kd(500), kp(2, 1), rb(0)], vec![]),
        ("raw_emb_and_cache_beside_user".into(), Mode::Router, vec![KPut(2, 5, 1, Some(2)), KPut(2, 6, 2, None), KPut(1, 0, 4, None), kp(100, 1), kp(101, 1), CK, KDel(2, 5), kd(101), KPut(2, 7, 3, Some(1)), rb(0)], vec![]),
    ];
    // every pair of raw families, several keys each; two checkpoints; newer then older rollback
    for f in 0..FAMS.len() as u64 {
        for g in (f + 1)..FAMS.len() as u64 {
            let (a, b) = (f * 100, g * 100);
            cases.push((
                format!("pair_{}_{}", FAMS[f as usize].trim_end_matches(':'), FAMS[g as usize].trim_end_matches(':')),
                Mode::Manager,
                vec![kp(a, 1), kp(a + 1, 2), kp(b, 3), kp(b + 1, 4), kp(b + 2, 5), CK, kd(a), kp(b, 9), kp(a + 2, 6), CK, kd(b + 1), kp(a + 3, 7), rb(1), rb(0)],
                vec![5, 6],
            ));
        }
    }
    // every raw family beside every engine's families at once
    for f in 0..FAMS.len() as u64 {
        let a = f * 100;
        cases.push((
            format!("all_engines_beside_{}", FAMS[f as usize].trim_end_matches(':')),
            if f % 2 == 0 { Mode::Router } else { Mode::Manager },
            vec![GNode(0), GNode(1), GEdge(1, 2), v3(0), RCreate(0), RIns(0, 1, 1), KPut(2, 5, 1, Some(2)), KPut(1, 0, 4, None), kp(a, 1), kp(a + 1, 2), CK, kp(a + 2, 3), GNode(2), CK, GDelN(1), kd(a), VDel(0), rb(1), rb(0), GNode(0), kp(a + 5, 5)],
            if f % 2 == 0 { vec![] } else { vec![5, 6] },
        ));
    }
    for (name, mode, ops, tss) in cases {
        ctx.rep.hit("witness:shard_families");
        ctx.rep.hit(&format!("witness:shard:{name}"));
        run_case(ctx, m, "witness", mode, 10, &ops, &tss, true);
    }
}

/// Seeded: databases whose key ALPHABET makes families share a metadata shard.  Each case takes one
/// whole shard group of raw families (`FAM_GROUPS`: both families of a two-family shard, or a family
/// that shares its shard with an engine's keys) plus up to two more families, several keys per family,
/// a random subset of the engines beside them, 2–4 checkpoints with statements in between, and then
/// rolls back newest first — some targets twice, some by id, statements in between — so that every
/// rollback is followed by rollbacks to OLDER checkpoints that must still be there.
fn stream_families(ctx: &mut Ctx, m: &mut Model, rng: &Rng, cases: usize) {
    let name = "families";
    let mut r = rng.fork(name);
    for _ in 0..cases {
        let mode = if r.chance(1, 2) { Mode::Router } else { Mode::Manager };
        let max = if mode == Mode::Router || r.chance(1, 2) { 10 } else { 2 + r.below(3) as usize };
        let mut fams: Vec<u64> = FAM_GROUPS[r.below(FAM_GROUPS.len() as u64) as usize].to_vec();
        for _ in 0..r.below(3) {
            let f = r.below(FAMS.len() as u64);
            if !fams.contains(&f) {
                fams.push(f);
            }
        }
        let engines = r.below(8);
        for f in &fams {
            ctx.rep.hit(&format!("families:{}", FAMS[*f as usize]));
        }
        let mut g = Gen { tables: 2, nodes_hi: 0, edges_hi: 0 };
        let data = |r: &mut Rng, g: &mut Gen| -> Op {
            loop {
                let w = r.below(20);
                let fam = fams[r.below(fams.len() as u64) as usize] * 100;
                return match w {
                    0..=8 => Op::KPut(0, fam + r.below(4), r.range(-5, 5), None),
                    9..=10 => Op::KDel(0, fam + r.below(4)),
                    11..=13 if engines & 1 != 0 => match r.below(6) {
                        0..=2 => {
                            g.nodes_hi += 1;
                            Op::GNode(r.below(3))
                        }
                        3..=4 => {
                            g.edges_hi += 1;
                            Op::GEdge(1 + r.below(g.nodes_hi.max(1)), 1 + r.below(g.nodes_hi.max(1)))
                        }
                        _ => {
                            if r.chance(1, 2) {
                                Op::GDelE(1 + r.below(g.edges_hi.max(1)))
                            } else {
                                Op::GDelN(1 + r.below(g.nodes_hi.max(1)))
                            }
                        }
                    },
                    14..=15 if engines & 2 != 0 => {
                        if r.chance(3, 4) {
                            Op::VPut(r.below(4), vec![1 + r.range(0, 2), r.range(-2, 2), r.range(-2, 2)])
                        } else {
                            Op::VDel(r.below(4))
                        }
                    }
                    16..=17 if engines & 4 != 0 => match r.below(5) {
                        0 => Op::RCreate(r.below(2)),
                        1 => Op::RHidx(r.below(2)),
                        2 => Op::RDrop(r.below(2)),
                        _ => Op::RIns(r.below(2), r.below(4) as i64, r.below(4) as i64),
                    },
                    18 => Op::KPut(2, 5 + r.below(3), r.range(-5, 5), if r.chance(1, 2) { Some(r.range(-3, 3)) } else { None }),
                    19 => Op::KPut(1, r.below(3), r.range(-5, 5), None),
                    _ => continue,
                };
            }
        };
        let n_ck = 2 + r.below(3);
        let mut ops: Vec<Op> = vec![];
        for _ in 0..n_ck {
            for _ in 0..(3 + r.below(7)) {
                ops.push(data(&mut r, &mut g));
            }
            ops.push(Op::Ckpt(None));
        }
        for _ in 0..r.below(5) {
            ops.push(data(&mut r, &mut g));
        }
        let mut c = n_ck;
        while c > 0 {
            c -= 1;
            if c > 0 && r.chance(1, 5) {
                continue;
            }
            let target = if r.chance(1, 4) { c } else { NAME0 + c };
            ops.push(Op::Rollback(target));
            if r.chance(1, 4) {
                ops.push(Op::Rollback(target));
            }
            if r.chance(1, 6) {
                ops.push(Op::CkAll);
            }
            for _ in 0..r.below(3) {
                ops.push(data(&mut r, &mut g));
            }
        }
        let tss: Vec<u64> = (0..n_ck).map(|i| 100 + 2 * i).collect();
        let before: BTreeSet<String> = ctx.per_class.keys().filter(|c| is_restore_class(c)).cloned().collect();
        let (agreed, violated) = run_case(ctx, m, name, mode, max, &ops, &tss, true);
        let fresh_class: Option<String> = ctx.per_class.keys().find(|c| is_restore_class(c) && !before.contains(*c)).cloned();
        if let (true, Some(class)) = (violated, fresh_class) {
            let small = shrink_list(&ops, &mut |cand: &[Op]| {
                let mut scratch = Ctx { rep: Report::new(""), per_class: BTreeMap::new() };
                run_case(&mut scratch, m, name, mode, max, cand, &tss, false);
                scratch.per_class.contains_key(&class)
            });
            let lines: Vec<String> = small.iter().map(|o| format!("{o:?}")).collect();
            ctx.rep.note(&format!("{name}: {class} shrunk (max {max}): {}", lines.join("; ")));
            ctx.rep.violation(&class, "the same class on the shrunk statement list", json!({"stream": name, "mode": if mode == Mode::Router { "router" } else { "manager" }, "max": max, "statements": lines, "ts": tss}));
        } else if !agreed {
            let small = shrink_list(&ops, &mut |cand: &[Op]| {
                let mut scratch = Ctx { rep: Report::new(""), per_class: BTreeMap::new() };
                let (a, _) = run_case(&mut scratch, m, name, mode, max, cand, &tss, false);
                !a
            });
            ctx.rep.note(&format!("{name}: shrunk disagreement (max {max}): {}", small.iter().map(|o| format!("{o:?}")).collect::<Vec<_>>().join("; ")));
        }
    }
}

/// every (key, x) a real metadata slab shows: `keys()` (all shards merged), each value read back
/// through `get` (the key's own shard), and `len()`
fn mdslab_image(slab: &MetadataSlab) -> String {
    let mut keys = slab.keys();
    keys.sort_by(|a, b| a.as_bytes().cmp(b.as_bytes()));
    let items: Vec<String> = keys
        .iter()
        .map(|k| {
            let v = match slab.get(k).as_ref().and_then(|t| t.get("x").cloned()) {
                Some(TensorValue::Scalar(ScalarValue::Int(x))) => x.to_string(),
                _ => "?".to_string(),
            };
            format!("{}={v}", hex(k.as_bytes()))
        })
        .collect();
    format!("{} #{}", items.join(","), slab.len())
}

/// The sharded metadata slab alone (`MetadataSlab`: set / delete / snapshot + restore) against the
/// model of Shard.lean, keys over an alphabet of FIRST BYTES that collide modulo 16 in every
/// combination (same byte, same shard with another byte before / after it in key order, different
/// shards, the empty key, multi-byte UTF-8 first characters), with a harness-side last-write oracle
/// evaluated on the real slab alone.
fn stream_mdslab(ctx: &mut Ctx, m: &mut Model, rng: &Rng, cases: usize) {
    let mut r = rng.fork("mdslab");
    // first characters by shard: 5: e u E U 5 | 14: n N ~ . ^ | 15: _ o O ? / | 0: p P @ 0 ' ' | 4: d t T D 4 | 3: s c é(0xC3)
    const FIRST: [&str; 29] = ["e", "u", "E", "U", "5", "n", "N", "~", ".", "^", "_", "o", "O", "?", "/", "p", "P", "@", "0", " ", "d", "t", "T", "D", "4", "s", "c", "é", "ß"];
    const REST: [&str; 4] = [":1", ":2", "dge:7", ""];
    let directed: Vec<Vec<String>> = vec![
        vec!["set edge:1 1", "set node:1 2", "set user:1 3", "reload", "reload"],
        vec!["set _blob:meta:a 1", "set _meta:table:t 2", "set node:1 3", "set order:1 4", "reload"],
        vec!["set /path:1 1", "set _idx:t 2", "set Note:1 3", "set node:1 4", "set ~tmp:1 5", "reload", "del node:1", "reload"],
        vec!["set  1", "set p:1 2", "set P:1 3", "set @:1 4", "reload"],
        vec!["set é:1 1", "set s:1 2", "set c:1 3", "set ß:1 4", "reload", "set s:1 5", "reload"],
    ]
    .into_iter()
    .map(|c| c.into_iter().map(String::from).collect())
    .collect();
    let n_dir = directed.len();
    for case in 0..(n_dir + cases) {
        let mut slab = MetadataSlab::new();
        m.ask("ms reset");
        let mut want: BTreeMap<Vec<u8>, i64> = BTreeMap::new();
        let mut trace: Vec<String> = vec![];
        // the first characters of this case: 2..5 of them, in 2 cases of 3 drawn so that at least two collide modulo 16
        let mut firsts: Vec<&str> = vec![];
        if r.chance(2, 3) {
            let a = *r.pick(&FIRST);
            firsts.push(a);
            let same: Vec<&str> = FIRST.iter().copied().filter(|b| *b != a && b.as_bytes()[0] % 16 == a.as_bytes()[0] % 16).collect();
            if !same.is_empty() {
                firsts.push(*r.pick(&same));
            }
        }
        while firsts.len() < 2 + r.below(4) as usize {
            firsts.push(*r.pick(&FIRST));
        }
        let len = if case < n_dir { directed[case].len() } else { 6 + r.below(24) as usize };
        let mut agreed = true;
        for i in 0..len {
            // (op, key, value)
            let (opw, key, val): (String, String, i64) = if case < n_dir {
                let w: Vec<&str> = directed[case][i].splitn(3, ' ').collect();
                match w[0] {
                    "set" if w.len() == 3 => ("set".into(), w[1].to_string(), w[2].parse().unwrap()),
                    "set" => ("set".into(), String::new(), w[1].parse().unwrap()),
                    "del" => ("del".into(), w[1].to_string(), 0),
                    _ => ("reload".into(), String::new(), 0),
                }
            } else {
                let key = if r.chance(1, 40) { String::new() } else { format!("{}{}", r.pick(&firsts), r.pick(&REST)) };
                match r.below(20) {
                    0..=10 => ("set".into(), key, r.range(-9, 9)),
                    11..=13 => ("del".into(), key, 0),
                    _ => ("reload".into(), String::new(), 0),
                }
            };
            ctx.rep.hit(&format!("mdslab:{opw}"));
            let line = match opw.as_str() {
                "set" => {
                    let mut t = TensorData::new();
                    t.set("x", TensorValue::Scalar(ScalarValue::Int(val)));
                    slab.set(&key, t);
                    want.insert(key.as_bytes().to_vec(), val);
                    format!("ms set {} {val}", hex(key.as_bytes()))
                }
                "del" => {
                    let had = slab.delete(&key).is_some();
                    if had != want.remove(key.as_bytes()).is_some() {
                        ctx.violation("tensor_store.metadata_slab/delete_answer", "delete answered the opposite of whether the key was stored", json!({"ops": trace.clone(), "key": key}));
                    }
                    format!("ms del {}", hex(key.as_bytes()))
                }
                _ => {
                    let distinct_first: BTreeSet<u8> = want.keys().filter_map(|k| k.first().copied()).collect();
                    let shards: BTreeSet<u8> = distinct_first.iter().map(|b| b % 16).collect();
                    if shards.len() < distinct_first.len() {
                        // a shard holds keys of two different first bytes: it is filled from two runs of the sorted snapshot
                        ctx.rep.hit("mdslab:reload_with_two_first_bytes_in_one_shard");
                    }
                    slab = MetadataSlab::restore(slab.snapshot());
                    "ms reload".to_string()
                }
            };
            trace.push(line.clone());
            let img = mdslab_image(&slab);
            // property oracle on the real slab alone: every key reads its own last value, nothing else is listed
            let expect = format!("{} #{}", want.iter().map(|(k, v)| format!("{}={v}", hex(k))).collect::<Vec<_>>().join(","), want.len());
            if img != expect {
                ctx.violation(
                    "tensor_store.metadata_slab/entries_lost_or_misplaced",
                    &format!("the slab shows [{img}] where the last writes are [{expect}]: after `{line}` a key is missing from the listing, not found in its own shard, or the count is off"),
                    json!({"ops": trace.clone(), "keys": want.keys().map(|k| String::from_utf8_lossy(k).to_string()).collect::<Vec<_>>()}),
                );
            }
            if agreed {
                let mo = m.ask(&line);
                let tr = trace.clone();
                if !ctx.rep.compare("mdslab", || json!({"ops": tr}), &img, &mo) {
                    agreed = false;
                }
            }
        }
        let key = trace.join(";");
        ctx.rep.case("mdslab", if agreed && !want.is_empty() { Some(&key) } else { None });
    }
}

/// hand-written scenarios = the Lean witnesses, replayed on the real code (also run first)
fn stream_witness(ctx: &mut Ctx, m: &mut Model) {
    const CK: Op = Op::Ckpt(None);
    let rb = |n: u64| Op::Rollback(NAME0 + n);
    // `emb:e<k>` with scalar field x = k and a slab-dimension `_embedding` of content e
    let ke = |k: u64, e: i64| Op::KPut(2, k, k as i64, Some(e));
    let cases: Vec<(&str, Vec<Op>)> = vec![
        ("tables_lost", vec![Op::RCreate(0), Op::RIns(0, 1, 2), CK, rb(0), Op::RIns(0, 1, 1)]),
        ("tables_lost_indexed", vec![Op::RCreate(0), Op::RHidx(0), Op::RBidx(0), Op::RIns(0, 1, 2), CK, Op::RIns(0, 2, 0), rb(0)]),
        ("stale_label_index", vec![Op::GNode(1), CK, Op::GDelN(1), rb(0)]),
        ("stale_hnsw", vec![Op::VPut(0, vec![1, 0, 0]), CK, Op::VPut(1, vec![0, 1, 0]), Op::VBuild, rb(0)]),
        ("later_checkpoint_lost", vec![Op::KPut(0, 0, 1, None), CK, Op::KPut(0, 0, 2, None), CK, rb(0), rb(1)]),
        ("rollback_twice", vec![Op::KPut(0, 0, 1, None), CK, Op::KPut(0, 0, 2, None), rb(0), Op::KPut(0, 0, 3, None), rb(0)]),
        ("graph_roundtrip", vec![Op::GNode(0), Op::GNode(1), Op::GEdge(1, 2), CK, Op::GDelE(1), Op::GNode(2), Op::GEdge(2, 3), rb(0), Op::GNode(2), Op::GEdge(1, 4)]),
        ("vector_roundtrip", vec![Op::VPut(0, vec![1, 2, 3]), Op::VPut(1, vec![0, 0, 1]), CK, Op::VDel(0), Op::VPut(2, vec![1, 1, 1]), rb(0), Op::VPut(3, vec![2, 2, 2])]),
        ("raw_roundtrip", vec![Op::KPut(0, 1, 5, None), Op::KPut(1, 1, 6, None), Op::KPut(2, 5, 7, Some(3)), Op::KPut(2, 6, 7, None), CK, Op::KDel(0, 1), Op::KDel(1, 1), Op::KPut(2, 5, 8, None), Op::KPut(2, 6, 1, Some(2)), rb(0)]),
        ("drop_then_rollback", vec![Op::RCreate(1), Op::RIns(1, 0, 0), CK, Op::RDrop(1), rb(0), Op::RCreate(1), Op::RDrop(1), Op::RCreate(1), Op::RIns(1, 3, 3)]),
        ("stale_btree_after_recreate", vec![CK, Op::RCreate(0), Op::RBidx(0), Op::RIns(0, 1, 1), Op::RIns(0, 2, 2), rb(0), Op::RCreate(0), Op::RBidx(0), Op::RIns(0, 3, 0)]),
        // entity ids across a checkpoint: the embedding-slab part of a snapshot is keyed by entity id
        // (= position of the `emb:` key in the entity index's append-only vocabulary), so the
        // entity-index part has to bring every surviving key back under the id it had, whatever was
        // deleted before it.  Shortest history first: four slab-dimension embeddings with distinct
        // contents, the FIRST created one deleted, checkpoint, changes, rollback — every survivor must
        // come back with its OWN vector.  Then the neighbours: a middle one deleted, two deleted,
        // deleted and re-created (the key moves to a new id at the end of the vocabulary), a deleted
        // vector-engine key (an `emb:` key with an entity id and no slab entry) in front of the slab
        // keys, a delete on either side of two checkpoints, and a second rollback over the first
        ("emb_ids_first_deleted", vec![ke(5, 1), ke(6, 2), ke(7, 3), ke(8, -2), Op::KDel(2, 5), CK, ke(6, -3), Op::KDel(2, 7), ke(9, 1), rb(0)]),
        ("emb_ids_middle_deleted", vec![ke(5, 1), ke(6, 2), ke(7, 3), ke(8, -2), Op::KDel(2, 6), CK, Op::KDel(2, 8), rb(0), ke(9, 2)]),
        ("emb_ids_two_deleted", vec![ke(5, 1), ke(6, 2), ke(7, 3), ke(8, -2), ke(9, -1), Op::KDel(2, 5), Op::KDel(2, 7), CK, ke(8, 3), rb(0)]),
        ("emb_ids_deleted_and_recreated", vec![ke(5, 1), ke(6, 2), ke(7, 3), Op::KDel(2, 5), ke(5, -1), CK, Op::KDel(2, 6), ke(7, 2), rb(0)]),
        ("emb_ids_vector_key_deleted", vec![Op::VPut(0, vec![1, 2, 3]), ke(5, 1), ke(6, 2), ke(7, 3), Op::VDel(0), CK, ke(5, 3), rb(0)]),
        ("emb_ids_without_vector_deleted", vec![Op::KPut(2, 5, 4, None), ke(6, 2), ke(7, 3), ke(8, -1), Op::KDel(2, 5), CK, ke(6, 3), rb(0)]),
        ("emb_ids_two_checkpoints", vec![ke(5, 1), ke(6, 2), ke(7, 3), Op::KDel(2, 5), CK, ke(8, -2), Op::KDel(2, 6), CK, ke(7, 1), rb(1), ke(9, 3), rb(0)]),
        ("emb_ids_rollback_twice", vec![ke(5, 1), ke(6, 2), ke(7, 3), Op::KDel(2, 5), CK, ke(6, 3), rb(0), Op::KDel(2, 6), ke(8, 1), rb(0)]),
    ];
    for (name, ops) in cases {
        ctx.rep.hit(&format!("witness:{name}"));
        run_case(ctx, m, "witness", Mode::Router, 10, &ops, &[], true);
    }
    // target resolution (id or name, newest first), manual delete, CHECKPOINTS LIMIT — the Lean
    // witnesses of Props, on the real code, with the harness clock
    let shared = Op::Ckpt(Some(SHARED_NAMES[0]));
    let by_shared = Op::Rollback(SHARED_NAMES[0]);
    let kp = |x: i64| Op::KPut(0, 0, x, None);
    let mcases: Vec<(&str, Vec<Op>, Vec<u64>)> = vec![
        ("name_picks_newest", vec![kp(1), shared.clone(), kp(2), shared.clone(), kp(3), Op::CkTop(1), by_shared.clone(), by_shared.clone()], vec![5, 6]),
        ("older_same_name_by_id", vec![kp(1), shared.clone(), kp(2), shared.clone(), kp(3), Op::Rollback(0)], vec![5, 6]),
        // regression cases of /repo fff752bd (an id match wins over a name match): the shortest
        // history in which the id pass is the only thing that keeps a listed checkpoint reachable,
        // then its variants — two shadowing checkpoints, equal timestamps, a delete by the
        // shadowed id, the shadowed checkpoint unlisted first (then the name is reached)
        ("id_shadowed_by_name", vec![kp(1), CK, kp(2), Op::Ckpt(Some(0)), kp(3), Op::Rollback(0)], vec![5, 6]),
        ("id_shadowed_by_two_names", vec![kp(1), CK, kp(2), Op::Ckpt(Some(0)), Op::GNode(1), Op::Ckpt(Some(0)), kp(3), Op::CkTop(3), Op::Rollback(0)], vec![5, 6, 7]),
        ("id_shadowed_same_second", vec![kp(1), CK, kp(2), Op::Ckpt(Some(0)), kp(3), Op::Rollback(0)], vec![5, 5]),
        // regression cases of /repo 14af22de (delete resolves its target like rollback): the shortest
        // history in which the id pass is the only thing that makes delete(<id of c0>) unlist c0 and
        // not the newer checkpoint named with that id; then two shadowing checkpoints, equal
        // timestamps, a shadowed middle checkpoint, the delete repeated (then the NAME is reached)
        ("delete_id_shadowed_by_name", vec![kp(1), CK, kp(2), Op::Ckpt(Some(0)), kp(3), Op::CkDel(0), Op::CkTop(3)], vec![5, 6]),
        ("delete_id_shadowed_by_two_names", vec![kp(1), CK, kp(2), Op::Ckpt(Some(0)), Op::GNode(1), Op::Ckpt(Some(0)), kp(3), Op::CkDel(0), Op::CkTop(3), Op::CkDel(0), Op::CkDel(0), Op::CkDel(0)], vec![5, 6, 7]),
        ("delete_id_shadowed_same_second", vec![kp(1), CK, kp(2), Op::Ckpt(Some(0)), kp(3), Op::CkDel(0), Op::Rollback(0)], vec![5, 5]),
        ("delete_id_shadowed_middle", vec![kp(1), CK, kp(2), CK, kp(3), Op::Ckpt(Some(1)), Op::VPut(0, vec![1, 2, 3]), Op::Ckpt(Some(0)), kp(4), Op::CkDel(1), Op::CkTop(4), Op::Rollback(1), ], vec![5, 6, 7, 8]),
        ("id_shadowed_delete_by_id", vec![kp(1), CK, kp(2), Op::Ckpt(Some(0)), kp(3), Op::CkDel(0), Op::CkTop(3), Op::Rollback(0), Op::Rollback(1)], vec![5, 6]),
        ("id_shadowed_delete_shadower_by_id", vec![kp(1), CK, kp(2), Op::Ckpt(Some(0)), kp(3), Op::CkDel(1), Op::Rollback(0)], vec![5, 6]),
        ("id_shadowed_middle", vec![kp(1), CK, kp(2), CK, kp(3), Op::Ckpt(Some(1)), Op::VPut(0, vec![1, 2, 3]), Op::Ckpt(Some(0)), kp(4), Op::Rollback(1)], vec![5, 6, 7, 8]),
        ("delete_then_rollback", vec![kp(1), CK, kp(2), shared.clone(), Op::GNode(1), shared.clone(), Op::CkDel(SHARED_NAMES[0]), Op::CkTop(5), by_shared.clone(), Op::CkDel(7), Op::CkDel(0), rb(0)], vec![5, 6, 7]),
        ("rollback_by_id_router_style", vec![kp(1), CK, kp(2), CK, Op::Rollback(1), Op::Rollback(0), Op::Rollback(5)], vec![5, 5]),
    ];
    for (name, ops, tss) in mcases {
        ctx.rep.hit(&format!("witness:{name}"));
        run_case(ctx, m, "witness", Mode::Manager, 10, &ops, &tss, true);
    }
    // small blob chunks: the three checkpoints share most of their chunks; retention (max 2) and a
    // manual delete remove some of them, the survivors must stay loadable and restore exactly
    BLOB_CHUNK.store(96, std::sync::atomic::Ordering::Relaxed);
    ctx.rep.hit("witness:shared_chunks");
    run_case(
        ctx,
        m,
        "witness",
        Mode::Manager,
        2,
        &[kp(1), Op::GNode(1), Op::VPut(0, vec![1, 2, 3]), CK, kp(2), CK, kp(3), CK, Op::CkTop(5), rb(1), kp(4), CK, CK, Op::CkDel(3), rb(4)],
        &[5, 6, 7, 8, 9],
        true,
    );
    BLOB_CHUNK.store(0, std::sync::atomic::Ordering::Relaxed);
    // auto-checkpoints before destructive text statements: the checkpoint holds the state BEFORE
    // the statement; rollback to it by name and by id
    let acases: Vec<(&str, Vec<Op>)> = vec![
        ("auto_node_delete", vec![Op::GNode(1), Op::GNode(2), Op::GEdge(1, 2), Op::TNodeDel(1), Op::Rollback(AUTO_NODE_DELETE), Op::TNodeDel(7)]),
        ("auto_embed_delete", vec![Op::VPut(0, vec![1, 2, 3]), Op::VPut(1, vec![0, 1, 0]), Op::TEmbDel(0), Op::VPut(2, vec![1, 1, 1]), Op::Rollback(0), Op::TEmbDel(5)]),
        ("auto_delete_rows", vec![Op::RCreate(0), Op::RIns(0, 1, 2), Op::RIns(0, 2, 2), Op::TDel(0, 3), Op::TDel(0, 1), Op::Rollback(AUTO_DELETE), Op::TDel(1, 1)]),
        ("auto_then_manual", vec![kp(1), CK, Op::GNode(0), Op::TNodeDel(1), kp(2), Op::CkTop(3), Op::Rollback(1), rb(0)]),
    ];
    for (name, ops) in acases {
        ctx.rep.hit(&format!("witness:{name}"));
        run_case(ctx, m, "witness", Mode::Auto, 10, &ops, &[], true);
    }
    // auto-checkpoints AT the retention limit (CheckpointManager::create_auto: store, then enforce):
    // the listing is filled by harness-clock checkpoints, so the wall-clock auto-checkpoint is
    // strictly the newest and retention has exactly one thing it may do — evict the oldest.  The
    // shortest history first (max 1: one checkpoint, one destructive statement), then its
    // neighbours: max 2, below the limit, reaching the limit, two auto-checkpoints in a row, a
    // destructive statement that matches nothing (no auto-checkpoint), a real CHECKPOINT statement
    // at the limit and after an auto-checkpoint at the limit, a rollback / a delete in between, the
    // default max_checkpoints = 10 (where the 11th entry is beyond what CHECKPOINTS shows), and
    // three wall-clock checkpoints over max 2 (created_at ties: only count and loadability are fixed)
    let v3 = |k: u64| Op::VPut(k, vec![1, 2, 3]);
    let mut ten: Vec<Op> = vec![kp(1)];
    ten.extend(std::iter::repeat(CK).take(10));
    ten.extend([Op::GNode(1), Op::TNodeDel(1), Op::CkAll, Op::CkTop(11), Op::Rollback(AUTO_NODE_DELETE)]);
    let rcases: Vec<(&str, usize, Vec<Op>, Vec<u64>)> = vec![
        ("auto_at_limit_max1", 1, vec![kp(1), CK, Op::GNode(1), Op::TNodeDel(1), Op::CkAll, Op::Rollback(0), Op::Rollback(1)], vec![5]),
        ("auto_at_limit", 2, vec![kp(1), CK, kp(2), CK, Op::GNode(1), Op::TNodeDel(1), Op::CkAll, Op::CkTop(3), Op::Rollback(0), Op::Rollback(AUTO_NODE_DELETE)], vec![5, 6]),
        ("auto_below_limit", 3, vec![kp(1), CK, Op::GNode(1), Op::TNodeDel(1), Op::CkAll, Op::Rollback(0)], vec![5]),
        ("auto_reaches_limit_then_at_limit", 2, vec![kp(1), CK, Op::GNode(1), Op::TNodeDel(1), Op::CkAll, Op::GNode(2), v3(0), Op::TEmbDel(0), Op::CkAll, Op::Rollback(0), Op::Rollback(2)], vec![5]),
        ("auto_twice_at_limit", 2, vec![v3(0), v3(1), CK, kp(1), CK, Op::TEmbDel(0), Op::CkAll, Op::TEmbDel(1), Op::CkAll, Op::Rollback(1), Op::Rollback(2)], vec![5, 6]),
        ("auto_delete_rows_at_limit", 2, vec![Op::RCreate(0), Op::RIns(0, 1, 2), Op::RIns(0, 2, 2), CK, kp(1), CK, Op::TDel(0, 3), Op::CkAll, Op::TDel(0, 1), Op::CkAll, Op::Rollback(0), Op::Rollback(1)], vec![5, 6]),
        ("real_create_at_limit", 2, vec![kp(1), CK, kp(2), CK, kp(3), Op::CkptReal(None), Op::CkAll, Op::Rollback(0), Op::Rollback(NAME0 + 2)], vec![5, 6]),
        ("auto_at_limit_then_real_create", 2, vec![kp(1), CK, kp(2), CK, v3(0), Op::TEmbDel(0), kp(3), Op::CkptReal(None), Op::CkAll, Op::Rollback(1), Op::Rollback(2)], vec![5, 6]),
        ("auto_at_limit_after_rollback", 2, vec![kp(1), CK, kp(2), CK, Op::Rollback(NAME0 + 1), kp(3), CK, Op::GNode(1), Op::TNodeDel(1), Op::CkAll, Op::Rollback(3)], vec![5, 6, 7]),
        ("auto_at_limit_delete_between", 2, vec![kp(1), CK, kp(2), CK, Op::GNode(1), Op::TNodeDel(1), Op::CkDel(1), Op::CkAll, Op::GNode(2), Op::TNodeDel(2), Op::CkAll, Op::Rollback(2)], vec![5, 6]),
        ("auto_three_wall_clock_over_max2", 2, vec![v3(0), v3(1), v3(2), Op::TEmbDel(0), Op::TEmbDel(1), Op::CkAll, Op::TEmbDel(2), Op::CkAll], vec![]),
        ("auto_at_default_limit", 10, ten, (5..15).collect()),
    ];
    for (name, max, ops, tss) in rcases {
        ctx.rep.hit(&format!("witness:{name}"));
        run_case(ctx, m, "witness", Mode::AutoRet, max, &ops, &tss, true);
    }
    // the same regression through the router statements alone: CHECKPOINT '<uuid of c0>', then
    // ROLLBACK TO '<uuid of c0>' (wall-clock seconds: the two usually tie — an id match does not
    // depend on the order)
    ctx.rep.hit("witness:id_shadowed_by_name_router");
    run_case(ctx, m, "witness", Mode::Router, 10, &[kp(1), CK, kp(2), Op::Ckpt(Some(0)), kp(3), Op::Rollback(0)], &[], true);
    ctx.rep.hit("witness:id_shadowed_by_name_router_delete");
    run_case(ctx, m, "witness", Mode::Router, 10, &[kp(1), Op::GNode(0), CK, kp(2), Op::Ckpt(Some(0)), kp(3), Op::CkDel(0), Op::Rollback(0)], &[], true);
    // the router's own ids (uuids): ROLLBACK TO '<uuid>' and delete by uuid
    ctx.rep.hit("witness:router_uuid_targets");
    run_case(ctx, m, "witness", Mode::Router, 10, &[kp(1), CK, kp(2), CK, kp(3), Op::CkTop(1), Op::Rollback(0), kp(4), CK, Op::CkDel(2), Op::CkDel(2), Op::Rollback(2)], &[], true);
}

/// repaired by /repo fff752bd; reported again whenever a listed id reaches a checkpoint NAMED with it
const SHADOW_CLASS: &str = "tensor_checkpoint.storage/id_shadowed_by_name";
/// repaired by /repo 14af22de; reported again whenever CheckpointManager::delete(<listed id>) unlists a
/// checkpoint NAMED with that id instead of the checkpoint with that id
const DELETE_SHADOW_CLASS: &str = "tensor_checkpoint.manager_delete/id_shadowed_by_name";
const TIE_CLASS: &str = "tensor_checkpoint.retention/newer_dropped_on_timestamp_tie";

/// Directed, seed-independent reproduction of the retention tie finding (runs before the seeded
/// streams).  `max_checkpoints = 1`, eight checkpoints all stamped with the same harness-clock
/// second: after each checkpoint retention chooses between the survivor and the one just made, and
/// the order of the two in `CheckpointStorage::list` is the order of `SlabRouter::scan` (a std
/// `HashSet` with a per-instance random state over uuid-v4 artifact ids), which nothing can pin
/// from outside.  Each of the 7 choices drops the newer one with probability about 1/2, so one
/// attempt misses with probability 2^-7; the case is repeated on a fresh router until the oracle
/// has fired, at most 64 times (all attempts miss with probability 2^-448).
fn stream_retention_tie_directed(ctx: &mut Ctx, m: &mut Model) {
    let mut ops = vec![Op::KPut(0, 0, 1, None)];
    ops.extend(std::iter::repeat(Op::Ckpt(None)).take(8));
    let tss = vec![100u64; 8];
    for _attempt in 0..64 {
        ctx.rep.hit("witness:retention_tie");
        let (agreed, _) = run_case(ctx, m, "witness", Mode::Manager, 1, &ops, &tss, true);
        if !agreed || ctx.per_class.contains_key(TIE_CLASS) {
            break;
        }
    }
    if ctx.per_class.contains_key(TIE_CLASS) {
        ctx.rep.hit("witness:retention_tie_shown");
    }
}

/// retention alone: own blob store, random timestamp lists with ties, random counts
fn stream_retention(ctx: &mut Ctx, m: &mut Model, rng: &Rng, cases: usize) {
    let mut r = rng.fork("retention");
    let rt = tokio::runtime::Builder::new_current_thread().enable_all().build().unwrap();
    for _ in 0..cases {
        let n = r.below(8) as usize;
        let max = r.below(6) as usize;
        let span = 1 + r.below(4);
        let tss: Vec<u64> = (0..n).map(|_| 50 + r.below(span)).collect();
        let incremental = r.chance(1, 2);
        ctx.rep.hit(if incremental { "retention:incremental" } else { "retention:bulk" });
        let store = TensorStore::new();
        let blob = rt.block_on(BlobStore::new(store, BlobConfig::default())).expect("blob");
        let ret = RetentionManager::new(max);
        let mut live: Vec<(u64, u64)> = vec![]; // (id, ts) the harness believes live
        let mut ok = true;
        let mut steps: Vec<serde_json::Value> = vec![];
        for (i, ts) in tss.iter().enumerate() {
            let mut st = CheckpointState::new(format!("hid-{i}"), format!("c{i}"), vec![i as u8 + 1; 64], CheckpointMetadata::default());
            st.created_at = *ts;
            rt.block_on(CheckpointStorage::store(&st, &blob)).expect("store");
            live.push((i as u64, *ts));
            if incremental || i + 1 == n {
                let before = live.clone();
                let removed = rt.block_on(ret.enforce(&blob)).unwrap_or(usize::MAX);
                let listed = rt.block_on(CheckpointStorage::list(&blob)).unwrap_or_default();
                let kept_sorted_desc: Vec<u64> =
                    listed.iter().filter_map(|c| c.name.strip_prefix('c').and_then(|s| s.parse().ok())).collect();
                let mut kept = kept_sorted_desc.clone();
                kept.sort_unstable();
                // a by_tag order consistent with the outcome: kept first, then dropped
                let mut ord = kept_sorted_desc.clone();
                for (id, _) in &before {
                    if !ord.contains(id) {
                        ord.push(*id);
                    }
                }
                let line = format!(
                    "retain {max} {} {} {}",
                    nats(&ord),
                    nats(&before.iter().map(|p| p.0).collect::<Vec<_>>()),
                    nats(&before.iter().map(|p| p.1).collect::<Vec<_>>())
                );
                let mo = m.ask(&line);
                let imp = nats(&kept);
                steps.push(json!({"line": line, "kept": kept, "removed": removed}));
                let st2 = steps.clone();
                if !ctx.rep.compare("retention", || json!({"steps": st2}), &imp, &mo) {
                    ok = false;
                }
                // listing order: created_at must not increase down the list
                let ts_of: BTreeMap<u64, u64> = before.iter().copied().collect();
                let desc: Vec<u64> = kept_sorted_desc.iter().map(|i| ts_of[i]).collect();
                if desc.windows(2).any(|w| w[0] < w[1]) {
                    ctx.violation("tensor_checkpoint.retention/list_not_newest_first", "CheckpointStorage::list is not sorted by created_at descending", json!({"steps": steps.clone()}));
                }
                // property: keep min(n, max); every kept ts >= every dropped ts; kept loadable
                let dropped: Vec<(u64, u64)> = before.iter().copied().filter(|p| !kept.contains(&p.0)).collect();
                if kept.len() != before.len().min(max) {
                    ctx.violation("tensor_checkpoint.retention/wrong_count", &format!("kept {} of {} with max {max}", kept.len(), before.len()), json!({"steps": steps.clone()}));
                }
                let min_kept = kept.iter().map(|i| ts_of[i]).min();
                let max_dropped = dropped.iter().map(|p| p.1).max();
                if let (Some(a), Some(b)) = (min_kept, max_dropped) {
                    if b > a {
                        ctx.violation("tensor_checkpoint.retention/older_kept_over_newer", &format!("a checkpoint with created_at {a} was kept while one with {b} was deleted"), json!({"steps": steps.clone()}));
                    }
                    if a == b {
                        ctx.rep.hit("retention:tie_at_boundary");
                    }
                }
                for k in &kept {
                    if rt.block_on(CheckpointStorage::load(&format!("c{k}"), &blob)).is_err() {
                        ctx.violation("tensor_checkpoint.retention/retained_not_loadable", &format!("retained c{k} cannot be loaded"), json!({"steps": steps.clone()}));
                    }
                }
                for (d, _) in &dropped {
                    if rt.block_on(CheckpointStorage::load(&format!("c{d}"), &blob)).is_ok() {
                        ctx.violation("tensor_checkpoint.retention/dropped_still_listed", &format!("dropped c{d} can still be loaded"), json!({"steps": steps.clone()}));
                    }
                }
                live.retain(|p| kept.contains(&p.0));
            }
        }
        let key = format!("{max}|{tss:?}|{incremental}");
        ctx.rep.case("retention", if n > 0 && ok { Some(&key) } else { None });
    }
}

/// bare TensorStore: snapshot_bytes / restore_from_bytes on plain, cache and emb(+_embedding) keys
fn stream_store_raw(ctx: &mut Ctx, m: &mut Model, rng: &Rng, cases: usize) {
    let mut r = rng.fork("store_raw");
    for _ in 0..cases {
        let store = TensorStore::new();
        m.ask("reset");
        let mut trace = vec![];
        let mut snaps: Vec<(Vec<u8>, String, String, Vec<String>)> = vec![];
        let len = 6 + r.below(20);
        let mut agreed = true;
        // the plain-key families of this case: one whole shard group of raw families, sometimes more
        // (`emb:` / `_cache:` keys are there in every case: `user:` shares the shard of `emb:`)
        let mut fams: Vec<u64> = FAM_GROUPS[r.below(FAM_GROUPS.len() as u64) as usize].to_vec();
        for _ in 0..r.below(3) {
            fams.push(r.below(FAMS.len() as u64));
        }
        let all_keys = |st: &TensorStore| {
            let mut v = st.scan("");
            v.sort();
            v
        };
        // entity ids across a snapshot: 1 case in 3 starts with the scripted shape (several `emb:`
        // keys with slab-dimension vectors of distinct contents, earlier-created ones deleted,
        // snapshot) and gets a restore of that snapshot a few statements later
        let mut script: Vec<Option<Op>> = vec![];
        if r.chance(1, 3) {
            let (pre, _) = gen_emb_prelude(&mut r);
            script = pre.into_iter().filter(|o| matches!(o, Op::KPut(..) | Op::KDel(..))).map(Some).collect();
            script.push(Some(Op::Ckpt(None))); // = snapshot
            for _ in 0..r.below(5) {
                script.push(None); // a random statement
            }
            script.push(Some(Op::Rollback(0))); // = restore snapshot 0
            ctx.rep.hit("raw:emb_ids_prelude");
        }
        script.reverse();
        for _ in 0..len + script.len() as u64 {
            let forced = script.pop().flatten();
            let w = match &forced {
                Some(Op::KPut(..)) => 0,
                Some(Op::KDel(..)) => 6,
                Some(Op::Ckpt(_)) => 8,
                Some(_) => 9,
                None => r.below(10),
            };
            let (imp, line) = if w < 6 {
                let cls = r.below(3);
                let k = if cls == 0 { *r.pick(&fams) * 100 + r.below(3) } else { r.below(4) };
                let x = r.range(-5, 5);
                let e = if cls == 2 && r.chance(2, 3) { Some(r.range(-3, 3)) } else { None };
                let (cls, k, x, e) = if let Some(Op::KPut(c, k, x, e)) = &forced { (*c, *k, *x, *e) } else { (cls, k, x, e) };
                let mut t = TensorData::new();
                t.set("x", TensorValue::Scalar(ScalarValue::Int(x)));
                if let Some(e) = e {
                    t.set("_embedding", TensorValue::Vector(vec![e as f32; EMB_DIM]));
                }
                let imp = match store.put(Sys::raw_key(cls, k), t) {
                    Ok(()) => "ok".to_string(),
                    Err(e) => format!("err other:{}", vname(&e)),
                };
                ctx.rep.hit("raw:put");
                (imp, Op::KPut(cls, k, x, e).line())
            } else if w < 8 {
                let cls = r.below(3);
                let k = if cls == 0 { *r.pick(&fams) * 100 + r.below(3) } else { r.below(4) };
                let (cls, k) = if let Some(Op::KDel(c, k)) = &forced { (*c, *k) } else { (cls, k) };
                let imp = match store.delete(&Sys::raw_key(cls, k)) {
                    Ok(()) => "ok".to_string(),
                    Err(_) => "err notfound".to_string(),
                };
                ctx.rep.hit("raw:delete");
                (imp, Op::KDel(cls, k).line())
            } else if w == 8 || snaps.is_empty() {
                let bytes = store.snapshot_bytes().expect("snapshot_bytes");
                let img = raw_image(&store);
                let id = snaps.len();
                snaps.push((bytes, img, raw_image_of(&store, true), all_keys(&store)));
                ctx.rep.hit("raw:snapshot");
                (format!("id {id}"), "snap".to_string())
            } else {
                let id = if forced.is_some() { 0 } else { r.below(snaps.len() as u64) as usize };
                let imp = match store.restore_from_bytes(&snaps[id].0) {
                    Ok(()) => "ok".to_string(),
                    Err(e) => format!("err other:{}", vname(&e)),
                };
                ctx.rep.hit("raw:restore");
                {
                    let first: BTreeSet<u8> = snaps[id].3.iter().filter(|k| !k.starts_with("_cache:")).filter_map(|k| k.bytes().next()).collect();
                    if first.iter().map(|b| b % 16).collect::<BTreeSet<u8>>().len() < first.len() {
                        ctx.rep.hit("raw:restore_with_two_first_bytes_in_one_shard");
                    }
                }
                // the FULL key listing of the store (every family, nothing filtered)
                let keys_now = all_keys(&store);
                if keys_now != snaps[id].3 {
                    ctx.violation(
                        KEYS_LOST_CLASS,
                        &format!("scan(\"\") after restore_from_bytes lists {keys_now:?} where the snapshotted store listed {:?}", snaps[id].3),
                        json!({"ops": trace.clone(), "restore": id, "then": snaps[id].3, "now": keys_now}),
                    );
                }
                let now = raw_image(&store);
                if now != snaps[id].1 {
                    ctx.violation(
                        "tensor_store.restore_from_bytes/keys_not_restored",
                        "plain / cache / emb keys after restore_from_bytes differ from the snapshotted ones",
                        json!({"ops": trace.clone(), "then": snaps[id].1, "now": now}),
                    );
                } else {
                    let now_strict = raw_image_of(&store, true);
                    if now_strict != snaps[id].2 {
                        ctx.violation(
                            DENSE_CLASS,
                            &format!("restore_from_bytes brings every key and scalar field back, but a {EMB_DIM}-dim `_embedding` under an `emb:` key is not bit-exact (within {EMB_TOL} per component)"),
                            json!({"ops": trace.clone(), "restore": id, "then": snaps[id].2, "now": now_strict}),
                        );
                    }
                }
                (imp, format!("restore {id}"))
            };
            trace.push(line.clone());
            let mo = m.ask(&line);
            let tr = trace.clone();
            if !ctx.rep.compare("store_raw", || json!({"ops": tr}), &imp, &mo) {
                agreed = false;
                break;
            }
            let img = raw_image(&store);
            let mimg = m.ask(&obs_line());
            let mraw = mimg.split(" # R").nth(1).unwrap_or("").trim().to_string();
            let tr = trace.clone();
            if !ctx.rep.compare("store_raw", || json!({"ops": tr, "what": "image"}), &img, &mraw) {
                agreed = false;
                break;
            }
        }
        let key = trace.join(";");
        ctx.rep.case("store_raw", if agreed { Some(&key) } else { None });
    }
}

const DENSE_CLASS: &str = "tensor_store.restore_from_bytes/dense_embedding_perturbed";

/// what came back for one key after snapshot + delete + restore, against what was put
enum Back {
    Exact,
    /// the key, its scalar field and an `_embedding` of the same length are back, every component
    /// finite, but not bit-exact: (max abs error, components that differ)
    Perturbed(f32, usize),
    /// anything else (key / field missing, other length, scalar changed, non-finite values)
    Other(String),
}

fn embedding_back(store: &TensorStore, key: &str, want: &[f32], want_x: i64) -> Back {
    let t = match store.get(key) {
        Ok(t) => t,
        Err(e) => return Back::Other(format!("key {key} is gone: {e:?}")),
    };
    match t.get("x") {
        Some(TensorValue::Scalar(ScalarValue::Int(x))) if *x == want_x => {}
        other => return Back::Other(format!("key {key}: scalar field x holds {other:?}, was {want_x}")),
    }
    let after: Vec<f32> = match t.get("_embedding") {
        Some(TensorValue::Vector(v)) => v.clone(),
        Some(TensorValue::Sparse(s)) => s.to_dense(),
        other => return Back::Other(format!("key {key}: `_embedding` holds {other:?}")),
    };
    if after.len() != want.len() {
        return Back::Other(format!("key {key}: `_embedding` has {} components, had {}", after.len(), want.len()));
    }
    if after.iter().any(|x| !x.is_finite()) {
        return Back::Other(format!("key {key}: `_embedding` holds non-finite components"));
    }
    let differ = after.iter().zip(want).filter(|(a, b)| a.to_bits() != b.to_bits()).count();
    if differ == 0 {
        Back::Exact
    } else {
        Back::Perturbed(after.iter().zip(want).map(|(a, b)| (a - b).abs()).fold(0f32, f32::max), differ)
    }
}

/// Directed (runs before the seeded streams): `_embedding`s of the slab dimension (384) that are
/// dense (more than half of the components non-zero), which `EmbeddingSlab::snapshot` carries
/// through tensor-train compression.  None of them comes back bit-exact under an `emb:` key — a
/// non-constant one is off by up to about 5.9, a constant 2.5 or 3.0 by a few 1e-6: known finding
/// `tensor_store.restore_from_bytes/dense_embedding_perturbed` (Lean: the mechanism is
/// `dense_embedding_perturbed_witness`; the model's codec is the identity, so the model is compared
/// on the canonical form of `show_raw`).  The class is reported only for exactly that shape — an
/// `emb:` key (embedding-slab path), a dense vector of the slab dimension, key / scalar field /
/// length back and only the components off; everything else (the key or a field lost, another
/// length, the SAME vector under a `plain:` or `_cache:` key = no slab copy, a mostly-zero vector =
/// lossless sparse form, a short vector = stored dense) must be bit-exact, otherwise
/// `keys_not_restored`, which is not a listed class.
fn directed_dense_embedding(ctx: &mut Ctx) {
    let dense: Vec<f32> = (0..EMB_DIM).map(|i| ((i * 37 + 11) % 97) as f32 / 7.0 + 0.25).collect();
    let bits = |v: &[f32]| v.iter().map(|x| x.to_bits()).collect::<Vec<u32>>();
    let constant = vec![2.5f32; EMB_DIM];
    let constant_int = vec![3.0f32; EMB_DIM];
    let mostly_zero: Vec<f32> = (0..EMB_DIM).map(|i| if i % 3 == 0 { dense[i] } else { 0.0 }).collect();
    let short: Vec<f32> = dense[..8].to_vec();
    let entry = |x: i64, e: &[f32]| {
        let mut t = TensorData::new();
        t.set("x", TensorValue::Scalar(ScalarValue::Int(x)));
        t.set("_embedding", TensorValue::Vector(e.to_vec()));
        t
    };
    // (key, x, vector, is this the known shape?)
    let puts: Vec<(&str, i64, &[f32], bool)> = vec![
        ("emb:dense", 1, &dense, true),
        ("plain:dense", 2, &dense, false),
        ("_cache:dense", 3, &dense, false),
        ("emb:const", 4, &constant, true),
        ("emb:constint", 6, &constant_int, true),
        ("emb:mostlyzero", 7, &mostly_zero, false),
        ("emb:short", 5, &short, false),
    ];
    // (1) store level = what CheckpointManager::create / rollback call; (2) the statements
    for level in ["snapshot_bytes+restore_from_bytes", "CHECKPOINT+ROLLBACK"] {
        let sys = Sys::new_with(10, false);
        let own = TensorStore::new();
        let store: &TensorStore = if level.starts_with("CHECKPOINT") { sys.store() } else { &own };
        for (k, x, e, _) in &puts {
            store.put(*k, entry(*x, e)).expect("put");
        }
        let bytes = if level.starts_with("CHECKPOINT") {
            if let Err(e) = sys.router.execute_parsed("CHECKPOINT 'dense-raw'") {
                ctx.violation("query_router.rollback/target_resolution", &format!("CHECKPOINT failed: {e}"), json!({"directed": "dense_embedding"}));
                continue;
            }
            vec![]
        } else {
            store.snapshot_bytes().expect("snapshot_bytes")
        };
        for (k, ..) in &puts {
            store.delete(k).expect("delete");
        }
        if level.starts_with("CHECKPOINT") {
            if let Err(e) = sys.router.execute_parsed("ROLLBACK TO 'dense-raw'") {
                ctx.violation("query_router.rollback/target_resolution", &format!("ROLLBACK failed: {e}"), json!({"directed": "dense_embedding"}));
                continue;
            }
        } else {
            store.restore_from_bytes(&bytes).expect("restore");
        }
        ctx.rep.hit("directed:dense_embedding");
        for (k, x, e, known_shape) in &puts {
            let input = json!({"directed": "dense_embedding", "level": level, "key": k,
                "steps": ["put <key> {x, _embedding}", "snapshot / CHECKPOINT", "delete <key>", "restore / ROLLBACK", "get <key>"],
                "embedding": if *k == "emb:mostlyzero" { "e[i] = ((37 i + 11) mod 97) / 7 + 0.25 for i mod 3 = 0, else 0, i < 384".to_string() } else if e.len() == EMB_DIM && e[0] != e[1] { "e[i] = ((37 i + 11) mod 97) / 7 + 0.25, i < 384".to_string() } else { format!("{:?} (constant or short)", &e[..e.len().min(8)]) },
                "len": e.len()});
            match embedding_back(store, k, e, *x) {
                Back::Exact => {
                    ctx.rep.hit(if *known_shape { "directed:dense_embedding_exact" } else { "directed:dense_embedding_control_exact" });
                }
                Back::Perturbed(max_err, differ) if *known_shape => {
                    ctx.rep.hit("directed:dense_embedding_perturbed");
                    ctx.violation(
                        DENSE_CLASS,
                        &format!("{level}: a dense {}-dim `_embedding` under `{k}` is not bit-exact afterwards ({differ} components differ, max abs error {max_err}) while key, scalar field and length are back: the snapshot carries the embedding-slab copy through tensor-train compression and the restore re-puts it over the exact value kept in the metadata slab", e.len()),
                        input,
                    );
                }
                Back::Perturbed(max_err, differ) => ctx.violation(
                    "tensor_store.restore_from_bytes/keys_not_restored",
                    &format!("{level}: the `_embedding` under `{k}` (not the dense `emb:` slab shape) is not bit-exact afterwards ({differ} components differ, max abs error {max_err})"),
                    input,
                ),
                Back::Other(what) => ctx.violation(
                    "tensor_store.restore_from_bytes/keys_not_restored",
                    &format!("{level}: {what}"),
                    input,
                ),
            }
        }
    }
    // (1b) a rollback whose image does not decode must leave the live store as it is
    // (`restore_from_bytes` decodes BEFORE it clears): garbage, a truncated image, an empty one
    {
        let st = TensorStore::new();
        for (k, x) in [("plain:1", 1i64), ("_cache:c1", 2), ("emb:e1", 3)] {
            let mut t = TensorData::new();
            t.set("x", TensorValue::Scalar(ScalarValue::Int(x)));
            if k.starts_with("emb:") {
                t.set("_embedding", TensorValue::Vector(vec![2.0; EMB_DIM]));
            }
            st.put(k, t).expect("put");
        }
        let good = st.snapshot_bytes().expect("snapshot_bytes");
        let before = raw_image(&st);
        for (what, bytes) in [("garbage", vec![0xAB_u8; 64]), ("truncated", good[..good.len() / 2].to_vec()), ("empty", vec![])] {
            ctx.rep.hit("directed:undecodable_image");
            let r = st.restore_from_bytes(&bytes);
            let after = raw_image(&st);
            if r.is_ok() || after != before {
                ctx.violation(
                    "tensor_store.restore_from_bytes/failed_restore_changed_store",
                    &format!("restore_from_bytes of a {what} image answered {:?} and left [{after}] where the store held [{before}]", r.is_ok()),
                    json!({"image": what}),
                );
            }
        }
    }
    // (2) the vector engine's own path (`vector` field, metadata slab only): must be exact
    let sys = Sys::new_with(10, false);
    let v = sys.router.vector();
    v.store_embedding("dense", dense.clone()).expect("store_embedding");
    let ck = sys.router.execute_parsed("CHECKPOINT 'dense'");
    let _ = v.delete_embedding("dense");
    let rb = sys.router.execute_parsed("ROLLBACK TO 'dense'");
    match v.get_embedding("dense") {
        Ok(back) if bits(&back) == bits(&dense) => ctx.rep.hit("directed:dense_vector_engine_exact"),
        other => ctx.violation(
            "query_router.rollback/vector_state_not_restored",
            "a dense 384-dim embedding stored through the vector engine is not bit-exact after CHECKPOINT / EMBED DELETE / ROLLBACK",
            json!({"checkpoint": format!("{ck:?}"), "rollback": format!("{rb:?}"), "got": format!("{:?}", other.map(|v| v.len()))}),
        ),
    }
}

/// Asides the coordinator declared outside this property's quantifier: recorded as observations
/// (what the code does today), never as violations.
fn directed_asides(ctx: &mut Ctx) {
    // DROP TABLE through the text API with auto-checkpoint protection on
    let sys = Sys::new_with(10, true);
    let _ = sys.apply(&Op::RCreate(0));
    let _ = sys.apply(&Op::RIns(0, 1, 2));
    let before = sys.listing().len();
    let ans = match sys.router.execute_parsed("DROP TABLE t0") {
        Ok(r) => format!("ok {r:?}"),
        Err(e) => format!("err {e}"),
    };
    let fresh: Vec<String> = sys.listing().into_iter().skip(before).map(|c| c.1).collect();
    ctx.rep.observe(json!({"aside": "auto-checkpoint of DROP TABLE",
        "what": "DROP TABLE through execute_parsed with auto_checkpoint on: auto-checkpoints made by the statement (DELETE FROM / NODE DELETE / EMBED DELETE make one each, checked in the auto stream)",
        "answer": ans, "checkpoints_listed_before": before, "checkpoints_made": fresh}));
    // a negative component in a SIMILAR vector literal (C15 finding negative_number_rejected)
    let ans = match sys.router.execute_parsed("SIMILAR [-1.0, 0.0, 1.0] LIMIT 4") {
        Ok(_) => "accepted".to_string(),
        Err(e) => format!("rejected: {e}"),
    };
    ctx.rep.observe(json!({"aside": "negative number in SIMILAR",
        "what": "SIMILAR with a negative component through execute_parsed (the text-API cross-check of this harness therefore uses non-negative query vectors only)",
        "answer": ans}));
}

const SLAB_DIM: usize = 4;

fn slab_vec(v: i64) -> Vec<f32> {
    vec![v as f32, 1.0, 0.0, 0.0]
}

/// every (entity:vector) the real slab answers, entities 0..16, by entity
fn slab_image(slab: &EmbeddingSlab) -> String {
    let mut out = vec![];
    for e in 0..16u64 {
        if let Some(v) = slab.get(EntityId::new(e)) {
            if v.len() == SLAB_DIM && v[1] == 1.0 && v[2] == 0.0 && v[3] == 0.0 && v[0] == v[0].trunc() {
                out.push(format!("{e}:{}", v[0] as i64));
            } else {
                out.push(format!("{e}:?{v:?}"));
            }
        }
    }
    out.join(",")
}

/// the slot allocator of `EmbeddingSlab` (what `restore_from_bytes` = clear + re-put runs on):
/// set / delete / clear / compact / snapshot+restore on a bare slab against the slot-level model,
/// with a harness-side last-write oracle (entity -> vector) evaluated on the real slab alone
fn stream_slab(ctx: &mut Ctx, m: &mut Model, rng: &Rng, cases: usize) {
    let mut r = rng.fork("slab");
    let directed: Vec<Vec<&str>> = vec![
        // the shape of a rollback after a delete: freed slot, clear, restore of two vectors
        vec!["set 1 10", "set 2 20", "del 1", "clear", "set 4 44", "set 5 55"],
        vec!["set 1 10", "set 2 20", "set 3 30", "del 1", "del 2", "compact", "set 4 44", "set 5 55", "set 6 66"],
        vec!["set 1 10", "set 2 20", "del 1", "reload", "set 4 44", "set 5 55", "del 4", "clear", "set 6 1", "set 7 2", "set 8 3"],
    ];
    let n_dir = directed.len();
    for case in 0..(n_dir + cases) {
        let mut slab = EmbeddingSlab::new(SLAB_DIM, 1 + r.below(3) as usize);
        m.ask("sl reset");
        let mut want: BTreeMap<u64, i64> = BTreeMap::new();
        let mut trace: Vec<String> = vec![];
        let len = if case < n_dir { directed[case].len() } else { 8 + r.below(40) as usize };
        let mut agreed = true;
        for i in 0..len {
            let line = if case < n_dir {
                directed[case][i].to_string()
            } else {
                match r.below(20) {
                    0..=9 => format!("set {} {}", r.below(8), r.range(-9, 10)),
                    10..=14 => format!("del {}", r.below(8)),
                    15..=16 => "clear".to_string(),
                    17..=18 => "compact".to_string(),
                    _ => "reload".to_string(),
                }
            };
            let w: Vec<&str> = line.split(' ').collect();
            ctx.rep.hit(&format!("slab:{}", w[0]));
            match w[0] {
                "set" => {
                    let (e, v): (u64, i64) = (w[1].parse().unwrap(), w[2].parse().unwrap());
                    if slab.set(EntityId::new(e), &slab_vec(v)).is_ok() {
                        want.insert(e, v);
                    }
                }
                "del" => {
                    let e: u64 = w[1].parse().unwrap();
                    let had = slab.delete(EntityId::new(e));
                    if had != want.remove(&e).is_some() {
                        ctx.violation("tensor_store.embedding_slab/delete_answer", "delete answered the opposite of whether the entity had a vector", json!({"ops": trace.clone(), "op": line}));
                    }
                }
                "clear" => {
                    slab.clear();
                    want.clear();
                }
                "compact" => {
                    if let Err(e) = slab.compact() {
                        ctx.violation("tensor_store.embedding_slab/compact_failed", &format!("{e}"), json!({"ops": trace.clone()}));
                    }
                }
                _ => {
                    slab = EmbeddingSlab::restore(slab.snapshot());
                }
            }
            trace.push(line.clone());
            let img = slab_image(&slab);
            // property oracle on the real slab alone: every entity reads its own last vector
            let expect = want.iter().map(|(e, v)| format!("{e}:{v}")).collect::<Vec<_>>().join(",");
            if img != expect || slab.len() != want.len() {
                ctx.violation(
                    "tensor_store.embedding_slab/vector_aliased_or_lost",
                    &format!("the slab answers [{img}] (len {}) where the last writes are [{expect}]: a vector is read through another entity's slot, or lost", slab.len()),
                    json!({"ops": trace.clone()}),
                );
            }
            let mo = m.ask(&format!("sl {line}"));
            let tr = trace.clone();
            if !ctx.rep.compare("slab", || json!({"ops": tr}), &img, &mo) {
                agreed = false;
                break;
            }
        }
        let key = trace.join(";");
        ctx.rep.case("slab", if agreed && !want.is_empty() { Some(&key) } else { None });
    }
}

fn raw_image_of(st: &TensorStore, strict: bool) -> String {
    let mut raw: Vec<(u64, String)> = vec![];
    for key in st.scan("") {
        let (code, name) = if let Some(k) = plain_code(&key) {
            (k, format!("m{k}"))
        } else if let Some(k) = key.strip_prefix("_cache:c").and_then(|s| s.parse::<u64>().ok()) {
            (1_000_000 + k, format!("c{k}"))
        } else if let Some(k) = key.strip_prefix("emb:e").and_then(|s| s.parse::<u64>().ok()) {
            (2_000_000 + k, format!("e{k}"))
        } else {
            continue;
        };
        if let Ok(t) = st.get(&key) {
            raw.push((code, format!("{name}={}", show_raw(&t, strict))));
        }
    }
    raw.sort();
    raw.into_iter().map(|p| p.1).collect::<Vec<_>>().join(",")
}

/// canonical (model-comparable) raw image
fn raw_image(st: &TensorStore) -> String {
    raw_image_of(st, false)
}

fn main() {
    let args = parse_args();
    let mut m = Model::spawn(&args.driver);
    let rep = Report::new(
        "a case is one statement sequence run on a fresh router and the model with the full image compared after every statement; non-trivial = at least one statement succeeded and changed state; distinct = distinct statement traces",
    );
    let mut ctx = Ctx { rep, per_class: BTreeMap::new() };
    ctx.rep.expected_branches = [
        "op:rcreate", "op:rdrop", "op:rins", "op:rdel", "op:rhidx", "op:rbidx", "op:gnode", "op:gedge", "op:gdeln",
        "op:gdele", "op:vput", "op:vdel", "op:vbuild", "op:kput", "op:kdel", "op:ckpt", "op:rollback",
        "op:ckpt_named", "op:rollback_by_id", "op:ckdel", "op:cktop", "rollback:listed_id_also_a_name", "rollback:unlisted_id_by_name", "ckdel:listed_id_also_a_name", "gen:shadow_pair_injected", "gen:emb_ids_prelude", "raw:emb_ids_prelude",
        "rollback:by_shared_or_foreign_name", "blob_chunk:default", "blob_chunk:small_shared", "text_api:checked_after_rollback", "text_api:checked_at_checkpoint", "directed:dense_embedding", "directed:undecodable_image", "directed:dense_vector_engine_exact", "op:text_delete", "op:text_node_delete", "op:text_embed_delete", "auto_checkpoint:created", "op:ckpt_real", "op:ckall", "auto_checkpoint:at_retention_limit", "auto_checkpoint:evicted_one_at_limit", "create:at_retention_limit", "ckall:at_retention_limit", "autoret:no_tie_needed", "autoret:tie_regime", "slab:set", "slab:del", "slab:clear", "slab:compact", "slab:reload",
        "witness:shard_families", "rollback:full_key_set_compared", "rollback:full_key_set_with_older_checkpoint_blobs", "rollback:older_checkpoint_in_snapshot",
        "families:plain:", "families:user:", "families:order:", "families:Note:", "families:~tmp:", "families:Product:", "families:table:", "families:doc:", "families:item:", "families:/path:",
        "mdslab:set", "mdslab:del", "mdslab:reload", "mdslab:reload_with_two_first_bytes_in_one_shard", "raw:restore_with_two_first_bytes_in_one_shard",
        "res:ok", "res:id", "res:count", "res:err notfound", "res:err exists", "res:err storage",
        "retention:tie_at_boundary", "retention:incremental", "retention:bulk", "raw:restore",
        "directed:tensor_store.restore_from_bytes/relational_tables_lost",
        "directed:query_router.rollback/writes_fail_after_rollback",
        "directed:query_router.rollback/stale_index_after_rollback",
        "directed:query_router.rollback/stale_hnsw_cache_after_rollback",
        "directed:query_router.rollback/checkpoints_lost_after_rollback",
        "directed:tensor_checkpoint.retention/newer_dropped_on_timestamp_tie",
        "directed:tensor_store.restore_from_bytes/dense_embedding_perturbed",
        "directed:dense_embedding_control_exact",
    ]
    .iter()
    .map(|s| s.to_string())
    .collect();
    let rng = Rng::new(args.seed);
    let scale = if args.thorough { 24 } else { 4 };
    let t0 = std::time::Instant::now();
    // directed, seed-independent reproductions first: every listed finding class must have fired
    // before any seeded stream runs
    stream_shard_directed(&mut ctx, &mut m);
    stream_witness(&mut ctx, &mut m);
    stream_retention_tie_directed(&mut ctx, &mut m);
    directed_dense_embedding(&mut ctx);
    directed_asides(&mut ctx);
    let directed: Vec<String> = ctx.per_class.keys().cloned().collect();
    for c in &directed {
        ctx.rep.hit(&format!("directed:{c}"));
    }
    ctx.rep.note(&format!("violation classes reproduced by the directed cases before the seeded streams: {}", directed.join(", ")));
    let mut lap = t0.elapsed().as_secs_f64();
    let mut laps: Vec<String> = vec![format!("directed {lap:.1}s")];
    let mut mark = |name: &str, laps: &mut Vec<String>| {
        let now = t0.elapsed().as_secs_f64();
        laps.push(format!("{name} {:.1}s", now - lap));
        lap = now;
    };
    stream_router(&mut ctx, &mut m, &rng, 60 * scale, Mode::Router, "router");
    mark("router", &mut laps);
    stream_router(&mut ctx, &mut m, &rng, 60 * scale, Mode::Manager, "manager");
    mark("manager", &mut laps);
    stream_router(&mut ctx, &mut m, &rng, 15 * scale, Mode::Auto, "auto");
    mark("auto", &mut laps);
    stream_autoret(&mut ctx, &mut m, &rng, 25 * scale);
    mark("autoret", &mut laps);
    stream_families(&mut ctx, &mut m, &rng, 20 * scale);
    mark("families", &mut laps);
    stream_retention(&mut ctx, &mut m, &rng, 300 * scale);
    mark("retention", &mut laps);
    stream_store_raw(&mut ctx, &mut m, &rng, 150 * scale);
    mark("store_raw", &mut laps);
    stream_slab(&mut ctx, &mut m, &rng, 60 * scale);
    mark("slab", &mut laps);
    stream_mdslab(&mut ctx, &mut m, &rng, 100 * scale);
    mark("mdslab", &mut laps);
    ctx.rep.note(&format!("stream wall times: {}", laps.join(", ")));
    ctx.rep.note(&format!("harness wall time {:.1}s; model lines {}", t0.elapsed().as_secs_f64(), m.lines));
    ctx.rep.note("created_at of router-made checkpoints is wall-clock seconds and cannot be set from outside: the router and auto streams never let retention trigger (max 10, fewer checkpoints); retention with controlled and tied timestamps is exercised through CheckpointStorage::store + RetentionManager::enforce in the manager and retention streams; the REAL creation paths at the limit — CheckpointManager::create_auto (destructive text statements) and CheckpointManager::create (CHECKPOINT) — run in the autoret stream and its directed cases over a listing filled with harness-clock checkpoints, which every wall-clock checkpoint is strictly newer than; the bound is judged on CheckpointManager::list(None) after every statement of every stream");
    ctx.rep.note("the by_tag listing order among equal created_at is a per-call hash order; the model takes it as an input reconstructed from the observed outcome (kept ids first), so a disagreement there means the outcome is not explainable by any order");
    let _ = BTreeSet::<u8>::new();
    ctx.rep.write(&args.out);
}
