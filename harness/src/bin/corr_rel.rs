//! C04 correspondence + oracles: the real `relational_engine` (and `query_router` text path) vs the Lean
//! relational model, every query through every execution strategy.
//!
//! Per case three real engines receive the same data operations:
//!   E0   – never has an index (full scan strategy),
//!   EALL – lives inside a `QueryRouter`; hash + B-tree index on every column and `_id` from creation
//!          (index maintained incrementally through every insert/update/delete); text queries go here,
//!   EM   – follows the generated create/drop index operations; mirrors the Lean model state.
//! Oracle = harness-side reference evaluation of the condition over E0's full table image.
//! Every strategy of every engine must equal the oracle (else `rep.violation`), and EM's answers must equal the
//! model's answers strategy by strategy (else disagreement).
use nverif::*;
use relational_engine::{
    Column, ColumnType, ColumnarScanOptions, Condition, CursorOptions, RelationalConfig, RelationalEngine,
    RelationalError, Row, Schema, Value,
};
use serde_json::json;
use std::cmp::Ordering;
use std::collections::HashMap;

// ------------------------------------------------------------------ values

#[derive(Clone, Copy, Debug, PartialEq)]
enum Ty {
    Int,
    Float,
    Str,
    Bool,
    Bytes,
    Json,
}

fn ty_char(t: Ty) -> char {
    match t {
        Ty::Int => 'i',
        Ty::Float => 'f',
        Ty::Str => 's',
        Ty::Bool => 'b',
        Ty::Bytes => 'y',
        Ty::Json => 'j',
    }
}
fn ty_col(t: Ty) -> ColumnType {
    match t {
        Ty::Int => ColumnType::Int,
        Ty::Float => ColumnType::Float,
        Ty::Str => ColumnType::String,
        Ty::Bool => ColumnType::Bool,
        Ty::Bytes => ColumnType::Bytes,
        Ty::Json => ColumnType::Json,
    }
}

fn tok(v: &Value) -> String {
    match v {
        Value::Null => "n".into(),
        Value::Int(i) => format!("i{i}"),
        Value::Float(f) => format!("f{:016x}", f.to_bits()),
        Value::String(s) => format!("s{}", hex(s.as_bytes())),
        Value::Bool(b) => if *b { "b1".into() } else { "b0".into() },
        Value::Bytes(b) => format!("y{}", hex(b)),
        Value::Json(j) => format!("j{}~{}", json_tree(j), hex_raw(j.to_string().as_bytes())),
        #[allow(unreachable_patterns)]
        _ => "?".into(),
    }
}

fn hex_raw(bytes: &[u8]) -> String {
    bytes.iter().map(|b| format!("{b:02x}")).collect()
}

/// prefix code of a JSON tree for the model driver (see Driver.lean): the kind of every number
/// (`PosInt` / `NegInt` / `Float`, floats as bit patterns) is explicit; object fields come in `BTreeMap` order
fn json_tree(j: &serde_json::Value) -> String {
    match j {
        serde_json::Value::Null => "z".into(),
        serde_json::Value::Bool(b) => if *b { "t".into() } else { "f".into() },
        serde_json::Value::Number(n) => {
            if let Some(u) = n.as_u64() {
                format!("u{u};")
            } else if let Some(i) = n.as_i64() {
                format!("m{};", i.unsigned_abs())
            } else {
                format!("d{:016x}", n.as_f64().unwrap_or(f64::NAN).to_bits())
            }
        },
        serde_json::Value::String(s) => format!("s{};", hex_raw(s.as_bytes())),
        serde_json::Value::Array(items) => format!("a{}]", items.iter().map(json_tree).collect::<String>()),
        serde_json::Value::Object(fields) => {
            format!("o{}}}", fields.iter().map(|(k, v)| format!("s{};{}", hex_raw(k.as_bytes()), json_tree(v))).collect::<String>())
        },
    }
}

/// reference equality of JSON values, written out (not `serde_json`'s `==`): numbers are equal when they are
/// of the same kind (non-negative integer / negative integer / float) with equal payload, floats by `f64 ==`
fn j_eq(a: &serde_json::Value, b: &serde_json::Value) -> bool {
    use serde_json::Value as J;
    match (a, b) {
        (J::Null, J::Null) => true,
        (J::Bool(x), J::Bool(y)) => x == y,
        (J::Number(x), J::Number(y)) => {
            if x.is_u64() || y.is_u64() {
                x.is_u64() && y.is_u64() && x.as_u64() == y.as_u64()
            } else if x.is_i64() || y.is_i64() {
                x.is_i64() && y.is_i64() && x.as_i64() == y.as_i64()
            } else {
                matches!((x.as_f64(), y.as_f64()), (Some(p), Some(q)) if p == q)
            }
        },
        (J::String(x), J::String(y)) => x.as_bytes() == y.as_bytes(),
        (J::Array(x), J::Array(y)) => x.len() == y.len() && x.iter().zip(y.iter()).all(|(p, q)| j_eq(p, q)),
        (J::Object(x), J::Object(y)) => {
            x.len() == y.len() && x.iter().all(|(k, p)| y.get(k).is_some_and(|q| j_eq(p, q)))
        },
        _ => false,
    }
}

/// the JSON value with every floating-point zero written `0.0` (for classification only)
fn j_pos_zeros(j: &serde_json::Value) -> serde_json::Value {
    use serde_json::Value as J;
    match j {
        J::Number(n) if !n.is_u64() && !n.is_i64() && n.as_f64() == Some(0.0) => J::from(0.0_f64),
        J::Array(items) => J::Array(items.iter().map(j_pos_zeros).collect()),
        J::Object(fields) => J::Object(fields.iter().map(|(k, v)| (k.clone(), j_pos_zeros(v))).collect()),
        other => other.clone(),
    }
}

/// the same JSON value with the sign of every floating-point zero flipped: equal to the original, rendered differently
fn j_flip_zeros(j: &serde_json::Value) -> serde_json::Value {
    use serde_json::Value as J;
    match j {
        J::Number(n) if !n.is_u64() && !n.is_i64() && n.as_f64() == Some(0.0) => {
            J::from(if n.as_f64().is_some_and(f64::is_sign_negative) { 0.0_f64 } else { -0.0_f64 })
        },
        J::Array(items) => J::Array(items.iter().map(j_flip_zeros).collect()),
        J::Object(fields) => J::Object(fields.iter().map(|(k, v)| (k.clone(), j_flip_zeros(v))).collect()),
        other => other.clone(),
    }
}

/// JSON values: every kind, both float zeros bare and nested, integer zero, numbers that differ only in kind
/// (`1` / `1.0`), strings that need escaping, strings that look like numbers.  Floats are small dyadic numbers:
/// their shortest decimal rendering parses back exactly (the slab stores JSON as text).
fn json_specials() -> Vec<serde_json::Value> {
    use serde_json::json as j;
    vec![
        j!(-0.0), j!(0.0), j!(0), j!({"a": -0.0}), j!({"a": 0.0}), j!([0.0]), j!([-0.0]), j!(1), j!(1.0), j!(-1), j!(-1.0),
        j!("x"), j!(""), j!("0.0"), j!("a\"b\n"), j!("é"), j!(null), j!(true), j!(false), j!({}), j!([]),
        j!({"a": 0.0, "b": 1}), j!({"a": -0.0, "b": 1}), j!({"b": [1, {"c": -0.0}], "a": null}), j!({"b": [1, {"c": 0.0}], "a": null}),
        j!([1, [-0.0, 0.0]]), j!([1, [0.0, 0.0]]), j!(2.5), j!(-2.5), j!(0.5), j!(u64::MAX), j!(i64::MIN), j!([0]), j!([0.0, 0]),
    ]
}

const FLOAT_SPECIALS: [u64; 22] = [
    0x0000_0000_0000_0000, // +0.0
    0x8000_0000_0000_0000, // -0.0
    0x7ff0_0000_0000_0000, // +inf
    0xfff0_0000_0000_0000, // -inf
    0x7ff8_0000_0000_0000, // NaN
    0xfff8_0000_0000_0000, // -NaN
    0x7ff0_0000_0000_0001, // signalling NaN
    0x3ff0_0000_0000_0000, // 1.0
    0x3ff0_0000_0000_0001, // 1.0 + ulp
    0xbff0_0000_0000_0000, // -1.0
    0xbff8_0000_0000_0000, // -1.5
    0x4000_0000_0000_0000, // 2.0
    0x0000_0000_0000_0001, // min subnormal
    0x8000_0000_0000_0001, // -min subnormal
    0x7fef_ffff_ffff_ffff, // MAX
    0xffef_ffff_ffff_ffff, // MIN
    0x3cb0_0000_0000_0000, // 2^-52 (epsilon)
    0x3c90_0000_0000_0000, // 2^-54 (< epsilon)
    0x4008_0000_0000_0000, // 3.0
    0x4014_0000_0000_0000, // 5.0
    0x3fe0_0000_0000_0000, // 0.5
    0xc000_0000_0000_0000, // -2.0
];
const INT_SPECIALS: [i64; 10] = [i64::MIN, i64::MAX, i64::MIN + 1, i64::MAX - 1, -1, 0, 1, 2, 3, 5];
const STR_SPECIALS: [&str; 12] = ["", "a", "ab", "b", "A", "é", "日本", "a:b", "z", "aa", "ß", "\u{10348}"];
const BYTES_SPECIALS: [&[u8]; 7] = [&[], &[0], &[0xff], &[1, 2], &[1], &[0, 0], &[0x80, 0x7f]];

fn gen_val(r: &mut Rng, ty: Ty) -> Value {
    match ty {
        Ty::Int => {
            if r.chance(1, 3) {
                Value::Int(*r.pick(&INT_SPECIALS))
            } else {
                Value::Int(r.range(-3, 6))
            }
        },
        Ty::Float => {
            if r.chance(3, 5) {
                Value::Float(f64::from_bits(*r.pick(&FLOAT_SPECIALS)))
            } else if r.chance(1, 8) {
                Value::Float(f64::from_bits(r.next_u64()))
            } else {
                Value::Float(r.range(-3, 6) as f64)
            }
        },
        Ty::Str => Value::String((*r.pick(&STR_SPECIALS)).to_string()),
        Ty::Bool => Value::Bool(r.chance(1, 2)),
        Ty::Bytes => Value::Bytes(r.pick(&BYTES_SPECIALS).to_vec()),
        Ty::Json => {
            let sp = json_specials();
            Value::Json(match r.below(10) {
                0 => serde_json::Value::Array(vec![r.pick(&sp).clone(), r.pick(&sp).clone()]),
                1 => {
                    let mut m = serde_json::Map::new();
                    m.insert((*r.pick(&["a", "b", ""])).to_string(), r.pick(&sp).clone());
                    m.insert((*r.pick(&["a", "c"])).to_string(), r.pick(&sp).clone());
                    serde_json::Value::Object(m)
                },
                2 => serde_json::json!(r.range(-3, 6) as f64 / 4.0),
                _ => r.pick(&sp).clone(),
            })
        },
    }
}

// ------------------------------------------------------------------ conditions (harness-side tree)

#[derive(Clone, Debug, PartialEq)]
enum ColSel {
    Id,
    Col(usize),
    Unknown,
}

#[derive(Clone, Copy, Debug, PartialEq)]
enum Cmp {
    Eq,
    Ne,
    Lt,
    Le,
    Gt,
    Ge,
}

#[derive(Clone, Debug)]
enum Cond {
    True,
    Leaf(Cmp, ColSel, Value),
    And(Box<Cond>, Box<Cond>),
    Or(Box<Cond>, Box<Cond>),
}

fn col_name(c: &ColSel) -> String {
    match c {
        ColSel::Id => "_id".into(),
        ColSel::Col(i) => format!("c{i}"),
        ColSel::Unknown => "zz".into(),
    }
}
fn col_model(c: &ColSel) -> String {
    match c {
        ColSel::Id => "_id".into(),
        ColSel::Col(i) => format!("c{i}"),
        ColSel::Unknown => "c99".into(),
    }
}

fn to_engine(c: &Cond) -> Condition {
    match c {
        Cond::True => Condition::True,
        Cond::Leaf(op, col, v) => {
            let n = col_name(col);
            let v = v.clone();
            match op {
                Cmp::Eq => Condition::Eq(n, v),
                Cmp::Ne => Condition::Ne(n, v),
                Cmp::Lt => Condition::Lt(n, v),
                Cmp::Le => Condition::Le(n, v),
                Cmp::Gt => Condition::Gt(n, v),
                Cmp::Ge => Condition::Ge(n, v),
            }
        },
        Cond::And(a, b) => Condition::And(Box::new(to_engine(a)), Box::new(to_engine(b))),
        Cond::Or(a, b) => Condition::Or(Box::new(to_engine(a)), Box::new(to_engine(b))),
    }
}

fn to_model(c: &Cond) -> String {
    match c {
        Cond::True => "T".into(),
        Cond::Leaf(op, col, v) => {
            let o = match op {
                Cmp::Eq => "eq",
                Cmp::Ne => "ne",
                Cmp::Lt => "lt",
                Cmp::Le => "le",
                Cmp::Gt => "gt",
                Cmp::Ge => "ge",
            };
            format!("{o} {} {}", col_model(col), tok(v))
        },
        Cond::And(a, b) => format!("and {} {}", to_model(a), to_model(b)),
        Cond::Or(a, b) => format!("or {} {}", to_model(a), to_model(b)),
    }
}

// ---- reference semantics (independent of the engine's code): derived PartialEq / partial order of values

fn h_eq(a: &Value, b: &Value) -> bool {
    match (a, b) {
        (Value::Null, Value::Null) => true,
        (Value::Int(x), Value::Int(y)) => x == y,
        (Value::Float(x), Value::Float(y)) => x == y,
        (Value::String(x), Value::String(y)) => x.as_bytes() == y.as_bytes(),
        (Value::Bool(x), Value::Bool(y)) => x == y,
        (Value::Bytes(x), Value::Bytes(y)) => x == y,
        (Value::Json(x), Value::Json(y)) => j_eq(x, y),
        _ => false,
    }
}
fn h_cmp(a: &Value, b: &Value) -> Option<Ordering> {
    match (a, b) {
        (Value::Int(x), Value::Int(y)) => Some(x.cmp(y)),
        (Value::Float(x), Value::Float(y)) => x.partial_cmp(y),
        (Value::String(x), Value::String(y)) => Some(x.as_bytes().cmp(y.as_bytes())),
        (Value::Bytes(x), Value::Bytes(y)) => Some(x.cmp(y)),
        // JSON values are ordered by their rendered text
        (Value::Json(x), Value::Json(y)) => Some(x.to_string().as_bytes().cmp(y.to_string().as_bytes())),
        _ => None,
    }
}
type Img = Vec<(u64, Vec<Value>)>;

fn h_get(id: u64, vals: &[Value], c: &ColSel) -> Option<Value> {
    match c {
        ColSel::Id => Some(Value::Int(id as i64)),
        ColSel::Col(i) => vals.get(*i).cloned(),
        ColSel::Unknown => None,
    }
}
fn h_eval(c: &Cond, id: u64, vals: &[Value]) -> bool {
    match c {
        Cond::True => true,
        Cond::Leaf(op, col, v) => {
            let x = h_get(id, vals, col);
            match op {
                Cmp::Eq => x.map_or(false, |x| h_eq(&x, v)),
                Cmp::Ne => x.map_or(true, |x| !h_eq(&x, v)),
                Cmp::Lt => x.and_then(|x| h_cmp(&x, v)).map_or(false, |o| o == Ordering::Less),
                Cmp::Le => x.and_then(|x| h_cmp(&x, v)).map_or(false, |o| o != Ordering::Greater),
                Cmp::Gt => x.and_then(|x| h_cmp(&x, v)).map_or(false, |o| o == Ordering::Greater),
                Cmp::Ge => x.and_then(|x| h_cmp(&x, v)).map_or(false, |o| o != Ordering::Less),
            }
        },
        Cond::And(a, b) => h_eval(a, id, vals) && h_eval(b, id, vals),
        Cond::Or(a, b) => h_eval(a, id, vals) || h_eval(b, id, vals),
    }
}
fn oracle_ids(c: &Cond, img: &Img) -> Vec<u64> {
    img.iter().filter(|(id, vals)| h_eval(c, *id, vals)).map(|(id, _)| *id).collect()
}

// ------------------------------------------------------------------ text rendering

fn simple_text_string(s: &str) -> bool {
    let up = s.to_uppercase();
    !s.is_empty()
        && s.chars().all(|ch| ch.is_alphanumeric())
        && !["AND", "OR", "LIMIT", "WHERE", "FROM", "NULL", "TRUE", "FALSE", "SET", "NAN", "INF"].contains(&up.as_str())
}

/// legacy `QueryRouter::execute` grammar: `col op value`, joined by one kind of connective only
fn legacy_value(v: &Value) -> Option<String> {
    match v {
        Value::Null => Some("NULL".into()),
        Value::Bool(b) => Some(if *b { "TRUE".into() } else { "FALSE".into() }),
        Value::Int(i) => Some(i.to_string()),
        Value::Float(f) => {
            let s = format!("{f:?}");
            let back: f64 = s.parse().ok()?;
            if back.to_bits() == f.to_bits() && s.parse::<i64>().is_err() && !s.contains('e') && !f.is_nan() {
                Some(s)
            } else {
                None
            }
        },
        Value::String(s) => {
            if s.is_empty() || simple_text_string(s) {
                Some(format!("\"{s}\""))
            } else {
                None
            }
        },
        _ => None,
    }
}
fn cmp_sym(op: Cmp) -> &'static str {
    match op {
        Cmp::Eq => "=",
        Cmp::Ne => "!=",
        Cmp::Lt => "<",
        Cmp::Le => "<=",
        Cmp::Gt => ">",
        Cmp::Ge => ">=",
    }
}
fn legacy_leaf(c: &Cond) -> Option<String> {
    if let Cond::Leaf(op, col, v) = c {
        Some(format!("{} {} {}", col_name(col), cmp_sym(*op), legacy_value(v)?))
    } else {
        None
    }
}
/// right-nested chains `a AND (b AND c)` / `a OR (b OR c)` of leaves render unambiguously
fn legacy_text(c: &Cond) -> Option<String> {
    fn chain(c: &Cond, and: bool) -> Option<String> {
        match c {
            Cond::And(a, b) if and => Some(format!("{} AND {}", legacy_leaf(a)?, chain(b, true)?)),
            Cond::Or(a, b) if !and => Some(format!("{} OR {}", legacy_leaf(a)?, chain(b, false)?)),
            Cond::Leaf(..) => legacy_leaf(c),
            _ => None,
        }
    }
    match c {
        Cond::Leaf(..) => legacy_leaf(c),
        Cond::And(..) => chain(c, true),
        Cond::Or(..) => chain(c, false),
        Cond::True => None,
    }
}

/// parser grammar (`execute_parsed`): full trees with parentheses; only literals the grammar has
fn parsed_value(v: &Value) -> Option<String> {
    match v {
        Value::Null => Some("NULL".into()),
        Value::Bool(b) => Some(if *b { "TRUE".into() } else { "FALSE".into() }),
        Value::Int(i) if *i >= 0 => Some(i.to_string()),
        Value::Float(f) if f.is_finite() && f.is_sign_positive() => {
            let s = format!("{f:?}");
            if s.contains('e') || !s.contains('.') {
                return None;
            }
            let back: f64 = s.parse().ok()?;
            if back.to_bits() == f.to_bits() {
                Some(s)
            } else {
                None
            }
        },
        Value::String(s) if s.is_empty() || simple_text_string(s) => Some(format!("'{s}'")),
        _ => None,
    }
}
fn parsed_text(c: &Cond) -> Option<String> {
    match c {
        Cond::True => None,
        Cond::Leaf(op, col, v) => {
            if *col == ColSel::Unknown {
                return None;
            }
            Some(format!("{} {} {}", col_name(col), cmp_sym(*op), parsed_value(v)?))
        },
        Cond::And(a, b) => Some(format!("({} AND {})", parsed_text(a)?, parsed_text(b)?)),
        Cond::Or(a, b) => Some(format!("({} OR {})", parsed_text(a)?, parsed_text(b)?)),
    }
}

// ------------------------------------------------------------------ case description

#[derive(Clone, Debug)]
enum Step {
    /// values per column; `None` = key omitted from the insert map
    Insert(Vec<Option<Value>>),
    /// like `Insert`, and the value map also carries a key that is no column of the table (ignored by the engine)
    InsertExtra(Vec<Option<Value>>),
    /// `batch_insert`: all rows are validated before the first one is stored
    BatchInsert(Vec<Vec<Option<Value>>>),
    Update(Cond, Vec<(ColSel, Value)>),
    Delete(Cond),
    CreateHash(ColSel),
    CreateBtree(ColSel),
    DropHash(ColSel),
    DropBtree(ColSel),
    /// `(condition, limit, offset, batch)`
    Query(Cond, usize, usize, usize),
    /// `begin_transaction; tx_delete; rollback`: no row changes, the restored ids go to the END of their buckets
    DeleteRollback(Cond),
    /// `begin_transaction; tx_update; rollback`
    UpdateRollback(Cond, Vec<(ColSel, Value)>),
}

#[derive(Clone, Debug)]
struct Case {
    name: String,
    schema: Vec<(Ty, bool)>,
    steps: Vec<Step>,
}

fn step_text(s: &Step) -> String {
    let ov = |v: &Option<Value>| v.as_ref().map_or("omit".to_string(), tok);
    match s {
        Step::Insert(vs) => format!("ins {}", vs.iter().map(ov).collect::<Vec<_>>().join(" ")),
        Step::InsertExtra(vs) => format!("ins+unknown_key {}", vs.iter().map(ov).collect::<Vec<_>>().join(" ")),
        Step::BatchInsert(rows) => format!(
            "batch_insert {}",
            rows.iter().map(|vs| format!("({})", vs.iter().map(ov).collect::<Vec<_>>().join(" "))).collect::<Vec<_>>().join(" ")
        ),
        Step::Update(c, sets) => format!(
            "upd [{}] where {}",
            sets.iter().map(|(c, v)| format!("{}={}", col_name(c), tok(v))).collect::<Vec<_>>().join(","),
            to_model(c)
        ),
        Step::Delete(c) => format!("del where {}", to_model(c)),
        Step::CreateHash(c) => format!("create_index {}", col_name(c)),
        Step::CreateBtree(c) => format!("create_btree_index {}", col_name(c)),
        Step::DropHash(c) => format!("drop_index {}", col_name(c)),
        Step::DropBtree(c) => format!("drop_btree_index {}", col_name(c)),
        Step::Query(c, l, o, b) => format!("query limit={l} offset={o} batch={b} where {}", to_model(c)),
        Step::DeleteRollback(c) => format!("begin; del where {}; rollback", to_model(c)),
        Step::UpdateRollback(c, sets) => format!(
            "begin; upd [{}] where {}; rollback",
            sets.iter().map(|(c, v)| format!("{}={}", col_name(c), tok(v))).collect::<Vec<_>>().join(","),
            to_model(c)
        ),
    }
}
fn case_json(case: &Case, upto: usize) -> serde_json::Value {
    json!({
        "case": case.name,
        "schema": case.schema.iter().enumerate().map(|(i,(t,n))| format!("c{i}:{:?}{}", t, if *n {" NULL"} else {""})).collect::<Vec<_>>(),
        "steps": case.steps.iter().take(upto + 1).map(step_text).collect::<Vec<_>>(),
    })
}

// ------------------------------------------------------------------ generators

struct Gen {
    r: Rng,
    pool: Vec<Vec<Value>>, // per column: values that occur in the data
    nrows: u64,
}

impl Gen {
    fn val_for(&mut self, schema: &[(Ty, bool)], col: usize) -> Value {
        if !self.pool[col].is_empty() && self.r.chance(1, 2) {
            return self.r.pick(&self.pool[col]).clone();
        }
        gen_val(&mut self.r, schema[col].0)
    }
    fn leaf(&mut self, schema: &[(Ty, bool)]) -> Cond {
        let op = *self.r.pick(&[Cmp::Eq, Cmp::Eq, Cmp::Ne, Cmp::Lt, Cmp::Le, Cmp::Gt, Cmp::Ge]);
        let k = self.r.below(20);
        if k == 0 {
            return Cond::Leaf(op, ColSel::Unknown, Value::Int(1));
        }
        if k <= 2 {
            let v = match self.r.below(6) {
                0 => Value::Int(i64::MAX),
                1 => Value::Int(0),
                2 => Value::Null,
                3 => Value::Float(1.0),
                _ => Value::Int(self.r.range(0, self.nrows as i64 + 1)),
            };
            return Cond::Leaf(op, ColSel::Id, v);
        }
        let col = self.r.below(schema.len() as u64) as usize;
        let v = match self.r.below(12) {
            0 => Value::Null,
            1 => {
                // cross-type constant
                let other = *self.r.pick(&[Ty::Int, Ty::Float, Ty::Str, Ty::Bool, Ty::Bytes, Ty::Json]);
                gen_val(&mut self.r, other)
            },
            _ => self.val_for(schema, col),
        };
        // a JSON constant that equals stored values but is rendered differently (what a text-keyed bucket misses)
        let v = match v {
            Value::Json(j) if self.r.chance(1, 3) => Value::Json(j_flip_zeros(&j)),
            v => v,
        };
        Cond::Leaf(op, ColSel::Col(col), v)
    }
    fn cond(&mut self, schema: &[(Ty, bool)], depth: u32) -> Cond {
        let k = self.r.below(10);
        if depth == 0 || k < 5 {
            if self.r.chance(1, 12) {
                return Cond::True;
            }
            return self.leaf(schema);
        }
        let a = self.cond(schema, depth - 1);
        let b = self.cond(schema, depth - 1);
        if k < 8 {
            Cond::And(Box::new(a), Box::new(b))
        } else {
            Cond::Or(Box::new(a), Box::new(b))
        }
    }
    fn any_col(&mut self, schema: &[(Ty, bool)]) -> ColSel {
        match self.r.below(12) {
            0 => ColSel::Id,
            1 => ColSel::Unknown,
            _ => ColSel::Col(self.r.below(schema.len() as u64) as usize),
        }
    }
    fn insert(&mut self, schema: &[(Ty, bool)]) -> Step {
        let mut vals = Vec::new();
        let bad = self.r.chance(1, 12);
        let bad_col = self.r.below(schema.len() as u64) as usize;
        for (i, (ty, nullable)) in schema.iter().enumerate() {
            if bad && i == bad_col {
                if self.r.chance(1, 2) {
                    vals.push(if self.r.chance(1, 2) { None } else { Some(Value::Null) });
                } else {
                    let other = match ty {
                        Ty::Int => Ty::Float,
                        Ty::Float => Ty::Int,
                        Ty::Str => Ty::Bytes,
                        Ty::Bool => Ty::Int,
                        Ty::Bytes => Ty::Str,
                        Ty::Json => Ty::Str,
                    };
                    vals.push(Some(gen_val(&mut self.r, other)));
                }
                continue;
            }
            if *nullable && self.r.chance(1, 4) {
                vals.push(if self.r.chance(1, 2) { None } else { Some(Value::Null) });
            } else {
                vals.push(Some(self.val_for(schema, i)));
            }
        }
        Step::Insert(vals)
    }
    fn update(&mut self, schema: &[(Ty, bool)]) -> Step {
        let c = self.cond(schema, 2);
        let n = 1 + self.r.below(2) as usize;
        let mut sets: Vec<(ColSel, Value)> = Vec::new();
        for _ in 0..n {
            let col = self.r.below(schema.len() as u64) as usize;
            if sets.iter().any(|(c, _)| *c == ColSel::Col(col)) {
                continue;
            }
            let v = if schema[col].1 && self.r.chance(1, 4) { Value::Null } else { self.val_for(schema, col) };
            sets.push((ColSel::Col(col), v));
        }
        if self.r.chance(1, 15) {
            match self.r.below(3) {
                0 => sets.push((ColSel::Unknown, Value::Int(1))),
                1 => {
                    let col = self.r.below(schema.len() as u64) as usize;
                    if !sets.iter().any(|(c, _)| *c == ColSel::Col(col)) {
                        let other = if schema[col].0 == Ty::Int { Ty::Str } else { Ty::Int };
                        sets.push((ColSel::Col(col), gen_val(&mut self.r, other)));
                    }
                },
                _ => {
                    if let Some(col) = (0..schema.len()).find(|i| !schema[*i].1) {
                        if !sets.iter().any(|(c, _)| *c == ColSel::Col(col)) {
                            sets.push((ColSel::Col(col), Value::Null));
                        }
                    }
                },
            }
        }
        Step::Update(c, sets)
    }
    fn query(&mut self, schema: &[(Ty, bool)]) -> Step {
        let c = self.cond(schema, 3);
        let limit = self.r.below(5) as usize;
        let offset = self.r.below(4) as usize;
        let batch = 1 + self.r.below(4) as usize;
        Step::Query(c, limit, offset, batch)
    }
}

fn well_typed(t: Ty, v: &Value) -> bool {
    matches!((t, v), (Ty::Int, Value::Int(_)) | (Ty::Float, Value::Float(_)) | (Ty::Str, Value::String(_)) | (Ty::Bool, Value::Bool(_)) | (Ty::Bytes, Value::Bytes(_)) | (Ty::Json, Value::Json(_)))
}

fn gen_case(r: &mut Rng, idx: usize, n_ops: usize, n_queries: usize) -> Case {
    let ncols = 1 + r.below(4) as usize;
    let tys = [Ty::Int, Ty::Float, Ty::Str, Ty::Bool, Ty::Bytes, Ty::Int, Ty::Float, Ty::Json];
    let schema: Vec<(Ty, bool)> = (0..ncols).map(|_| (*r.pick(&tys), r.chance(1, 2))).collect();
    let mut g = Gen { r: r.fork(&format!("case{idx}")), pool: vec![Vec::new(); ncols], nrows: 0 };
    let mut steps = Vec::new();
    // a few index operations up front in half of the cases
    for _ in 0..g.r.below(3) {
        let c = g.any_col(&schema);
        steps.push(if g.r.chance(1, 2) { Step::CreateHash(c) } else { Step::CreateBtree(c) });
    }
    let mut q_left = n_queries;
    for k in 0..n_ops {
        let s = match g.r.below(100) {
            40..=44 => {
                let n = 1 + g.r.below(3) as usize;
                let mut rows = Vec::new();
                for _ in 0..n {
                    if let Step::Insert(vs) = g.insert(&schema) {
                        rows.push(vs);
                    }
                }
                g.nrows += rows.len() as u64;
                for vs in &rows {
                    for (i, v) in vs.iter().enumerate() {
                        if let Some(v) = v {
                            if *v != Value::Null && well_typed(schema[i].0, v) && g.pool[i].len() < 24 {
                                g.pool[i].push(v.clone());
                            }
                        }
                    }
                }
                Step::BatchInsert(rows)
            },
            0..=39 => {
                let s = g.insert(&schema);
                if let Step::Insert(vs) = &s {
                    g.nrows += 1;
                    for (i, v) in vs.iter().enumerate() {
                        if let Some(v) = v {
                            if *v != Value::Null && well_typed(schema[i].0, v) && g.pool[i].len() < 24 {
                                g.pool[i].push(v.clone());
                            }
                        }
                    }
                }
                if g.r.chance(1, 12) {
                    if let Step::Insert(vs) = s { Step::InsertExtra(vs) } else { s }
                } else {
                    s
                }
            },
            45..=59 => {
                let s = g.update(&schema);
                if let Step::Update(_, sets) = &s {
                    for (c, v) in sets {
                        if let ColSel::Col(i) = c {
                            if *v != Value::Null && well_typed(schema[*i].0, v) && g.pool[*i].len() < 24 {
                                g.pool[*i].push(v.clone());
                            }
                        }
                    }
                }
                s
            },
            60..=69 => Step::Delete(g.cond(&schema, 2)),
            70..=77 => Step::CreateHash(g.any_col(&schema)),
            78..=85 => Step::CreateBtree(g.any_col(&schema)),
            86..=89 => Step::DropHash(g.any_col(&schema)),
            90..=93 => Step::DropBtree(g.any_col(&schema)),
            _ => {
                if q_left > 0 {
                    q_left -= 1;
                }
                g.query(&schema)
            },
        };
        steps.push(s);
        // interleave queries so that every intermediate index state is observed
        if k % 6 == 5 && q_left > 0 {
            let n = 1 + g.r.below(3) as usize;
            for _ in 0..n.min(q_left) {
                steps.push(g.query(&schema));
                q_left -= 1;
            }
        }
    }
    while q_left > 0 {
        steps.push(g.query(&schema));
        q_left -= 1;
    }
    // rebuild paths: indexes created over existing rows, then the same queries again
    for i in 0..ncols {
        steps.push(Step::DropHash(ColSel::Col(i)));
        steps.push(Step::CreateHash(ColSel::Col(i)));
        steps.push(Step::DropBtree(ColSel::Col(i)));
        steps.push(Step::CreateBtree(ColSel::Col(i)));
    }
    for _ in 0..3 {
        steps.push(g.query(&schema));
    }
    Case { name: format!("random-{idx}"), schema, steps }
}

fn leaf(op: Cmp, col: usize, v: Value) -> Cond {
    Cond::Leaf(op, ColSel::Col(col), v)
}
fn and(a: Cond, b: Cond) -> Cond {
    Cond::And(Box::new(a), Box::new(b))
}
fn or(a: Cond, b: Cond) -> Cond {
    Cond::Or(Box::new(a), Box::new(b))
}
fn ins(vs: Vec<Value>) -> Step {
    Step::Insert(vs.into_iter().map(Some).collect())
}
fn q(c: Cond) -> Step {
    Step::Query(c, 1, 0, 1)
}

// ------------------------------------------------------------------ bucket order: directed cases and the `moves` stream

fn idc(op: Cmp, n: i64) -> Cond {
    Cond::Leaf(op, ColSel::Id, Value::Int(n))
}
fn upd(c: Cond, col: usize, v: Value) -> Step {
    Step::Update(c, vec![(ColSel::Col(col), v)])
}

/// Histories after which the id vector of an index bucket is NOT in ascending id order (an UPDATE pushes the id
/// onto the end of another value's vector, a rolled-back DELETE / UPDATE pushes the restored ids onto the end),
/// queried with AND / OR trees over two differently indexed columns.  The minimal history first, then its
/// neighbours: both directions of the move, the same-value update, B-tree on the left, three-way nesting,
/// delete + re-insert, index built before / after the move, the float zeros sharing one bucket.
#[allow(clippy::too_many_lines)]
fn bucket_order_cases() -> Vec<Case> {
    let i = |x: i64| Value::Int(x);
    let st = |x: &str| Value::String(x.to_string());
    let f = |x: f64| Value::Float(x);
    let mut cases = Vec::new();
    // one row on each side of the move
    cases.push(Case {
        name: "bucket-order-minimal".into(),
        schema: vec![(Ty::Int, false), (Ty::Int, false)],
        steps: vec![
            ins(vec![i(0), i(3)]),
            ins(vec![i(1), i(3)]),
            Step::CreateHash(ColSel::Col(1)),
            Step::CreateHash(ColSel::Col(0)),
            upd(idc(Cmp::Eq, 1), 0, i(1)),
            Step::Query(and(leaf(Cmp::Eq, 1, i(3)), leaf(Cmp::Eq, 0, i(1))), 2, 0, 1),
            Step::Query(and(leaf(Cmp::Eq, 0, i(1)), leaf(Cmp::Eq, 1, i(3))), 1, 1, 2),
        ],
    });
    // employees 1..4 in `ops`, 5..8 in `eng`; the first four move to `eng`: the vector of `eng` is 5,6,7,8,1,2,3,4
    let emp = |dept: &str, level: i64| ins(vec![st(dept), i(level)]);
    let q_and = and(leaf(Cmp::Eq, 1, i(3)), leaf(Cmp::Eq, 0, st("eng")));
    let mut steps = vec![emp("ops", 3), emp("ops", 3), emp("ops", 3), emp("ops", 3), emp("eng", 3), emp("eng", 3), emp("eng", 3), emp("eng", 4)];
    steps.push(Step::CreateHash(ColSel::Col(1)));
    steps.push(Step::CreateHash(ColSel::Col(0)));
    steps.push(Step::Query(q_and.clone(), 3, 0, 2));
    steps.push(upd(idc(Cmp::Le, 4), 0, st("eng")));
    for (l, o, b) in [(3, 2, 2), (0, 0, 3), (8, 1, 1), (2, 5, 4), (1, 0, 7)] {
        steps.push(Step::Query(q_and.clone(), l, o, b));
    }
    steps.push(Step::Query(and(leaf(Cmp::Eq, 0, st("eng")), leaf(Cmp::Eq, 1, i(3))), 4, 0, 2));
    steps.push(Step::Query(and(leaf(Cmp::Eq, 1, i(4)), leaf(Cmp::Eq, 0, st("eng"))), 4, 0, 2));
    steps.push(Step::Query(and(leaf(Cmp::Ne, 1, i(4)), leaf(Cmp::Eq, 0, st("eng"))), 9, 0, 3));
    steps.push(Step::Query(or(leaf(Cmp::Eq, 1, i(4)), leaf(Cmp::Eq, 0, st("eng"))), 9, 0, 3));
    steps.push(Step::Query(and(and(idc(Cmp::Ge, 2), leaf(Cmp::Eq, 1, i(3))), leaf(Cmp::Eq, 0, st("eng"))), 9, 0, 3));
    steps.push(Step::Query(and(idc(Cmp::Ge, 2), and(leaf(Cmp::Eq, 1, i(3)), leaf(Cmp::Eq, 0, st("eng")))), 9, 1, 3));
    steps.push(Step::Query(or(and(leaf(Cmp::Eq, 1, i(3)), leaf(Cmp::Eq, 0, st("eng"))), leaf(Cmp::Eq, 1, i(4))), 9, 0, 2));
    // UPDATE / DELETE with the same two-index condition, then the rebuilt indexes
    steps.push(Step::Update(and(leaf(Cmp::Eq, 1, i(3)), leaf(Cmp::Eq, 0, st("eng"))), vec![(ColSel::Col(1), i(5))]));
    steps.push(Step::Query(and(leaf(Cmp::Eq, 1, i(5)), leaf(Cmp::Eq, 0, st("eng"))), 9, 0, 3));
    steps.push(Step::Delete(and(leaf(Cmp::Eq, 1, i(5)), and(leaf(Cmp::Eq, 0, st("eng")), idc(Cmp::Ge, 6)))));
    steps.push(Step::Query(and(leaf(Cmp::Eq, 1, i(5)), leaf(Cmp::Eq, 0, st("eng"))), 9, 0, 3));
    steps.push(Step::DropHash(ColSel::Col(0)));
    steps.push(Step::CreateHash(ColSel::Col(0)));
    steps.push(Step::Query(and(leaf(Cmp::Eq, 1, i(5)), leaf(Cmp::Eq, 0, st("eng"))), 9, 0, 3));
    cases.push(Case { name: "bucket-order-update-low-into-high".into(), schema: vec![(Ty::Str, false), (Ty::Int, false)], steps });
    // the other direction (high ids into a bucket of low ids, one by one and out of order), the same-value
    // update, a B-tree on the left-hand side, both kinds of index on one column
    cases.push(Case {
        name: "bucket-order-high-into-low-btree-left".into(),
        schema: vec![(Ty::Int, false), (Ty::Int, true)],
        steps: vec![
            Step::CreateHash(ColSel::Col(0)),
            Step::CreateBtree(ColSel::Col(1)),
            Step::CreateBtree(ColSel::Col(0)),
            ins(vec![i(0), i(1)]),
            ins(vec![i(0), i(2)]),
            ins(vec![i(0), i(3)]),
            ins(vec![i(1), i(1)]),
            ins(vec![i(1), i(2)]),
            ins(vec![i(1), Value::Null]),
            ins(vec![i(1), i(3)]),
            upd(idc(Cmp::Eq, 7), 0, i(0)),
            upd(idc(Cmp::Eq, 5), 0, i(0)),
            Step::Query(and(leaf(Cmp::Ge, 1, i(2)), leaf(Cmp::Eq, 0, i(0))), 5, 0, 2),
            Step::Query(and(leaf(Cmp::Lt, 1, i(3)), leaf(Cmp::Eq, 0, i(0))), 2, 1, 1),
            Step::Query(and(leaf(Cmp::Le, 0, i(0)), leaf(Cmp::Eq, 0, i(0))), 5, 0, 3),
            // same-value update: row 1 goes to the end of the vector it is already in
            upd(idc(Cmp::Eq, 1), 0, i(0)),
            Step::Query(and(leaf(Cmp::Ge, 1, i(1)), leaf(Cmp::Eq, 0, i(0))), 5, 0, 2),
            Step::Query(and(leaf(Cmp::Gt, 1, i(0)), and(leaf(Cmp::Le, 1, i(2)), leaf(Cmp::Eq, 0, i(0)))), 5, 0, 2),
            // whole bucket moves over and back
            upd(leaf(Cmp::Eq, 0, i(1)), 0, i(0)),
            upd(leaf(Cmp::Le, 1, i(1)), 0, i(1)),
            Step::Query(and(leaf(Cmp::Ge, 1, i(1)), leaf(Cmp::Eq, 0, i(1))), 5, 0, 2),
            Step::Query(and(leaf(Cmp::Ge, 1, i(1)), leaf(Cmp::Eq, 0, i(0))), 5, 0, 2),
            Step::Query(or(leaf(Cmp::Eq, 0, i(1)), leaf(Cmp::Eq, 1, Value::Null)), 5, 0, 2),
        ],
    });
    // rolled-back statements restore the ids at the END of their vectors; delete + re-insert keeps them ascending
    cases.push(Case {
        name: "bucket-order-rollback-and-reinsert".into(),
        schema: vec![(Ty::Str, false), (Ty::Int, false)],
        steps: vec![
            Step::CreateHash(ColSel::Col(0)),
            Step::CreateHash(ColSel::Col(1)),
            Step::CreateBtree(ColSel::Col(1)),
            emp("a", 1),
            emp("a", 2),
            emp("a", 1),
            emp("b", 1),
            emp("a", 1),
            Step::DeleteRollback(idc(Cmp::Le, 2)),
            Step::Query(and(leaf(Cmp::Eq, 1, i(1)), leaf(Cmp::Eq, 0, st("a"))), 5, 0, 2),
            Step::Query(and(leaf(Cmp::Ge, 1, i(1)), leaf(Cmp::Eq, 0, st("a"))), 5, 0, 2),
            Step::UpdateRollback(idc(Cmp::Eq, 3), vec![(ColSel::Col(0), st("b"))]),
            Step::Query(and(leaf(Cmp::Eq, 1, i(1)), leaf(Cmp::Eq, 0, st("a"))), 5, 0, 2),
            Step::UpdateRollback(leaf(Cmp::Eq, 0, st("a")), vec![(ColSel::Col(1), i(1)), (ColSel::Col(0), st("a"))]),
            Step::Query(and(leaf(Cmp::Eq, 0, st("a")), leaf(Cmp::Eq, 1, i(1))), 5, 0, 2),
            Step::UpdateRollback(Cond::True, vec![(ColSel::Unknown, i(1))]),
            Step::UpdateRollback(Cond::True, vec![(ColSel::Col(1), st("x"))]),
            Step::Delete(idc(Cmp::Eq, 1)),
            emp("a", 1),
            emp("a", 1),
            Step::DeleteRollback(leaf(Cmp::Eq, 0, st("a"))),
            Step::Query(and(leaf(Cmp::Eq, 1, i(1)), leaf(Cmp::Eq, 0, st("a"))), 5, 1, 2),
            Step::Query(and(leaf(Cmp::Le, 1, i(1)), leaf(Cmp::Eq, 0, st("a"))), 5, 0, 3),
            Step::DeleteRollback(Cond::True),
            Step::Query(and(leaf(Cmp::Eq, 0, st("a")), leaf(Cmp::Eq, 1, i(1))), 5, 0, 3),
            Step::Query(Cond::True, 0, 1, 5),
        ],
    });
    // both float zeros live in one bucket; rows move into it from both sides; index created after the moves
    cases.push(Case {
        name: "bucket-order-float-zeros-late-index".into(),
        schema: vec![(Ty::Float, true), (Ty::Int, false)],
        steps: vec![
            Step::CreateHash(ColSel::Col(1)),
            ins(vec![f(1.0), i(1)]),
            ins(vec![f(1.0), i(1)]),
            ins(vec![f(-0.0), i(1)]),
            ins(vec![f(0.0), i(2)]),
            ins(vec![Value::Null, i(1)]),
            Step::CreateHash(ColSel::Col(0)),
            upd(idc(Cmp::Eq, 1), 0, f(0.0)),
            upd(idc(Cmp::Eq, 5), 0, f(-0.0)),
            upd(idc(Cmp::Eq, 2), 0, f(-0.0)),
            Step::Query(and(leaf(Cmp::Eq, 1, i(1)), leaf(Cmp::Eq, 0, f(0.0))), 5, 0, 2),
            Step::Query(and(leaf(Cmp::Eq, 1, i(1)), leaf(Cmp::Eq, 0, f(-0.0))), 2, 1, 1),
            upd(idc(Cmp::Eq, 3), 0, Value::Null),
            upd(idc(Cmp::Eq, 1), 0, Value::Null),
            Step::Query(and(leaf(Cmp::Eq, 1, i(1)), leaf(Cmp::Eq, 0, Value::Null)), 5, 0, 2),
            Step::CreateBtree(ColSel::Col(1)),
            Step::DropHash(ColSel::Col(1)),
            Step::Query(and(leaf(Cmp::Le, 1, i(1)), leaf(Cmp::Eq, 0, f(0.0))), 5, 0, 2),
        ],
    });
    cases
}

/// small value domains (every value renders as query text, so the router paths run too)
fn moves_domain(ty: Ty) -> Vec<Value> {
    match ty {
        Ty::Int => (0..3).map(Value::Int).collect(),
        Ty::Str => ["a", "b", "ab"].iter().map(|x| Value::String((*x).to_string())).collect(),
        Ty::Float => vec![Value::Float(0.0), Value::Float(-0.0), Value::Float(1.0), Value::Float(2.5)],
        Ty::Bool => vec![Value::Bool(false), Value::Bool(true)],
        _ => vec![Value::Int(0)],
    }
}

/// The `moves` stream: 2-3 columns over small domains, each column with a hash and / or B-tree index created
/// at a random point of the history (before the rows, after the inserts, after the moves, never), rows moved
/// between the values of a column in both directions (low ids into a value held by high ids and the reverse,
/// one row, an id range, a whole bucket, a same-value update), deletes followed by re-inserts, rolled-back
/// deletes / updates, index rebuilds -- queried throughout with AND / OR trees whose leaves sit on two or more
/// DIFFERENT columns with values that occur in the data.
#[allow(clippy::too_many_lines)]
fn gen_moves_case(r: &Rng, idx: usize) -> Case {
    let mut g = r.fork(&format!("moves{idx}"));
    let ncols = 2 + g.below(2) as usize;
    let schema: Vec<(Ty, bool)> = (0..ncols).map(|_| (*g.pick(&[Ty::Int, Ty::Int, Ty::Str, Ty::Str, Ty::Float, Ty::Bool]), g.chance(1, 3))).collect();
    let doms: Vec<Vec<Value>> = schema.iter().map(|(t, _)| moves_domain(*t)).collect();
    let val = |g: &mut Rng, col: usize| -> Value {
        if schema[col].1 && g.chance(1, 8) { Value::Null } else { g.pick(&doms[col]).clone() }
    };
    // when each index comes into being: 0 never, 1 before the rows, 2 after the inserts, 3 in the middle of the moves, 4 after them
    let mut plan: Vec<(u64, Step)> = Vec::new();
    for c in 0..ncols {
        let (h, o) = match g.below(8) {
            0 => (0, 0),
            1 => (0, 1 + g.below(4)),
            2 | 3 => (1 + g.below(4), 0),
            _ => (1 + g.below(4), 1 + g.below(4)),
        };
        if h > 0 {
            plan.push((h, Step::CreateHash(ColSel::Col(c))));
        }
        if o > 0 {
            plan.push((o, Step::CreateBtree(ColSel::Col(c))));
        }
    }
    if g.chance(1, 5) {
        plan.push((1 + g.below(4), if g.chance(1, 2) { Step::CreateBtree(ColSel::Id) } else { Step::CreateHash(ColSel::Id) }));
    }
    let mut steps: Vec<Step> = Vec::new();
    let mut nrows: i64 = 0;
    let at = |steps: &mut Vec<Step>, when: u64| {
        for (w, s) in &plan {
            if *w == when {
                steps.push(s.clone());
            }
        }
    };
    // a query over two or more different columns
    let leaf_on = |g: &mut Rng, col: usize, nrows: i64| -> Cond {
        if g.chance(1, 10) {
            return idc(*g.pick(&[Cmp::Le, Cmp::Ge, Cmp::Gt, Cmp::Eq]), g.range(1, nrows.max(1)));
        }
        let op = *g.pick(&[Cmp::Eq, Cmp::Eq, Cmp::Eq, Cmp::Le, Cmp::Ge, Cmp::Lt, Cmp::Gt, Cmp::Ne]);
        Cond::Leaf(op, ColSel::Col(col), val(g, col))
    };
    let cond2 = |g: &mut Rng, nrows: i64| -> Cond {
        let mut cols: Vec<usize> = (0..ncols).collect();
        g.shuffle(&mut cols);
        let a = leaf_on(g, cols[0], nrows);
        // the right-hand side of the outermost AND is an equality most of the time
        let b = if g.chance(3, 4) { Cond::Leaf(Cmp::Eq, ColSel::Col(cols[1]), val(g, cols[1])) } else { leaf_on(g, cols[1], nrows) };
        let third = leaf_on(g, cols[(2 % ncols).max(if ncols > 2 { 2 } else { 0 })], nrows);
        match g.below(12) {
            0..=4 => and(a, b),
            5 => and(b, a),
            6 => and(and(third, a), b),
            7 => and(third, and(a, b)),
            8 => or(a, b),
            9 => and(or(third, a), b),
            10 => or(and(a, b), third),
            _ => and(a, or(b, third)),
        }
    };
    let query = |g: &mut Rng, nrows: i64| -> Step {
        let c = cond2(g, nrows);
        Step::Query(c, g.below(6) as usize, g.below(4) as usize, 1 + g.below(4) as usize)
    };
    at(&mut steps, 1);
    // inserts: in blocks (low ids hold one value, high ids another) or at random
    let n = 4 + g.below(6) as i64;
    let block_col = g.below(ncols as u64) as usize;
    let blocks = g.chance(2, 3);
    let (lo_v, hi_v) = (doms[block_col][0].clone(), doms[block_col][1 % doms[block_col].len()].clone());
    for k in 0..n {
        let mut vs: Vec<Value> = (0..ncols).map(|c| val(&mut g, c)).collect();
        if blocks {
            vs[block_col] = if k < n / 2 { lo_v.clone() } else { hi_v.clone() };
        }
        steps.push(ins(vs));
        nrows += 1;
    }
    at(&mut steps, 2);
    if g.chance(1, 2) {
        steps.push(query(&mut g, nrows));
    }
    let n_moves = 3 + g.below(6);
    for k in 0..n_moves {
        if k == n_moves / 2 {
            at(&mut steps, 3);
        }
        let col = if g.chance(1, 2) { block_col } else { g.below(ncols as u64) as usize };
        let v = val(&mut g, col);
        let pivot = g.range(1, nrows);
        let who = match g.below(10) {
            0 | 1 => idc(Cmp::Le, pivot),
            2 | 3 => idc(Cmp::Ge, pivot),
            4 | 5 => idc(Cmp::Eq, pivot),
            6 => Cond::Leaf(Cmp::Eq, ColSel::Col(col), val(&mut g, col)),
            7 => Cond::Leaf(Cmp::Eq, ColSel::Col(col), v.clone()), // same-value update
            8 => {
                let other = g.below(ncols as u64) as usize;
                Cond::Leaf(Cmp::Eq, ColSel::Col(other), val(&mut g, other))
            },
            _ => and(idc(Cmp::Ge, pivot), Cond::Leaf(Cmp::Ne, ColSel::Col(col), v.clone())),
        };
        // UPDATE / DELETE (also rolled back) conditioned by a tree over two differently indexed columns
        let who = if g.chance(1, 4) { cond2(&mut g, nrows) } else { who };
        match g.below(12) {
            0..=6 => steps.push(upd(who, col, v)),
            7 => {
                let col2 = (col + 1) % ncols;
                let v2 = val(&mut g, col2);
                steps.push(Step::Update(who, vec![(ColSel::Col(col), v), (ColSel::Col(col2), v2)]));
            },
            8 => {
                steps.push(Step::Delete(who));
                for _ in 0..1 + g.below(2) {
                    let vs: Vec<Value> = (0..ncols).map(|c| val(&mut g, c)).collect();
                    steps.push(ins(vs));
                    nrows += 1;
                }
            },
            9 => steps.push(Step::DeleteRollback(who)),
            10 => steps.push(Step::UpdateRollback(who, vec![(ColSel::Col(col), v)])),
            _ => {
                // rebuild an index in the middle of the history (its vectors are ascending again)
                let c = ColSel::Col(col);
                if g.chance(1, 2) {
                    steps.push(Step::DropHash(c.clone()));
                    steps.push(Step::CreateHash(c));
                } else {
                    steps.push(Step::DropBtree(c.clone()));
                    steps.push(Step::CreateBtree(c));
                }
            },
        }
        if g.chance(1, 2) {
            steps.push(query(&mut g, nrows));
        }
    }
    at(&mut steps, 4);
    let tail: Vec<Step> = (0..5 + g.below(4)).map(|_| query(&mut g, nrows)).collect();
    steps.extend(tail.iter().cloned());
    // the same questions after every index has been rebuilt over the rows as they are now
    for c in 0..ncols {
        if g.chance(1, 2) {
            steps.push(Step::DropHash(ColSel::Col(c)));
            steps.push(Step::CreateHash(ColSel::Col(c)));
        }
    }
    steps.extend(tail.into_iter().take(2));
    Case { name: format!("moves-{idx}"), schema, steps }
}

/// run a case; for every class of violation it produced, shrink the step list (ddmin, the class must
/// reproduce) and put the shrunk failing input in the place of the first one of that class
fn run_case_shrinking(case: &Case, rep: &mut Report, m: &mut Model, text_budget: &mut u64) {
    let n0 = rep.violations.len();
    run_case(case, rep, m, text_budget);
    if rep.violations.len() == n0 {
        return;
    }
    let mut classes: Vec<String> = Vec::new();
    for v in &rep.violations[n0..] {
        let c = v["class"].as_str().unwrap_or("").to_string();
        if !classes.contains(&c) {
            classes.push(c);
        }
    }
    for class in classes.iter().take(4) {
        let reproduce = |steps: &[Step], m: &mut Model| -> Option<serde_json::Value> {
            let mut tmp = Report::new("");
            let mut budget: u64 = 400;
            run_case(&Case { name: case.name.clone(), schema: case.schema.clone(), steps: steps.to_vec() }, &mut tmp, m, &mut budget);
            tmp.violations.iter().find(|v| v["class"] == class.as_str()).cloned()
        };
        let shrunk = shrink_list(&case.steps, &mut |steps: &[Step]| reproduce(steps, m).is_some());
        if shrunk.len() < case.steps.len() {
            if let Some(mut v) = reproduce(&shrunk, m) {
                v["shrunk"] = json!(format!("{} of {} steps", shrunk.len(), case.steps.len()));
                if let Some(slot) = rep.violations[n0..].iter_mut().find(|x| x["class"] == class.as_str()) {
                    *slot = v;
                    rep.hit("shrunk_failing_input");
                }
            }
        }
    }
}

/// hand-written adversarial scenarios, run first on every invocation
/// a table whose slots cross the 64- and 128-bit word boundaries of the alive / null / result bitmaps (and the
/// 4-lane chunks of the SIMD filters), with NULLs and deleted slots placed on the boundaries
fn wide_table_case() -> Case {
    let i = |x: i64| Value::Int(x);
    let mut steps = Vec::new();
    for k in 0..139_i64 {
        let c0 = if [0, 62, 63, 64, 65, 127, 128, 130, 138].contains(&k) { Value::Null } else { i(k % 7 - 3) };
        let c1 = Value::Float(if k % 5 == 0 { -0.0 } else { (k % 4) as f64 - 1.5 });
        steps.push(ins(vec![c0, c1]));
    }
    // dead slots on and next to the word boundaries
    for dead in [1_i64, 63, 64, 66, 126, 128, 129, 137] {
        steps.push(Step::Delete(Cond::Leaf(Cmp::Eq, ColSel::Id, i(dead))));
    }
    steps.push(Step::Update(Cond::Leaf(Cmp::Eq, ColSel::Id, i(65)), vec![(ColSel::Col(0), Value::Null)]));
    steps.push(Step::Update(Cond::Leaf(Cmp::Eq, ColSel::Id, i(131)), vec![(ColSel::Col(0), i(2))]));
    for c in [
        leaf(Cmp::Ne, 0, i(0)),
        leaf(Cmp::Eq, 0, i(0)),
        leaf(Cmp::Lt, 0, i(1)),
        leaf(Cmp::Ge, 0, i(-1)),
        leaf(Cmp::Eq, 1, Value::Float(0.0)),
        leaf(Cmp::Lt, 1, Value::Float(0.0)),
        leaf(Cmp::Gt, 1, Value::Float(-1.0)),
        and(leaf(Cmp::Ne, 0, i(3)), leaf(Cmp::Gt, 1, Value::Float(-1.0))),
        or(leaf(Cmp::Eq, 0, i(-3)), leaf(Cmp::Eq, 1, Value::Float(-0.0))),
        and(leaf(Cmp::Le, 0, i(2)), or(leaf(Cmp::Ne, 0, i(1)), leaf(Cmp::Lt, 1, Value::Float(0.5)))),
    ] {
        steps.push(Step::Query(c, 3, 60, 50));
    }
    steps.push(Step::CreateHash(ColSel::Col(0)));
    steps.push(Step::CreateBtree(ColSel::Col(1)));
    steps.push(Step::Query(leaf(Cmp::Eq, 0, Value::Null), 4, 2, 3));
    steps.push(Step::Query(and(leaf(Cmp::Ge, 1, Value::Float(-0.0)), leaf(Cmp::Ne, 0, i(0))), 70, 1, 64));
    Case { name: "wide-table-bitmap-words".into(), schema: vec![(Ty::Int, true), (Ty::Float, false)], steps }
}

/// more than `PARALLEL_THRESHOLD` (1000) selected rows: `sum` / `avg` / `min` / `max` take their rayon branch.
/// Integer columns only (small values): every reduction order gives the same f64 sum and the same extreme.
fn parallel_aggregate_case() -> Case {
    let i = |x: i64| Value::Int(x);
    let mut steps = Vec::new();
    for k in 0..1030_i64 {
        steps.push(ins(vec![i((k * 37) % 101 - 50), if k % 9 == 0 { Value::Null } else { i(k % 13) }]));
    }
    steps.push(Step::Delete(leaf(Cmp::Eq, 0, i(-50))));
    steps.push(Step::CreateBtree(ColSel::Col(0)));
    // (limit, offset, batch) chosen so that the aggregated column is c0, c1, c0, `_id`
    steps.push(Step::Query(Cond::True, 1, 1, 1));
    steps.push(Step::Query(leaf(Cmp::Ge, 0, i(-49)), 1, 0, 400));
    steps.push(Step::Query(leaf(Cmp::Ne, 1, i(3)), 2, 1, 1000));
    steps.push(Step::Query(leaf(Cmp::Lt, 0, i(60)), 2, 0, 512));
    Case { name: "parallel-aggregates".into(), schema: vec![(Ty::Int, false), (Ty::Int, true)], steps }
}

fn directed_cases(thorough: bool) -> Vec<Case> {
    let f = |x: f64| Value::Float(x);
    let i = |x: i64| Value::Int(x);
    let jv = |v: serde_json::Value| Value::Json(v);
    let mut cases = vec![
        // regression of relational_engine.hash_index/json_negative_zero_missed (repaired in f72f348f): the rows of
        // the finding, the hash index created over existing rows and maintained through insert / update / delete
        Case {
            name: "json-neg-zero-hash".into(),
            schema: vec![(Ty::Json, true)],
            steps: vec![
                ins(vec![jv(json!(-0.0))]),
                ins(vec![jv(json!(0.0))]),
                ins(vec![jv(json!({"a": -0.0}))]),
                ins(vec![jv(json!([0.0]))]),
                q(leaf(Cmp::Eq, 0, jv(json!(0.0)))),
                Step::CreateHash(ColSel::Col(0)),
                Step::Query(leaf(Cmp::Eq, 0, jv(json!(0.0))), 3, 0, 1),
                Step::Query(leaf(Cmp::Eq, 0, jv(json!(-0.0))), 1, 1, 2),
                q(leaf(Cmp::Eq, 0, jv(json!({"a": 0.0})))),
                q(leaf(Cmp::Eq, 0, jv(json!([-0.0])))),
                q(leaf(Cmp::Eq, 0, jv(json!(0)))),
                ins(vec![jv(json!(1))]),
                ins(vec![jv(json!(1.0))]),
                ins(vec![jv(json!("x"))]),
                ins(vec![jv(json!(null))]),
                ins(vec![Value::Null]),
                ins(vec![jv(json!({"a": 0.0, "b": 1}))]),
                ins(vec![jv(json!({"b": [1, {"c": -0.0}], "a": null}))]),
                q(leaf(Cmp::Eq, 0, jv(json!({"b": [1, {"c": 0.0}], "a": null})))),
                q(and(leaf(Cmp::Eq, 0, jv(json!(-0.0))), leaf(Cmp::Ne, 0, jv(json!(1))))),
                q(leaf(Cmp::Eq, 0, jv(json!(1.0)))),
                q(leaf(Cmp::Eq, 0, jv(json!(null)))),
                q(leaf(Cmp::Eq, 0, Value::Null)),
                q(leaf(Cmp::Ne, 0, jv(json!(0.0)))),
                // index maintenance through UPDATE / DELETE on the JSON column
                Step::Update(leaf(Cmp::Eq, 0, jv(json!("x"))), vec![(ColSel::Col(0), jv(json!(-0.0)))]),
                Step::Delete(leaf(Cmp::Eq, 0, jv(json!(1)))),
                Step::Query(leaf(Cmp::Eq, 0, jv(json!(0.0))), 2, 1, 2),
                Step::Update(leaf(Cmp::Eq, 0, jv(json!(0.0))), vec![(ColSel::Col(0), jv(json!([-0.0])))]),
                q(leaf(Cmp::Eq, 0, jv(json!(0.0)))),
                q(leaf(Cmp::Eq, 0, jv(json!([0.0])))),
                Step::Delete(leaf(Cmp::Eq, 0, jv(json!({"a": 0.0})))),
                q(Cond::True),
            ],
        },
        // JSON values are ordered by their rendered text, in the condition and in the B-tree alike
        Case {
            name: "json-btree-text-order".into(),
            schema: vec![(Ty::Json, true), (Ty::Int, false)],
            steps: vec![
                Step::CreateBtree(ColSel::Col(0)),
                ins(vec![jv(json!(-0.0)), Value::Int(1)]),
                ins(vec![jv(json!(0.0)), Value::Int(2)]),
                ins(vec![jv(json!([0.0])), Value::Int(3)]),
                ins(vec![jv(json!(10)), Value::Int(4)]),
                ins(vec![jv(json!(9)), Value::Int(5)]),
                ins(vec![jv(json!("0.0")), Value::Int(6)]),
                ins(vec![Value::Null, Value::Int(7)]),
                q(leaf(Cmp::Le, 0, jv(json!(0.0)))),
                q(leaf(Cmp::Ge, 0, jv(json!(0.0)))),
                q(leaf(Cmp::Lt, 0, jv(json!(9)))),
                q(leaf(Cmp::Gt, 0, jv(json!(-0.0)))),
                q(leaf(Cmp::Ge, 0, Value::Int(0))),
                Step::CreateHash(ColSel::Col(0)),
                q(and(leaf(Cmp::Le, 0, jv(json!(0.0))), leaf(Cmp::Eq, 0, jv(json!(0.0))))),
                Step::Update(leaf(Cmp::Le, 0, jv(json!(0.0))), vec![(ColSel::Col(0), jv(json!({"a": -0.0})))]),
                q(leaf(Cmp::Eq, 0, jv(json!({"a": 0.0})))),
                q(leaf(Cmp::Le, 0, jv(json!({"a": 0.0})))),
                // aggregated column = (limit + 2*offset + batch) % 4: c0 (min / max by text, nothing to sum)
                Step::Query(Cond::True, 0, 0, 4),
            ],
        },
        Case {
            name: "neg-zero-hash".into(),
            schema: vec![(Ty::Float, false)],
            steps: vec![
                ins(vec![f(-0.0)]),
                ins(vec![f(0.0)]),
                ins(vec![f(1.0)]),
                q(leaf(Cmp::Eq, 0, f(0.0))),
                Step::CreateHash(ColSel::Col(0)),
                q(leaf(Cmp::Eq, 0, f(0.0))),
                q(leaf(Cmp::Eq, 0, f(-0.0))),
                ins(vec![f(-0.0)]),
                q(leaf(Cmp::Eq, 0, f(0.0))),
                Step::Update(leaf(Cmp::Eq, 0, f(1.0)), vec![(ColSel::Col(0), f(-0.0))]),
                q(leaf(Cmp::Eq, 0, f(0.0))),
                Step::Delete(leaf(Cmp::Eq, 0, f(0.0))),
                q(Cond::True),
            ],
        },
        Case {
            name: "neg-zero-btree".into(),
            schema: vec![(Ty::Float, false)],
            steps: vec![
                Step::CreateBtree(ColSel::Col(0)),
                ins(vec![f(-0.0)]),
                ins(vec![f(0.0)]),
                ins(vec![f(f64::NAN)]),
                ins(vec![f(-1.0)]),
                q(leaf(Cmp::Ge, 0, f(0.0))),
                q(leaf(Cmp::Le, 0, f(-0.0))),
                q(leaf(Cmp::Gt, 0, f(-0.0))),
                q(leaf(Cmp::Lt, 0, f(0.0))),
                q(leaf(Cmp::Ge, 0, f(f64::NAN))),
                q(leaf(Cmp::Le, 0, f(f64::INFINITY))),
                Step::Update(leaf(Cmp::Eq, 0, f(0.0)), vec![(ColSel::Col(0), f(2.0))]),
                q(leaf(Cmp::Ge, 0, f(-1.0))),
            ],
        },
        Case {
            name: "omitted-null-hash".into(),
            schema: vec![(Ty::Int, true), (Ty::Int, false)],
            steps: vec![
                Step::CreateHash(ColSel::Col(0)),
                Step::Insert(vec![None, Some(i(1))]),
                Step::Insert(vec![Some(Value::Null), Some(i(2))]),
                q(leaf(Cmp::Eq, 0, Value::Null)),
                q(leaf(Cmp::Ne, 0, i(3))),
            ],
        },
        Case {
            name: "limit-through-index".into(),
            schema: vec![(Ty::Int, false), (Ty::Int, false)],
            steps: vec![
                ins(vec![i(1), i(0)]),
                ins(vec![i(1), i(1)]),
                ins(vec![i(1), i(2)]),
                ins(vec![i(1), i(3)]),
                ins(vec![i(1), i(4)]),
                Step::CreateHash(ColSel::Col(0)),
                Step::Query(and(leaf(Cmp::Eq, 0, i(1)), leaf(Cmp::Eq, 1, i(4))), 1, 0, 1),
                Step::Query(and(leaf(Cmp::Eq, 0, i(1)), leaf(Cmp::Ge, 1, i(2))), 2, 1, 2),
            ],
        },
        Case {
            name: "limit-through-btree-order".into(),
            schema: vec![(Ty::Int, false)],
            steps: vec![
                ins(vec![i(9)]),
                ins(vec![i(8)]),
                ins(vec![i(7)]),
                ins(vec![i(1)]),
                ins(vec![i(2)]),
                Step::CreateBtree(ColSel::Col(0)),
                Step::Query(leaf(Cmp::Ge, 0, i(0)), 2, 0, 2),
                Step::Query(leaf(Cmp::Ge, 0, i(0)), 2, 2, 1),
                // extreme paging parameters: `offset.saturating_add(limit)`, one page holds everything
                Step::Query(leaf(Cmp::Ge, 0, i(2)), usize::MAX, 1, usize::MAX),
                Step::Query(leaf(Cmp::Ne, 0, i(8)), usize::MAX, usize::MAX, 3),
                Step::Query(leaf(Cmp::Ne, 0, i(8)), 1, usize::MAX, 2),
                Step::DropBtree(ColSel::Col(0)),
                Step::Query(leaf(Cmp::Ge, 0, i(2)), usize::MAX, 1, usize::MAX),
                Step::Query(leaf(Cmp::Ne, 0, i(8)), usize::MAX - 1, 2, 1),
            ],
        },
        Case {
            name: "columnar-null-slots".into(),
            schema: vec![(Ty::Int, true), (Ty::Float, true)],
            steps: vec![
                ins(vec![Value::Null, f(f64::INFINITY)]),
                ins(vec![i(7), Value::Null]),
                ins(vec![i(3), f(1.0)]),
                q(leaf(Cmp::Lt, 0, i(5))),
                q(leaf(Cmp::Eq, 0, i(0))),
                q(leaf(Cmp::Ne, 0, i(0))),
                q(leaf(Cmp::Lt, 1, f(0.5))),
                q(leaf(Cmp::Eq, 1, f(0.0))),
                Step::Update(leaf(Cmp::Eq, 0, i(7)), vec![(ColSel::Col(0), Value::Null)]),
                q(leaf(Cmp::Eq, 0, i(7))),
                q(leaf(Cmp::Ge, 0, i(7))),
            ],
        },
        Case {
            name: "columnar-float-eq-remainder".into(),
            schema: vec![(Ty::Float, false)],
            steps: vec![
                ins(vec![f(f64::INFINITY)]),
                ins(vec![f(1.0)]),
                ins(vec![f(f64::from_bits(0x3c90_0000_0000_0000))]),
                q(leaf(Cmp::Eq, 0, f(f64::INFINITY))),
                q(leaf(Cmp::Eq, 0, f(0.0))),
                q(leaf(Cmp::Eq, 0, f(f64::from_bits(0x3ff0_0000_0000_0001)))),
            ],
        },
        Case {
            name: "columnar-true-mask-after-delete".into(),
            schema: vec![(Ty::Int, false)],
            steps: vec![
                ins(vec![i(1)]),
                ins(vec![i(2)]),
                ins(vec![i(3)]),
                Step::Delete(leaf(Cmp::Eq, 0, i(1))),
                q(and(Cond::True, leaf(Cmp::Eq, 0, i(3)))),
                q(or(Cond::True, leaf(Cmp::Eq, 0, i(3)))),
                q(and(leaf(Cmp::Ge, 0, i(0)), Cond::True)),
            ],
        },
        Case {
            name: "index-create-drop-transparent".into(),
            schema: vec![(Ty::Str, true), (Ty::Bytes, true), (Ty::Bool, false)],
            steps: vec![
                ins(vec![Value::String("".into()), Value::Bytes(vec![]), Value::Bool(true)]),
                ins(vec![Value::String("é".into()), Value::Bytes(vec![0xff]), Value::Bool(false)]),
                ins(vec![Value::String("a:b".into()), Value::Null, Value::Bool(true)]),
                ins(vec![Value::Null, Value::Bytes(vec![0]), Value::Bool(false)]),
                q(leaf(Cmp::Ge, 0, Value::String("".into()))),
                Step::CreateBtree(ColSel::Col(0)),
                q(leaf(Cmp::Ge, 0, Value::String("".into()))),
                q(leaf(Cmp::Gt, 0, Value::String("a".into()))),
                Step::CreateHash(ColSel::Col(1)),
                q(leaf(Cmp::Eq, 1, Value::Bytes(vec![]))),
                Step::CreateBtree(ColSel::Col(2)),
                q(leaf(Cmp::Le, 2, Value::Bool(true))),
                q(leaf(Cmp::Eq, 2, Value::Bool(true))),
                Step::CreateHash(ColSel::Id),
                Step::CreateBtree(ColSel::Id),
                q(Cond::Leaf(Cmp::Eq, ColSel::Id, i(2))),
                q(Cond::Leaf(Cmp::Gt, ColSel::Id, i(2))),
                Step::DropBtree(ColSel::Col(0)),
                Step::DropHash(ColSel::Col(1)),
                q(leaf(Cmp::Ge, 0, Value::String("".into()))),
            ],
        },
        Case {
            name: "batch-insert-all-or-nothing".into(),
            schema: vec![(Ty::Int, false), (Ty::Str, true)],
            steps: vec![
                Step::CreateHash(ColSel::Col(0)),
                Step::CreateBtree(ColSel::Col(1)),
                Step::BatchInsert(vec![vec![Some(i(1)), Some(Value::String("a".into()))], vec![Some(i(2)), None]]),
                Step::BatchInsert(vec![vec![Some(i(3)), Some(Value::Null)], vec![None, Some(Value::String("b".into()))], vec![Some(i(4)), None]]),
                Step::BatchInsert(vec![vec![Some(i(5)), Some(Value::Int(7))]]),
                Step::BatchInsert(vec![]),
                q(leaf(Cmp::Eq, 0, i(3))),
                q(leaf(Cmp::Eq, 1, Value::Null)),
                Step::BatchInsert(vec![vec![Some(i(3)), Some(Value::String("a".into()))]]),
                Step::Query(leaf(Cmp::Ge, 1, Value::String("".into())), 0, 1, 1),
                Step::Query(leaf(Cmp::Eq, 0, i(3)), 2, 0, 2),
            ],
        },
        Case {
            name: "aggregates-nan-null-bool".into(),
            schema: vec![(Ty::Float, true), (Ty::Bool, true), (Ty::Int, true)],
            steps: vec![
                ins(vec![f(f64::NAN), Value::Bool(true), i(i64::MAX)]),
                ins(vec![f(1.0), Value::Null, i(i64::MAX)]),
                ins(vec![Value::Null, Value::Bool(false), Value::Null]),
                ins(vec![f(-0.0), Value::Bool(true), i(-1)]),
                ins(vec![f(0.0), Value::Bool(false), i(i64::MIN)]),
                ins(vec![f(f64::NEG_INFINITY), Value::Bool(true), i(3)]),
                // aggregated column = (limit + 2*offset + batch) % 5: c0, c1, c2, `_id`, unknown
                Step::Query(Cond::True, 0, 0, 5),
                Step::Query(Cond::True, 0, 0, 1),
                Step::Query(Cond::True, 0, 1, 5),
                Step::Query(Cond::True, 0, 1, 1),
                Step::Query(Cond::True, 0, 2, 5),
                Step::CreateHash(ColSel::Col(1)),
                Step::CreateBtree(ColSel::Col(0)),
                Step::Query(leaf(Cmp::Eq, 1, Value::Bool(true)), 4, 3, 3),
                Step::Query(leaf(Cmp::Le, 0, f(1.0)), 0, 0, 5),
                Step::Query(leaf(Cmp::Le, 0, f(1.0)), 0, 1, 5),
                Step::Delete(leaf(Cmp::Eq, 0, f(0.0))),
                Step::Query(leaf(Cmp::Le, 0, f(1.0)), 0, 0, 5),
                Step::Query(Cond::True, 0, 1, 5),
            ],
        },
    ];
    cases.push(wide_table_case());
    if thorough {
        cases.push(parallel_aggregate_case());
    }
    cases
}

// ------------------------------------------------------------------ running a case

/// fall-back token part: the error's VARIANT name (first identifier of its Debug rendering), never its text
fn evar<T: std::fmt::Debug>(e: &T) -> String {
    format!("{e:?}").chars().take_while(|c| c.is_alphanumeric() || *c == '_').collect()
}
fn err_class(e: &RelationalError) -> &'static str {
    match e {
        RelationalError::NullNotAllowed(_) => "null_not_allowed",
        RelationalError::TypeMismatch { .. } => "type_mismatch",
        RelationalError::ColumnNotFound(_) => "col_not_found",
        RelationalError::IndexAlreadyExists { .. } => "index_exists",
        RelationalError::IndexNotFound { .. } => "index_not_found",
        RelationalError::TableNotFound(_) => "table_not_found",
        _ => "other",
    }
}

fn row_ids(rows: &[Row]) -> Vec<u64> {
    rows.iter().map(|r| r.id).collect()
}
fn show_ids(v: &[u64]) -> String {
    if v.is_empty() {
        "-".into()
    } else {
        v.iter().map(|x| x.to_string()).collect::<Vec<_>>().join(",")
    }
}
fn image(e: &RelationalEngine) -> Img {
    let mut rows = e.select("t", Condition::True).unwrap_or_default();
    rows.sort_by_key(|r| r.id);
    rows.into_iter().map(|r| (r.id, r.values.into_iter().map(|(_, v)| v).collect())).collect()
}
fn show_img(img: &Img) -> String {
    if img.is_empty() {
        return "-".into();
    }
    img.iter()
        .map(|(id, vs)| format!("{id}={}", vs.iter().map(tok).collect::<Vec<_>>().join(",")))
        .collect::<Vec<_>>()
        .join(";")
}

/// harness-side mirror of `try_index_lookup` for classification and coverage only
fn plan_of(c: &Cond, hash: &[String], btree: &[String]) -> &'static str {
    match c {
        Cond::Leaf(Cmp::Eq, col, _) => if hash.contains(&col_name(col)) { "hash" } else { "scan" },
        Cond::Leaf(Cmp::Ne, _, _) => "scan",
        Cond::Leaf(_, col, _) => if btree.contains(&col_name(col)) { "btree" } else { "scan" },
        Cond::And(a, b) => {
            let p = plan_of(a, hash, btree);
            if p == "scan" { plan_of(b, hash, btree) } else { p }
        },
        _ => "scan",
    }
}

fn cond_has_true(c: &Cond) -> bool {
    match c {
        Cond::True => true,
        Cond::Leaf(..) => false,
        Cond::And(a, b) | Cond::Or(a, b) => cond_has_true(a) || cond_has_true(b),
    }
}
fn cond_leaves<'a>(c: &'a Cond, out: &mut Vec<&'a Cond>) {
    match c {
        Cond::And(a, b) | Cond::Or(a, b) => {
            cond_leaves(a, out);
            cond_leaves(b, out);
        },
        _ => out.push(c),
    }
}

/// The id vectors the engine keeps for one index, read from its store (`_idx:t:<column>:<hash>` for a hash
/// index, `_btree:t:<column>:<sortable key>` for the stored copy of a B-tree; field `ids` = little-endian u64s):
/// every vector in its own order, the vectors ordered by their smallest id.  `None` when a vector cannot be
/// read this way (another layout): order checks are then skipped, never failed -- the ORDER inside a vector is
/// no observable of the property, it is what the model's witnesses and the shape statistics rest on.
fn real_buckets(e: &RelationalEngine, kind: &str, col: &str) -> Option<Vec<Vec<u64>>> {
    let prefix = format!("{}:t:{col}:", if kind == "h" { "_idx" } else { "_btree" });
    let mut out: Vec<Vec<u64>> = Vec::new();
    for key in e.store().scan(&prefix) {
        let t = e.store().get(&key).ok()?;
        match t.get("ids") {
            Some(tensor_store::TensorValue::Scalar(tensor_store::ScalarValue::Bytes(b))) if b.len() % 8 == 0 && !b.is_empty() => {
                out.push(b.chunks_exact(8).map(|ch| u64::from_le_bytes(ch.try_into().expect("8 bytes"))).collect());
            },
            _ => return None,
        }
    }
    out.sort_by_key(|b| b.iter().copied().min().unwrap_or(0));
    Some(out)
}
fn show_buckets(bs: &[Vec<u64>]) -> String {
    if bs.is_empty() {
        "-".into()
    } else {
        bs.iter().map(|b| b.iter().map(u64::to_string).collect::<Vec<_>>().join(",")).collect::<Vec<_>>().join(";")
    }
}
fn ascending(b: &[u64]) -> bool {
    b.windows(2).all(|w| w[0] < w[1])
}
/// The same rows with FRESHLY BUILT indexes: a new engine receives the data operations of the case up to step
/// `upto` (no index, no rolled-back statement -- neither changes a row), then the given indexes are created over
/// the rows as they are now (`create_index` scans in id order: every id vector ascending), then `select`.
/// Used only to classify a wrong answer: right here and wrong on the engine that lived through the history
/// means the answer depends on the HISTORY of the indexes, not on the rows or on which indexes exist.
fn fresh_indexed_select(case: &Case, upto: usize, hash: &[String], btree: &[String], cond: &Condition) -> Option<Vec<u64>> {
    let e = RelationalEngine::new();
    let cols: Vec<Column> = case.schema.iter().enumerate().map(|(i, (t, n))| {
        let c = Column::new(format!("c{i}"), ty_col(*t));
        if *n { c.nullable() } else { c }
    }).collect();
    e.create_table("t", Schema::new(cols)).ok()?;
    let row_map = |vs: &Vec<Option<Value>>| -> HashMap<String, Value> {
        vs.iter().enumerate().filter_map(|(i, v)| v.clone().map(|v| (format!("c{i}"), v))).collect()
    };
    for step in case.steps.iter().take(upto) {
        match step {
            Step::Insert(vs) | Step::InsertExtra(vs) => {
                let _ = e.insert("t", row_map(vs));
            },
            Step::BatchInsert(rows) => {
                let _ = e.batch_insert("t", rows.iter().map(row_map).collect());
            },
            Step::Update(c, sets) => {
                let _ = e.update("t", to_engine(c), sets.iter().map(|(c, v)| (col_name(c), v.clone())).collect());
            },
            Step::Delete(c) => {
                let _ = e.delete_rows("t", to_engine(c));
            },
            _ => {},
        }
    }
    for c in hash {
        let _ = e.create_index("t", c);
    }
    for c in btree {
        let _ = e.create_btree_index("t", c);
    }
    e.select("t", cond.clone()).ok().map(|r| row_ids(&r))
}

/// the leaf whose index `try_index_lookup` uses: the first index-usable leaf of the AND spine, left to right
fn lookup_leaf<'a>(c: &'a Cond, hash: &[String], btree: &[String]) -> Option<&'a Cond> {
    match c {
        Cond::Leaf(..) => if plan_of(c, hash, btree) == "scan" { None } else { Some(c) },
        Cond::And(a, b) => lookup_leaf(a, hash, btree).or_else(|| lookup_leaf(b, hash, btree)),
        _ => None,
    }
}

/// stable, machine-computed `<site>/<kind>` of a strategy's wrong answer; `lk` = the leaf the index lookup of
/// this engine uses (`lookup_leaf`), `history_dependent` = the same rows with freshly built indexes are
/// answered correctly (`fresh_indexed_select`), `indexed` = every id that stands in some id vector of the hash
/// index that is looked up (read from the store; `None` = not readable)
#[allow(clippy::too_many_arguments)]
fn classify(strategy: &str, plan: &str, c: &Cond, got: &[u64], want: &[u64], img: &Img, dead_slots: bool, history_dependent: bool, lk: Option<&Cond>, indexed: Option<&[u64]>) -> String {
    let missing: Vec<u64> = want.iter().filter(|x| !got.contains(x)).copied().collect();
    let extra: Vec<u64> = got.iter().filter(|x| !want.contains(x)).copied().collect();
    let mut leaves = Vec::new();
    cond_leaves(c, &mut leaves);
    let val_of = |id: u64, col: &ColSel| img.iter().find(|(i, _)| *i == id).and_then(|(i, vs)| h_get(*i, vs, col));
    let generic = if !missing.is_empty() && extra.is_empty() {
        "missing_rows"
    } else if missing.is_empty() && !extra.is_empty() {
        "extra_rows"
    } else {
        "wrong_rows"
    };
    match strategy {
        "select" | "count" => {
            let site = match plan {
                "hash" => "relational_engine.hash_index",
                "btree" => "relational_engine.btree_index",
                _ => "relational_engine.scan",
            };
            // a row with NULL in the looked-up column is missed by `= NULL` and its id stands in NO id vector of that
            // index: the row was never filed (when the store cannot be read: the signature alone)
            if plan == "hash" && !missing.is_empty() {
                if let Some(Cond::Leaf(Cmp::Eq, col, Value::Null)) = lk {
                    if missing.iter().any(|id| val_of(*id, col) == Some(Value::Null) && indexed.is_none_or(|ix| !ix.contains(id))) {
                        return format!("{site}/null_row_not_indexed");
                    }
                }
            }
            // same rows, same set of indexes, the indexes built afresh: the right answer -- so what is wrong is
            // what the history of inserts / updates / deletes / rollbacks left in the index (the order of the ids
            // in its vectors, for one), not the bucket function (a wrong bucket function fails on fresh indexes too)
            if plan != "scan" && history_dependent {
                return format!("{site}/answer_depends_on_index_history");
            }
            // the bucket-function classes: only the leaf that is looked up in the hash index can miss a row this way
            if plan == "hash" && !missing.is_empty() {
                for l in lk.iter() {
                    if let Cond::Leaf(Cmp::Eq, col, v) = l {
                        if let Value::Float(z) = v {
                            if *z == 0.0 && missing.iter().any(|id| matches!(val_of(*id, col), Some(Value::Float(x)) if x == 0.0 && x.to_bits() != z.to_bits())) {
                                return format!("{site}/negative_zero_missed");
                            }
                        }
                        // a missing row holds a JSON value that equals the constant, renders differently, and
                        // renders the same once every floating-point zero is written `0.0`
                        if let Value::Json(k) = v {
                            if missing.iter().any(|id| matches!(val_of(*id, col), Some(Value::Json(x))
                                if j_eq(&x, k) && x.to_string() != k.to_string() && j_pos_zeros(&x).to_string() == j_pos_zeros(k).to_string()))
                            {
                                return format!("{site}/json_negative_zero_missed");
                            }
                        }
                    }
                }
            }
            if strategy == "count" {
                format!("{site}/wrong_count")
            } else {
                format!("{site}/{generic}")
            }
        },
        "limit" | "select_iter" | "streaming" | "streaming_max" => {
            let site = match strategy {
                "limit" => "relational_engine.select_with_limit",
                "select_iter" => "relational_engine.select_iter",
                _ => "relational_engine.streaming_cursor",
            };
            if plan == "scan" {
                format!("{site}/scan_path_wrong_page")
            } else {
                format!("{site}/index_path_wrong_page")
            }
        },
        "columnar" | "router_parsed" => {
            let site = "relational_engine.select_columnar";
            if !extra.is_empty() {
                for l in &leaves {
                    if let Cond::Leaf(_, col, _) = l {
                        if extra.iter().any(|id| val_of(*id, col) == Some(Value::Null)) {
                            return format!("{site}/null_slot_matched");
                        }
                    }
                }
            }
            if !missing.is_empty() {
                for l in &leaves {
                    if let Cond::Leaf(Cmp::Ne, col, _) = l {
                        if missing.iter().any(|id| val_of(*id, col) == Some(Value::Null)) {
                            return format!("{site}/null_slot_matched");
                        }
                    }
                }
            }
            if cond_has_true(c) && dead_slots {
                return format!("{site}/true_mask_ignores_deleted_slots");
            }
            if leaves.iter().any(|l| matches!(l, Cond::Leaf(Cmp::Eq, _, Value::Float(_)))) {
                return format!("{site}/float_eq_not_exact");
            }
            format!("{site}/{generic}")
        },
        "router_text" => format!("query_router.execute/{generic}"),
        _ => format!("relational_engine.{strategy}/{generic}"),
    }
}

/// record at most 3 violations per class (the report keeps 50 in total), count all of them
fn viol(rep: &mut Report, class: &str, what: &str, input: serde_json::Value) {
    rep.hit(&format!("violation.{class}"));
    let n = rep.distribution.get(&format!("violation.{class}")).copied().unwrap_or(0);
    if n <= 3 {
        rep.violation(class, what, input);
    }
}

/// model (repaired semantics) vs oracle, used where the implementation already broke the property
fn continue_model_compare(rep: &mut Report, m: &mut Model, is_model_engine: bool, strategy: &str, mline: &Option<String>, want_s: &[u64], input: &dyn Fn() -> serde_json::Value) {
    if !is_model_engine {
        return;
    }
    if let Some(line) = mline {
        let ma = m.ask(line);
        let ans = ma.split_once(" | ").map_or(ma.clone(), |(a, _)| a.to_string());
        let mstream = format!("model.{strategy}");
        rep.case(&mstream, None);
        let w = if strategy == "count" { want_s[0].to_string() } else { show_ids(want_s) };
        rep.compare(&mstream, || json!({"case": input(), "line": line, "note": "model vs oracle (implementation violated the property on this input)"}), &w, &ans);
    }
}

/// canonical answers of the five aggregates over one column
struct AggAns {
    countcol: String,
    sum: String,
    avg: String,
    min: String,
    max: String,
}

/// reference aggregates: computed from the full-scan image and the oracle's row set only
fn agg_reference(acol: &ColSel, want: &[u64], img: &Img) -> AggAns {
    let vals: Vec<Option<Value>> = img
        .iter()
        .filter(|(id, _)| want.contains(id))
        .map(|(_, vs)| match acol {
            ColSel::Col(i) => vs.get(*i).cloned(),
            _ => None, // `_id` is not a stored column, `zz` does not exist
        })
        .collect();
    agg_from_vals(acol, &vals)
}

/// the five aggregates of a list of column values (`None` = the row has no such column), folded in list order
fn agg_from_vals(acol: &ColSel, vals: &[Option<Value>]) -> AggAns {
    let countcol = match acol {
        ColSel::Col(_) => format!("ok {}", vals.iter().filter(|v| matches!(v, Some(x) if *x != Value::Null)).count()),
        _ => "err col_not_found".to_string(),
    };
    let (mut sum, mut cnt) = (0.0_f64, 0u64);
    for v in vals.iter().flatten() {
        match v {
            Value::Int(i) => {
                sum += *i as f64;
                cnt += 1;
            },
            Value::Float(f) => {
                sum += *f;
                cnt += 1;
            },
            _ => {},
        }
    }
    let extreme = |want: Ordering| -> String {
        let mut cur: Option<Value> = None;
        for v in vals.iter().flatten() {
            if *v == Value::Null {
                continue;
            }
            cur = match cur {
                None => Some(v.clone()),
                Some(c) => if h_cmp(v, &c) == Some(want) { Some(v.clone()) } else { Some(c) },
            };
        }
        cur.map_or("none".to_string(), |v| tok(&v))
    };
    AggAns {
        countcol,
        sum: tok(&Value::Float(sum)),
        avg: if cnt == 0 { "none".to_string() } else { tok(&Value::Float(sum / cnt as f64)) },
        min: extreme(Ordering::Less),
        max: extreme(Ordering::Greater),
    }
}

/// the model answers `sum` with the list of addends; the f64 additions are done here, in the model's order
fn fold_terms(terms: &str) -> (String, String) {
    let (mut sum, mut cnt) = (0.0_f64, 0u64);
    if terms != "-" {
        for t in terms.split(',') {
            if let Some(rest) = t.strip_prefix('i') {
                sum += rest.parse::<i64>().unwrap_or(0) as f64;
                cnt += 1;
            } else if let Some(rest) = t.strip_prefix('f') {
                sum += f64::from_bits(u64::from_str_radix(rest, 16).unwrap_or(0));
                cnt += 1;
            }
        }
    }
    (tok(&Value::Float(sum)), if cnt == 0 { "none".to_string() } else { tok(&Value::Float(sum / cnt as f64)) })
}

struct Stats {
    state_changes: u64,
    nonempty: u64,
}

#[allow(clippy::too_many_lines)]
fn run_case(case: &Case, rep: &mut Report, m: &mut Model, text_budget: &mut u64) {
    let e0 = RelationalEngine::new();
    let router = query_router::QueryRouter::new();
    let eall = router.relational();
    let em = RelationalEngine::new();
    let cols: Vec<Column> = case
        .schema
        .iter()
        .enumerate()
        .map(|(i, (t, n))| {
            let c = Column::new(format!("c{i}"), ty_col(*t));
            if *n { c.nullable() } else { c }
        })
        .collect();
    for e in [&e0, eall, &em] {
        e.create_table("t", Schema::new(cols.clone())).expect("create_table");
    }
    for i in 0..case.schema.len() {
        eall.create_index("t", &format!("c{i}")).expect("eall hash");
        eall.create_btree_index("t", &format!("c{i}")).expect("eall btree");
    }
    eall.create_index("t", "_id").expect("eall hash _id");
    eall.create_btree_index("t", "_id").expect("eall btree _id");
    let all_cols: Vec<String> = (0..case.schema.len()).map(|i| format!("c{i}")).chain(std::iter::once("_id".to_string())).collect();
    let names: Vec<&str> = (0..case.schema.len()).map(|_| "").collect::<Vec<_>>();
    let _ = names;
    let colnames: Vec<String> = (0..case.schema.len()).map(|i| format!("c{i}")).collect();
    let colrefs: Vec<&str> = colnames.iter().map(String::as_str).collect();
    for e in [&e0, eall, &em] {
        e.materialize_columns("t", &colrefs).expect("materialize");
    }
    let ans = m.ask(&format!(
        "new {}",
        case.schema.iter().map(|(t, n)| format!("{}{}", ty_char(*t), u8::from(*n))).collect::<Vec<_>>().join(" ")
    ));
    assert_eq!(ans, "ok", "model new");
    let mut em_hash: Vec<String> = Vec::new();
    let mut em_btree: Vec<String> = Vec::new();
    let mut st = Stats { state_changes: 0, nonempty: 0 };
    let mut total_inserted: u64 = 0;
    let key: String = case.steps.iter().map(step_text).collect::<Vec<_>>().join("|");
    // directed bucket cases and the `moves` stream always, every fourth random case
    let check_buckets = case.name.starts_with("bucket-") || case.name.starts_with("moves-") || fnv(&case.name) % 4 == 0;

    for (si, step) in case.steps.iter().enumerate() {
        let input = || case_json(case, si);
        match step {
            Step::Insert(vs) | Step::InsertExtra(vs) => {
                rep.hit("op.insert");
                let mut map: HashMap<String, Value> =
                    vs.iter().enumerate().filter_map(|(i, v)| v.clone().map(|v| (format!("c{i}"), v))).collect();
                if matches!(step, Step::InsertExtra(_)) {
                    rep.hit("op.insert.unknown_extra_key");
                    map.insert("zz".to_string(), Value::Int(1));
                }
                if vs.iter().any(Option::is_none) {
                    rep.hit("op.insert.omitted_column");
                }
                let r0 = e0.insert("t", map.clone());
                let ra = eall.insert("t", map.clone());
                let rm = em.insert("t", map);
                let show = |r: &Result<u64, RelationalError>| match r {
                    Ok(id) => format!("ok {id}"),
                    Err(e) => format!("err {}", err_class(e)),
                };
                let (s0, sa, sm) = (show(&r0), show(&ra), show(&rm));
                if s0 != sa || s0 != sm {
                    viol(rep, "relational_engine.insert/index_changes_outcome", &format!("insert answered {s0} without index, {sa} with all indexes, {sm} with the generated indexes"), input());
                }
                let line = format!("ins {}", vs.iter().map(|v| v.as_ref().map_or("n".to_string(), tok)).collect::<Vec<_>>().join(" "));
                let ma = m.ask(&line);
                rep.case("ops", None);
                rep.compare("ops", || json!({"case": input(), "line": line}), &sm, &ma);
                if r0.is_ok() {
                    st.state_changes += 1;
                    total_inserted += 1;
                } else {
                    rep.hit(&format!("op.insert.{}", &s0[4..]));
                }
            },
            Step::BatchInsert(rows) => {
                rep.hit("op.batch_insert");
                let before = image(&e0);
                let maps: Vec<HashMap<String, Value>> = rows
                    .iter()
                    .map(|vs| vs.iter().enumerate().filter_map(|(i, v)| v.clone().map(|v| (format!("c{i}"), v))).collect())
                    .collect();
                let r0 = e0.batch_insert("t", maps.clone());
                let ra = eall.batch_insert("t", maps.clone());
                let rm = em.batch_insert("t", maps);
                let show = |r: &Result<Vec<u64>, RelationalError>| match r {
                    Ok(ids) => format!("ok {}", show_ids(ids)),
                    Err(e) => format!("err {}", err_class(e)),
                };
                let (s0, sa, sm) = (show(&r0), show(&ra), show(&rm));
                if s0 != sa || s0 != sm {
                    viol(rep, "relational_engine.batch_insert/index_changes_outcome", &format!("batch_insert answered {s0} without index, {sa} with all indexes, {sm} with the generated indexes"), input());
                }
                // oracle: every row valid => all appended with fresh consecutive ids; otherwise nothing stored
                let all_valid = rows.iter().all(|vs| {
                    vs.iter().zip(case.schema.iter()).all(|(v, (ty, nullable))| match v {
                        None | Some(Value::Null) => *nullable,
                        Some(v) => well_typed(*ty, v),
                    })
                });
                let mut expect = before.clone();
                if all_valid {
                    for (k, vs) in rows.iter().enumerate() {
                        expect.push((total_inserted + 1 + k as u64, vs.iter().map(|v| v.clone().unwrap_or(Value::Null)).collect()));
                    }
                }
                let exp = show_img(&expect);
                for (name, img, ok) in [("no_index", image(&e0), r0.is_ok()), ("all_indexes", image(eall), ra.is_ok()), ("generated_indexes", image(&em), rm.is_ok())] {
                    if ok != all_valid {
                        viol(rep, "relational_engine.batch_insert/wrong_outcome", &format!("batch_insert ({name}) {} although {}", if ok { "succeeded" } else { "failed" }, if all_valid { "every row is valid" } else { "a row is invalid" }), input());
                    } else if show_img(&img) != exp {
                        viol(rep, "relational_engine.batch_insert/not_all_or_nothing", &format!("after batch_insert ({name}) the table is {} but 'all rows appended or nothing stored' gives {exp}", show_img(&img)), input());
                    }
                }
                let line = format!(
                    "bins {} {}",
                    rows.len(),
                    rows.iter().flat_map(|vs| vs.iter().map(|v| v.as_ref().map_or("n".to_string(), tok))).collect::<Vec<_>>().join(" ")
                );
                let ma = m.ask(&line);
                rep.case("ops", None);
                rep.compare("ops", || json!({"case": input(), "line": line}), &sm, &ma);
                let md = m.ask("dump");
                rep.case("image", None);
                rep.compare("image", || json!({"case": input(), "after": line}), &show_img(&image(&em)), &md);
                if let Ok(ids) = &r0 {
                    if !ids.is_empty() {
                        st.state_changes += 1;
                    }
                    total_inserted += ids.len() as u64;
                    rep.hit("op.batch_insert.ok");
                } else {
                    rep.hit(&format!("op.batch_insert.{}", &s0[4..]));
                }
            },
            Step::Update(c, sets) => {
                rep.hit("op.update");
                let before = image(&e0);
                let map: HashMap<String, Value> = sets.iter().map(|(c, v)| (col_name(c), v.clone())).collect();
                let ec = to_engine(c);
                let r0 = e0.update("t", ec.clone(), map.clone());
                // the all-index engine takes the statement as text when it can be rendered faithfully
                let mut ra: Option<Result<usize, String>> = None;
                if *text_budget > 0 && si % 2 == 1 {
                    // AST path: `UPDATE t SET c = v, ... WHERE <tree>`
                    if let (Some(w), Some(setv)) = (
                        parsed_text(c),
                        sets.iter().map(|(c, v)| if *c == ColSel::Unknown { None } else { parsed_value(v).map(|s| format!("{} = {}", col_name(c), s)) }).collect::<Option<Vec<_>>>(),
                    ) {
                        if !setv.is_empty() {
                            *text_budget = text_budget.saturating_sub(1);
                            let stmt = format!("UPDATE t SET {} WHERE {}", setv.join(", "), w);
                            match router.execute_parsed(&stmt) {
                                Ok(query_router::QueryResult::Count(n)) => {
                                    rep.hit("text.update_parsed");
                                    ra = Some(Ok(n));
                                },
                                Ok(_) => ra = Some(Err("other".into())),
                                Err(query_router::RouterError::RelationalError(msg)) => {
                                    rep.hit("text.update_parsed");
                                    ra = Some(Err(msg));
                                },
                                Err(_) => {
                                    rep.hit("text.update_parsed_unsupported");
                                },
                            }
                        }
                    }
                }
                if *text_budget > 0 && ra.is_none() {
                    if let (Some(w), Some(setv)) = (
                        legacy_text(c),
                        sets.iter().map(|(c, v)| legacy_value(v).filter(|s| !s.contains(',') && !s.contains('=')).map(|s| format!("{}={}", col_name(c), s))).collect::<Option<Vec<_>>>(),
                    ) {
                        if !setv.is_empty() {
                            *text_budget = text_budget.saturating_sub(1);
                            let stmt = format!("UPDATE t SET {} WHERE {}", setv.join(", "), w);
                            match router.execute(&stmt) {
                                Ok(query_router::QueryResult::Count(n)) => {
                                    rep.hit("text.update");
                                    ra = Some(Ok(n));
                                },
                                Ok(_) => ra = Some(Err("other".into())),
                                Err(query_router::RouterError::RelationalError(msg)) => {
                                    rep.hit("text.update");
                                    ra = Some(Err(msg));
                                },
                                Err(_) => {
                                    rep.hit("text.update_unsupported");
                                },
                            }
                        }
                    }
                }
                let ra: Result<usize, String> = match ra {
                    Some(x) => x,
                    None => eall.update("t", ec.clone(), map.clone()).map_err(|e| err_class(&e).to_string()),
                };
                let rm = em.update("t", ec, map);
                let show = |r: &Result<usize, RelationalError>| match r {
                    Ok(n) => format!("ok {n}"),
                    Err(e) => format!("err {}", err_class(e)),
                };
                let (s0, sm) = (show(&r0), show(&rm));
                // oracle: exactly the matching rows change, exactly to the new values
                let want_ids = oracle_ids(c, &before);
                let mut expect = before.clone();
                if r0.is_ok() {
                    for (id, vals) in &mut expect {
                        if want_ids.contains(id) {
                            for (c, v) in sets {
                                if let ColSel::Col(i) = c {
                                    vals[*i] = v.clone();
                                }
                            }
                        }
                    }
                }
                let (a0, aa, am) = (image(&e0), image(eall), image(&em));
                let exp = show_img(&expect);
                for (name, img, cnt) in [("no_index", &a0, r0.as_ref().ok().copied()), ("all_indexes", &aa, ra.as_ref().ok().copied()), ("generated_indexes", &am, rm.as_ref().ok().copied())] {
                    if show_img(img) != exp {
                        viol(rep, "relational_engine.update/touched_wrong_rows", &format!("after UPDATE ({name}) the table image differs from 'matching rows updated, others untouched': got {} want {exp}", show_img(img)), input());
                    } else if let Some(n) = cnt {
                        if r0.is_ok() && n != want_ids.len() {
                            viol(rep, "relational_engine.update/wrong_count", &format!("UPDATE ({name}) reported {n} rows, {} match", want_ids.len()), input());
                        }
                    }
                }
                if r0.is_ok() != ra.is_ok() || r0.is_ok() != rm.is_ok() {
                    viol(rep, "relational_engine.update/index_changes_outcome", &format!("update answered {s0} / {ra:?} / {sm} on the three engines"), input());
                }
                let line = format!(
                    "upd {} {} {}",
                    sets.len(),
                    sets.iter().map(|(c, v)| format!("{} {}", col_model(c), tok(v))).collect::<Vec<_>>().join(" "),
                    to_model(c)
                );
                let ma = m.ask(&line);
                rep.case("ops", None);
                rep.compare("ops", || json!({"case": input(), "line": line}), &sm, &ma);
                let md = m.ask("dump");
                rep.case("image", None);
                rep.compare("image", || json!({"case": input(), "after": line}), &show_img(&am), &md);
                if let Ok(n) = r0 {
                    if n > 0 {
                        st.state_changes += 1;
                    }
                    rep.hit(if n > 0 { "op.update.touched" } else { "op.update.none" });
                } else {
                    rep.hit(&format!("op.update.{}", &s0[4..]));
                }
            },
            Step::Delete(c) => {
                rep.hit("op.delete");
                let before = image(&e0);
                let ec = to_engine(c);
                let r0 = e0.delete_rows("t", ec.clone());
                let mut ra: Option<usize> = None;
                if *text_budget > 0 && si % 2 == 1 {
                    // AST path: `DELETE FROM t WHERE <tree>`
                    if let Some(w) = parsed_text(c) {
                        *text_budget = text_budget.saturating_sub(1);
                        match router.execute_parsed(&format!("DELETE FROM t WHERE {w}")) {
                            Ok(query_router::QueryResult::Count(n)) => {
                                rep.hit("text.delete_parsed");
                                ra = Some(n);
                            },
                            _ => rep.hit("text.delete_parsed_unsupported"),
                        }
                    }
                }
                if *text_budget > 0 && ra.is_none() {
                    if let Some(w) = legacy_text(c) {
                        *text_budget = text_budget.saturating_sub(1);
                        match router.execute(&format!("DELETE t WHERE {w}")) {
                            Ok(query_router::QueryResult::Count(n)) => {
                                rep.hit("text.delete");
                                ra = Some(n);
                            },
                            _ => rep.hit("text.delete_unsupported"),
                        }
                    }
                }
                let ra = match ra {
                    Some(n) => Ok(n),
                    None => eall.delete_rows("t", ec.clone()),
                };
                let rm = em.delete_rows("t", ec);
                let want_ids = oracle_ids(c, &before);
                let expect: Img = before.iter().filter(|(id, _)| !want_ids.contains(id)).cloned().collect();
                let exp = show_img(&expect);
                let (a0, aa, am) = (image(&e0), image(eall), image(&em));
                for (name, img, cnt) in [("no_index", &a0, r0.as_ref().ok().copied()), ("all_indexes", &aa, ra.as_ref().ok().copied()), ("generated_indexes", &am, rm.as_ref().ok().copied())] {
                    if show_img(img) != exp {
                        viol(rep, "relational_engine.delete/touched_wrong_rows", &format!("after DELETE ({name}) the table image differs from 'matching rows removed, others untouched': got {} want {exp}", show_img(img)), input());
                    } else if cnt != Some(want_ids.len()) {
                        viol(rep, "relational_engine.delete/wrong_count", &format!("DELETE ({name}) reported {cnt:?} rows, {} match", want_ids.len()), input());
                    }
                }
                let sm = match &rm {
                    Ok(n) => format!("ok {n}"),
                    Err(e) => format!("err {}", err_class(e)),
                };
                let line = format!("del {}", to_model(c));
                let ma = m.ask(&line);
                rep.case("ops", None);
                rep.compare("ops", || json!({"case": input(), "line": line}), &sm, &ma);
                let md = m.ask("dump");
                rep.case("image", None);
                rep.compare("image", || json!({"case": input(), "after": line}), &show_img(&am), &md);
                if !want_ids.is_empty() {
                    st.state_changes += 1;
                    rep.hit("op.delete.touched");
                } else {
                    rep.hit("op.delete.none");
                }
            },
            Step::CreateHash(c) | Step::CreateBtree(c) | Step::DropHash(c) | Step::DropBtree(c) => {
                let n = col_name(c);
                let (r, line, tag) = match step {
                    Step::CreateHash(_) => (em.create_index("t", &n), format!("cidx h {}", col_model(c)), "op.create_index"),
                    Step::CreateBtree(_) => (em.create_btree_index("t", &n), format!("cidx o {}", col_model(c)), "op.create_btree_index"),
                    Step::DropHash(_) => (em.drop_index("t", &n), format!("didx h {}", col_model(c)), "op.drop_index"),
                    _ => (em.drop_btree_index("t", &n), format!("didx o {}", col_model(c)), "op.drop_btree_index"),
                };
                rep.hit(tag);
                let s = match &r {
                    Ok(()) => "ok".to_string(),
                    Err(e) => format!("err {}", err_class(e)),
                };
                if r.is_ok() {
                    match step {
                        Step::CreateHash(_) => em_hash.push(n.clone()),
                        Step::CreateBtree(_) => em_btree.push(n.clone()),
                        Step::DropHash(_) => em_hash.retain(|x| *x != n),
                        _ => em_btree.retain(|x| *x != n),
                    }
                } else {
                    rep.hit(&format!("{tag}.{}", &s[4..]));
                }
                let ma = m.ask(&line);
                rep.case("ops", None);
                rep.compare("ops", || json!({"case": input(), "line": line}), &s, &ma);
                // an index operation must not change the table
                let (a0, am) = (image(&e0), image(&em));
                if show_img(&a0) != show_img(&am) {
                    viol(rep, "relational_engine.index_ddl/changed_table", "table image differs after an index create/drop", input());
                }
            },
            Step::DeleteRollback(c) | Step::UpdateRollback(c, _) => {
                let is_del = matches!(step, Step::DeleteRollback(_));
                rep.hit(if is_del { "op.delete_rollback" } else { "op.update_rollback" });
                let before = image(&e0);
                let want_ids = oracle_ids(c, &before);
                let ec = to_engine(c);
                let no_sets: Vec<(ColSel, Value)> = Vec::new();
                let sets = if let Step::UpdateRollback(_, sets) = step { sets } else { &no_sets };
                let map: HashMap<String, Value> = sets.iter().map(|(c, v)| (col_name(c), v.clone())).collect();
                let mut answers: Vec<String> = Vec::new();
                for (name, e) in [("no_index", &e0), ("all_indexes", eall), ("generated_indexes", &em)] {
                    let tx = e.begin_transaction();
                    let r = if is_del { e.tx_delete(tx, "t", ec.clone()) } else { e.tx_update(tx, "t", ec.clone(), map.clone()) };
                    let rb = e.rollback(tx);
                    let a = match &r {
                        Ok(n) => format!("ok {n}"),
                        Err(er) => format!("err {}", err_class(er)),
                    };
                    if let Err(er) = &rb {
                        viol(rep, "relational_engine.rollback/error", &format!("rollback ({name}) failed: {}", evar(er)), input());
                    }
                    // oracle: a rolled-back statement changes no row; while it ran it counted exactly the matching rows
                    let after = image(e);
                    if show_img(&after) != show_img(&before) {
                        viol(rep, "relational_engine.rollback/changed_table", &format!("after begin / {} / rollback ({name}) the table is {} but it was {}", if is_del { "tx_delete" } else { "tx_update" }, show_img(&after), show_img(&before)), input());
                    } else if let Ok(n) = &r {
                        if *n != want_ids.len() {
                            viol(rep, &format!("relational_engine.{}/wrong_count", if is_del { "tx_delete" } else { "tx_update" }), &format!("the rolled-back statement ({name}) reported {n} rows, {} match", want_ids.len()), input());
                        }
                    }
                    answers.push(a);
                }
                if answers[0] != answers[1] || answers[0] != answers[2] {
                    viol(rep, "relational_engine.rollback/index_changes_outcome", &format!("the rolled-back statement answered {} / {} / {} on the three engines", answers[0], answers[1], answers[2]), input());
                }
                let line = if is_del {
                    format!("rbdel {}", to_model(c))
                } else {
                    format!("rbupd {} {} {}", sets.len(), sets.iter().map(|(c, v)| format!("{} {}", col_model(c), tok(v))).collect::<Vec<_>>().join(" "), to_model(c))
                };
                let ma = m.ask(&line);
                rep.case("ops", None);
                rep.compare("ops", || json!({"case": input(), "line": line}), &answers[2], &ma);
                let md = m.ask("dump");
                rep.case("image", None);
                rep.compare("image", || json!({"case": input(), "after": line}), &show_img(&image(&em)), &md);
                rep.hit(if answers[0].starts_with("ok") && !want_ids.is_empty() { "op.rollback.touched" } else { "op.rollback.none" });
            },
            Step::Query(c, limit, offset, batch) => {
                rep.hit("op.query");
                let img = image(&e0);
                let (ia, im) = (image(eall), image(&em));
                if show_img(&img) != show_img(&ia) || show_img(&img) != show_img(&im) {
                    viol(rep, "relational_engine.table_image/diverged", "the three engines hold different rows after the same operations", input());
                    continue;
                }
                let dead_slots = (img.len() as u64) < total_inserted;
                let want = oracle_ids(c, &img);
                if !want.is_empty() {
                    st.nonempty += 1;
                }
                let ec = to_engine(c);
                let cm = to_model(c);
                {
                    let mut ls = Vec::new();
                    cond_leaves(c, &mut ls);
                    for l in ls {
                        if let Cond::Leaf(Cmp::Eq, ColSel::Col(ci), Value::Json(k)) = l {
                            rep.hit("json.eq_leaf");
                            if img.iter().any(|(_, vs)| matches!(vs.get(*ci), Some(Value::Json(x)) if j_eq(x, k) && x.to_string() != k.to_string())) {
                                rep.hit("json.eq_leaf_matches_differently_rendered_row");
                            }
                        }
                    }
                }
                // the engine's own row-level evaluate against the reference semantics
                for (id, vals) in &img {
                    let row = Row { id: *id, values: vals.iter().enumerate().map(|(i, v)| (format!("c{i}"), v.clone())).collect() };
                    if ec.evaluate(&row) != h_eval(c, *id, vals) {
                        viol(rep, "relational_engine.condition_evaluate/differs_from_reference", "Condition::evaluate disagrees with the reference semantics on one row", json!({"case": input(), "row": show_img(&vec![(*id, vals.clone())])}));
                    }
                }
                let spec_model = m.ask(&format!("q scan {cm}"));
                rep.case("spec", Some(&format!("{key}#{si}")));
                rep.compare("spec", || json!({"case": input(), "cond": cm}), &show_ids(&want), &spec_model);

                // the id vectors of the generated-index engine against the model's, ORDER included; the candidate list
                // of this query in the order the code produces it (shape statistics)
                if check_buckets {
                    for (kind, cols) in [("h", &em_hash), ("o", &em_btree)] {
                        for col in cols {
                            // the stored copy of a B-tree is keyed by `sortable_key`, which tells -0.0 from 0.0 and the NaNs
                            // from one another; the in-memory map (and the model) does not
                            let float_col = col.strip_prefix('c').and_then(|x| x.parse::<usize>().ok()).is_some_and(|i| case.schema[i].0 == Ty::Float);
                            if kind == "o" && float_col {
                                continue;
                            }
                            let ma = m.ask(&format!("buckets {kind} {col}"));
                            match real_buckets(&em, kind, col) {
                                Some(bs) if !(bs.is_empty() && ma != "-") => {
                                    rep.case("bucket_order", None);
                                    rep.hit(if bs.iter().all(|b| ascending(b)) { "bucket_order.all_ascending" } else { "bucket_order.some_vector_not_ascending" });
                                    rep.compare("bucket_order", || json!({"case": input(), "index": format!("{kind} {col}")}), &show_buckets(&bs), &ma);
                                },
                                _ => rep.hit("bucket_order.unreadable"),
                            }
                        }
                    }
                    let cand = m.ask(&format!("q cand {cm}"));
                    if cand != "scan" && cand != "-" {
                        let ids: Vec<u64> = cand.split(',').filter_map(|x| x.parse().ok()).collect();
                        rep.hit(if ascending(&ids) { "shape.candidates_ascending" } else { "shape.candidates_not_ascending" });
                    }
                    // a two-index AND (left side answered by an index, right side `=` on a hash-indexed column) whose
                    // right-hand bucket is out of id order, per engine
                    if let Cond::And(a, b) = c {
                        if let Cond::Leaf(Cmp::Eq, bcol, bv) = b.as_ref() {
                            for (ename, e, hs, bs) in [("all_indexes", eall, &all_cols, &all_cols), ("generated_indexes", &em, &em_hash, &em_btree)] {
                                if plan_of(a, hs, bs) != "scan" && hs.contains(&col_name(bcol)) {
                                    let holders: Vec<u64> = img.iter().filter(|(id, vs)| h_get(*id, vs, bcol).is_some_and(|x| h_eq(&x, bv))).map(|(id, _)| *id).collect();
                                    let unsorted = real_buckets(e, "h", &col_name(bcol)).unwrap_or_default().iter().any(|bk| !ascending(bk) && bk.iter().any(|id| holders.contains(id)));
                                    rep.hit(&format!("shape.and_two_indexes.{ename}.right_bucket_{}", if unsorted { "not_ascending" } else { "ascending" }));
                                    if unsorted && !want.is_empty() {
                                        rep.hit(&format!("shape.and_two_indexes.{ename}.right_bucket_not_ascending.nonempty_answer"));
                                    }
                                }
                            }
                        }
                    }
                }
                let page = |ids: &[u64], l: usize, o: usize| -> Vec<u64> { ids.iter().skip(o).take(l).copied().collect() };
                // derived parameters (kept out of `Step::Query` so that old replays stay valid)
                let max_rows = limit.wrapping_mul(2).wrapping_add(*offset) % 7;
                let acol = match limit.wrapping_add(offset.wrapping_mul(2)).wrapping_add(*batch) % (case.schema.len() + 2) {
                    k if k < case.schema.len() => ColSel::Col(k),
                    k if k == case.schema.len() => ColSel::Id,
                    _ => ColSel::Unknown,
                };
                let agg_want = agg_reference(&acol, &want, &img);
                let engines: [(&str, &RelationalEngine, Vec<String>, Vec<String>); 3] = [
                    ("no_index", &e0, vec![], vec![]),
                    ("all_indexes", eall, all_cols.clone(), all_cols.clone()),
                    ("generated_indexes", &em, em_hash.clone(), em_btree.clone()),
                ];
                let mut eall_select: Option<Vec<u64>> = None;
                for (ename, e, hs, bs) in &engines {
                    let plan = plan_of(c, hs, bs);
                    let is_model_engine = *ename == "generated_indexes";
                    // (strategy, answer of the engine, oracle answer, model line)
                    let mut runs: Vec<(&str, Result<Vec<u64>, String>, Vec<u64>, Option<String>)> = Vec::new();
                    runs.push(("select", e.select("t", ec.clone()).map(|r| row_ids(&r)).map_err(|e| e.to_string()), want.clone(), Some(format!("q select {cm}"))));
                    runs.push(("limit", e.select_with_limit("t", ec.clone(), *limit, *offset).map(|r| row_ids(&r)).map_err(|e| e.to_string()), page(&want, *limit, *offset), Some(format!("q limit {limit} {offset} {cm}"))));
                    runs.push(("count", e.count("t", ec.clone()).map(|n| vec![n]).map_err(|e| e.to_string()), vec![want.len() as u64], Some(format!("q count {cm}"))));
                    runs.push((
                        "columnar",
                        e.select_columnar("t", ec.clone(), ColumnarScanOptions { projection: None, prefer_columnar: true }).map(|r| row_ids(&r)).map_err(|e| e.to_string()),
                        want.clone(),
                        Some(format!("q columnar {cm}")),
                    ));
                    let mut opts = CursorOptions::new().with_offset(*offset);
                    let it_want = if *limit > 0 {
                        opts = opts.with_limit(*limit);
                        page(&want, *limit, *offset)
                    } else {
                        want.iter().skip(*offset).copied().collect()
                    };
                    runs.push((
                        "select_iter",
                        e.select_iter("t", ec.clone(), opts).map_err(|e| e.to_string()).and_then(|cur| cur.map(|r| r.map(|r| r.id).map_err(|e| e.to_string())).collect::<Result<Vec<u64>, String>>()),
                        it_want,
                        Some(format!("q iter {} {offset} {cm}", if *limit > 0 { limit.to_string() } else { "-".to_string() })),
                    ));
                    runs.push((
                        "streaming",
                        e.select_streaming("t", ec.clone()).with_batch_size(*batch).map(|r| r.map(|r| r.id).map_err(|e| e.to_string())).collect::<Result<Vec<u64>, String>>(),
                        want.clone(),
                        Some(format!("q cursor {batch} {cm}")),
                    ));
                    // the derived checks (cursor with max_rows, aggregates) run on the model-mirrored engine for every
                    // query and on the other two engines for every second query (quick-tier time budget)
                    let sampled = is_model_engine || si % 2 == 0;
                    if sampled {
                    runs.push((
                        "streaming_max",
                        e.select_streaming("t", ec.clone()).with_batch_size(*batch).with_max_rows(max_rows).map(|r| r.map(|r| r.id).map_err(|e| e.to_string())).collect::<Result<Vec<u64>, String>>(),
                        want.iter().take(max_rows).copied().collect(),
                        Some(format!("q cursorm {batch} {max_rows} {cm}")),
                    ));
                    }
                    // what plain `select` answered on this engine: a derived strategy that merely repeats a wrong
                    // `select` answer is attributed to `select`'s class, not reported a second time
                    let sel_got: Option<Vec<u64>> = runs[0].1.as_ref().ok().cloned();
                    let col_got: Option<Vec<u64>> = runs.iter().find(|r| r.0 == "columnar").and_then(|r| r.1.as_ref().ok().cloned());
                    if *ename == "all_indexes" {
                        eall_select = sel_got.clone();
                    }
                    for (strategy, got, want_s, mline) in runs {
                        let stream = format!("{strategy}.{ename}");
                        rep.case(&stream, None);
                        rep.hit(&format!("plan.{strategy}.{}", if strategy == "columnar" { "any" } else { plan }));
                        let mut flagged = false;
                        match &got {
                            Ok(ids) => {
                                if *ids != want_s {
                                    flagged = true;
                                    let inherited = strategy != "select" && sel_got.as_ref().is_some_and(|sg| {
                                        *sg != want && match strategy {
                                            "count" => ids[0] == sg.len() as u64,
                                            "limit" => *ids == page(sg, *limit, *offset),
                                            "select_iter" => *ids == if *limit > 0 { page(sg, *limit, *offset) } else { sg.iter().skip(*offset).copied().collect() },
                                            "streaming_max" => *ids == sg.iter().take(max_rows).copied().collect::<Vec<u64>>(),
                                            _ => ids == sg,
                                        }
                                    });
                                    if inherited {
                                        rep.hit(&format!("inherits_select_defect.{strategy}"));
                                        continue_model_compare(rep, m, is_model_engine, strategy, &mline, &want_s, &input);
                                        continue;
                                    }
                                    let history_dependent = strategy == "select" && plan != "scan" && fresh_indexed_select(case, si, hs, bs, &ec).is_some_and(|fresh| fresh == want);
                                    let lk = lookup_leaf(c, hs, bs);
                                    let indexed: Option<Vec<u64>> = match (plan, lk) {
                                        ("hash", Some(Cond::Leaf(_, col, _))) => real_buckets(e, "h", &col_name(col)).map(|b| b.concat()),
                                        _ => None,
                                    };
                                    let class = classify(strategy, plan, c, ids, &want_s, &img, dead_slots, history_dependent, lk, indexed.as_deref());
                                    viol(rep, &class, &format!("{strategy} on engine '{ename}' (plan {plan}) returned {} but exactly {} satisfy the condition", show_ids(ids), show_ids(&want_s)), json!({"case": input(), "strategy": strategy, "engine": ename, "limit": limit, "offset": offset, "batch": batch, "table": show_img(&img)}));
                                }
                            },
                            Err(msg) => {
                                flagged = true;
                                viol(rep, &format!("relational_engine.{strategy}/error"), &format!("{strategy} on engine '{ename}' failed: {msg}"), input());
                            },
                        }
                        if is_model_engine {
                            if let Some(line) = mline {
                                let ma = m.ask(&line);
                                let (ans, mplan) = match ma.split_once(" | ") {
                                    Some((a, p)) => (a.to_string(), p.to_string()),
                                    None => (ma.clone(), String::new()),
                                };
                                if !mplan.is_empty() {
                                    rep.hit(&format!("br.{strategy}.{mplan}"));
                                    if strategy == "select" && mplan != plan {
                                        rep.disagree("plan", json!({"case": input(), "line": line}), plan, &mplan);
                                    }
                                }
                                let mstream = format!("model.{strategy}");
                                rep.case(&mstream, None);
                                if !flagged {
                                    let imp = match &got {
                                        Ok(ids) if strategy == "count" => ids[0].to_string(),
                                        Ok(ids) => show_ids(ids),
                                        // (an Err is flagged above and never reaches this comparison; no message text in a compared token)
                                        Err(_) => "error".to_string(),
                                    };
                                    rep.compare(&mstream, || json!({"case": input(), "line": line}), &imp, &ans);
                                } else {
                                    // the implementation already broke the property here; the model (repaired
                                    // semantics) must still equal the oracle
                                    let w = if strategy == "count" { want_s[0].to_string() } else { show_ids(&want_s) };
                                    rep.compare(&mstream, || json!({"case": input(), "line": line, "note": "model vs oracle (implementation violated the property on this input)"}), &w, &ans);
                                }
                            }
                        }
                    }
                    // the word-level model of the vectorised path (two extreme choices of the unspecified storage)
                    if is_model_engine {
                        let ma = m.ask(&format!("q columnarw {cm}"));
                        rep.case("model.columnar_words", None);
                        let imp = match &col_got {
                            Some(ids) if *ids == want => format!("{} ; {}", show_ids(ids), show_ids(ids)),
                            // the implementation already broke the property here: the model must still equal the oracle
                            _ => format!("{} ; {}", show_ids(&want), show_ids(&want)),
                        };
                        rep.compare("model.columnar_words", || json!({"case": input(), "cond": cm}), &imp, &ma);
                    }
                    // aggregates over the same condition: count_column has its own three paths, the others fold
                    // over `select`
                    if !sampled {
                        continue;
                    }
                    let aname = col_name(&acol);
                    let got = AggAns {
                        countcol: match e.count_column("t", &aname, ec.clone()) {
                            Ok(n) => format!("ok {n}"),
                            Err(er) => format!("err {}", err_class(&er)),
                        },
                        sum: e.sum("t", &aname, ec.clone()).map_or_else(|er| format!("error:{}", evar(&er)), |x| tok(&Value::Float(x))),
                        avg: e.avg("t", &aname, ec.clone()).map_or_else(|er| format!("error:{}", evar(&er)), |x| x.map_or("none".to_string(), |x| tok(&Value::Float(x)))),
                        min: e.min("t", &aname, ec.clone()).map_or_else(|er| format!("error:{}", evar(&er)), |x| x.map_or("none".to_string(), |x| tok(&x))),
                        max: e.max("t", &aname, ec.clone()).map_or_else(|er| format!("error:{}", evar(&er)), |x| x.map_or("none".to_string(), |x| tok(&x))),
                    };
                    rep.case(&format!("agg.{ename}"), None);
                    rep.hit(&format!("agg.col.{}", match acol { ColSel::Col(_) => "schema", ColSel::Id => "_id", ColSel::Unknown => "unknown" }));
                    let select_wrong = sel_got.as_ref().is_some_and(|sg| *sg != want);
                    let mut agg_flagged = false;
                    for (name, g, w, via_select) in [
                        ("count_column", &got.countcol, &agg_want.countcol, false),
                        ("sum", &got.sum, &agg_want.sum, true),
                        ("avg", &got.avg, &agg_want.avg, true),
                        ("min", &got.min, &agg_want.min, true),
                        ("max", &got.max, &agg_want.max, true),
                    ] {
                        if g != w {
                            agg_flagged = true;
                            // count_column has its own index path over the same lookup: a count that is exactly the
                            // count over `select`'s wrong row set is that defect, not a second one
                            let same_as_select = !via_select && select_wrong && sel_got.as_ref().is_some_and(|sg| agg_reference(&acol, sg, &img).countcol == *g);
                            if (via_select && select_wrong) || same_as_select {
                                rep.hit(&format!("inherits_select_defect.{name}"));
                            } else {
                                viol(rep, &format!("relational_engine.{name}/not_over_matching_rows"), &format!("{name}({aname}) on engine '{ename}' (plan {plan}) answered {g} but over exactly the matching rows it is {w}"), json!({"case": input(), "aggregate": name, "column": aname, "engine": ename, "table": show_img(&img)}));
                            }
                        }
                    }
                    if is_model_engine {
                        let mcol = col_model(&acol);
                        // one line: countcol=<..> terms=<..> min=<..> max=<..>
                        let ma = m.ask(&format!("q aggs {mcol} {cm}"));
                        let field = |k: &str| -> String {
                            ma.split(&format!("{k}=")).nth(1).map_or(String::new(), |r| {
                                let end = [" terms=", " min=", " max="].iter().filter_map(|t| r.find(t)).min().unwrap_or(r.len());
                                r[..end].to_string()
                            })
                        };
                        let (m_cc, m_terms, m_min, m_max) = (field("countcol"), field("terms"), field("min"), field("max"));
                        let (m_sum, m_avg) = fold_terms(&m_terms);
                        let mans = format!("countcol={m_cc} sum={m_sum} avg={m_avg} min={m_min} max={m_max}");
                        rep.case("model.agg", None);
                        let imp = if agg_flagged { &agg_want } else { &got };
                        rep.compare("model.agg", || json!({"case": input(), "column": aname, "cond": cm, "terms": m_terms, "note": if agg_flagged { "model vs oracle (implementation violated the property on this input)" } else { "" }}), &format!("countcol={} sum={} avg={} min={} max={}", imp.countcol, imp.sum, imp.avg, imp.min, imp.max), &mans);
                    }
                }
                // the same statement as text through the router (engine with every index)
                if *text_budget > 0 {
                    // OFFSET / LIMIT and aggregates as text
                    if *limit > 0 {
                        if let Some(w) = parsed_text(c) {
                            *text_budget = text_budget.saturating_sub(1);
                            let stmt = format!("SELECT * FROM t WHERE {w} LIMIT {limit} OFFSET {offset}");
                            match router.execute_parsed(&stmt) {
                                Ok(query_router::QueryResult::Rows(rows)) => {
                                    rep.case("router_parsed_window", None);
                                    rep.hit("text.select_parsed_window");
                                    let ids = row_ids(&rows);
                                    let w_ids = page(&want, *limit, *offset);
                                    let inherited = eall_select.as_ref().is_some_and(|sg| *sg != want && ids == page(sg, *limit, *offset));
                                    if ids != w_ids && inherited {
                                        rep.hit("inherits_select_defect.router_parsed_window");
                                    } else if ids != w_ids {
                                        viol(rep, "query_router.exec_select/wrong_window", &format!("`{stmt}` returned {} but the window of the matching rows is {}", show_ids(&ids), show_ids(&w_ids)), json!({"case": input(), "statement": stmt, "table": show_img(&img)}));
                                    } else {
                                        let ma = m.ask(&format!("q router {limit} {offset} {cm}"));
                                        rep.case("model.router", None);
                                        rep.compare("model.router", || json!({"case": input(), "statement": stmt}), &show_ids(&ids), &ma);
                                    }
                                },
                                Ok(_) => rep.hit("text.select_parsed_window_other_result"),
                                Err(_) => rep.hit("text.select_parsed_window_unsupported"),
                            }
                        }
                        if let Some(w) = legacy_text(c) {
                            *text_budget = text_budget.saturating_sub(1);
                            let stmt = format!("SELECT * FROM t WHERE {w} LIMIT {limit}");
                            match router.execute(&stmt) {
                                Ok(query_router::QueryResult::Rows(rows)) => {
                                    rep.case("router_text_limit", None);
                                    rep.hit("text.select_limit");
                                    let ids = row_ids(&rows);
                                    let w_ids = page(&want, *limit, 0);
                                    let inherited = eall_select.as_ref().is_some_and(|sg| *sg != want && ids == page(sg, *limit, 0));
                                    if ids != w_ids && inherited {
                                        rep.hit("inherits_select_defect.router_text_limit");
                                    } else if ids != w_ids {
                                        viol(rep, "query_router.execute/wrong_window", &format!("`{stmt}` returned {} but the first {limit} matching rows are {}", show_ids(&ids), show_ids(&w_ids)), json!({"case": input(), "statement": stmt, "table": show_img(&img)}));
                                    } else {
                                        let ma = m.ask(&format!("q routerl {limit} {cm}"));
                                        rep.case("model.router", None);
                                        rep.compare("model.router", || json!({"case": input(), "statement": stmt}), &show_ids(&ids), &ma);
                                    }
                                },
                                Ok(_) => rep.hit("text.select_limit_other_result"),
                                Err(_) => rep.hit("text.select_limit_unsupported"),
                            }
                        }
                    }
                    if let (ColSel::Col(_), Some(w)) = (&acol, parsed_text(c)) {
                        *text_budget = text_budget.saturating_sub(1);
                        let a = col_name(&acol);
                        let stmt = format!("SELECT COUNT(*), COUNT({a}), SUM({a}), AVG({a}), MIN({a}), MAX({a}) FROM t WHERE {w}");
                        match router.execute_parsed(&stmt) {
                            Ok(query_router::QueryResult::Rows(rows)) if rows.len() == 1 && rows[0].values.len() == 6 => {
                                rep.case("router_parsed_agg", None);
                                rep.hit("text.aggregates");
                                let v = &rows[0].values;
                                let opt = |x: &Value| if *x == Value::Null { "none".to_string() } else { tok(x) };
                                let got = format!("count={} countcol=ok {} sum={} avg={} min={} max={}", tok(&v[0].1).trim_start_matches('i'), tok(&v[1].1).trim_start_matches('i'), tok(&v[2].1), opt(&v[3].1), opt(&v[4].1), opt(&v[5].1));
                                let exp = format!("count={} countcol={} sum={} avg={} min={} max={}", want.len(), agg_want.countcol, agg_want.sum, agg_want.avg, agg_want.min, agg_want.max);
                                let select_wrong = eall_select.as_ref().is_some_and(|sg| *sg != want);
                                if got != exp && select_wrong {
                                    rep.hit("inherits_select_defect.router_parsed_agg");
                                } else if got != exp {
                                    viol(rep, "query_router.aggregate/not_over_matching_rows", &format!("`{stmt}` returned {got} but over exactly the matching rows it is {exp}"), json!({"case": input(), "statement": stmt, "table": show_img(&img)}));
                                }
                            },
                            Ok(_) => rep.hit("text.aggregates_other_result"),
                            Err(_) => rep.hit("text.aggregates_unsupported"),
                        }
                    }
                    if let Some(w) = legacy_text(c) {
                        *text_budget = text_budget.saturating_sub(1);
                        let stmt = format!("SELECT * FROM t WHERE {w}");
                        match router.execute(&stmt) {
                            Ok(query_router::QueryResult::Rows(rows)) => {
                                rep.case("router_text", None);
                                rep.hit("text.select");
                                let ids = row_ids(&rows);
                                if ids != want && eall_select.as_ref() == Some(&ids) {
                                    rep.hit("inherits_select_defect.router_text");
                                } else if ids != want {
                                    let class = classify("router_text", "any", c, &ids, &want, &img, dead_slots, false, None, None);
                                    viol(rep, &class, &format!("`{stmt}` returned {} but exactly {} satisfy the condition", show_ids(&ids), show_ids(&want)), json!({"case": input(), "statement": stmt, "table": show_img(&img)}));
                                }
                            },
                            Ok(_) => rep.hit("text.select_other_result"),
                            Err(_) => rep.hit("text.select_unsupported"),
                        }
                    }
                    if let Some(w) = parsed_text(c) {
                        *text_budget = text_budget.saturating_sub(1);
                        let stmt = format!("SELECT * FROM t WHERE {w}");
                        match router.execute_parsed(&stmt) {
                            Ok(query_router::QueryResult::Rows(rows)) => {
                                rep.case("router_parsed", None);
                                rep.hit("text.select_parsed");
                                let mut ids = row_ids(&rows);
                                ids.sort_unstable();
                                if ids != want && eall_select.as_ref() == Some(&ids) {
                                    rep.hit("inherits_select_defect.router_parsed");
                                } else if ids != want {
                                    let class = classify("router_parsed", "any", c, &ids, &want, &img, dead_slots, false, None, None);
                                    viol(rep, &class, &format!("`{stmt}` (parser path) returned {} but exactly {} satisfy the condition", show_ids(&ids), show_ids(&want)), json!({"case": input(), "statement": stmt, "table": show_img(&img)}));
                                }
                            },
                            Ok(_) => rep.hit("text.select_parsed_other_result"),
                            Err(_) => rep.hit("text.select_parsed_unsupported"),
                        }
                    }
                }
            },
        }
    }
    let nontrivial = st.state_changes > 0 && st.nonempty > 0;
    rep.case("cases", if nontrivial { Some(&key) } else { None });
    if rep.samples.len() < 6 && nontrivial {
        rep.sample(case_json(case, case.steps.len().min(14)));
    }
}

/// the Lean `Value.eq` / `partialCmp` (FloatBits) against the real f64 / i64 / string comparisons
fn value_semantics(rep: &mut Report, m: &mut Model, r: &mut Rng, n: usize) {
    for k in 0..n {
        let ta = *r.pick(&[Ty::Int, Ty::Float, Ty::Float, Ty::Float, Ty::Str, Ty::Bool, Ty::Bytes, Ty::Json, Ty::Json]);
        let tb = if r.chance(4, 5) { ta } else { *r.pick(&[Ty::Int, Ty::Float, Ty::Str, Ty::Bool, Ty::Bytes, Ty::Json]) };
        let mut a = gen_val(r, ta);
        let mut b = gen_val(r, tb);
        if k % 7 == 0 {
            if let (Ty::Float, Ty::Float) = (ta, tb) {
                a = Value::Float(f64::from_bits(r.next_u64()));
                b = if r.chance(1, 3) { a.clone() } else { Value::Float(f64::from_bits(r.next_u64())) };
            }
        }
        if k % 11 == 0 {
            b = Value::Null;
        }
        if let (Value::Json(x), true) = (&a, k % 3 == 1) {
            b = Value::Json(j_flip_zeros(x));
        }
        // real engine: derived PartialEq and the public row-level evaluate
        let row = Row { id: 1, values: vec![("c0".to_string(), a.clone())] };
        let eq = Condition::Eq("c0".into(), b.clone()).evaluate(&row);
        let lt = Condition::Lt("c0".into(), b.clone()).evaluate(&row);
        let gt = Condition::Gt("c0".into(), b.clone()).evaluate(&row);
        let le = Condition::Le("c0".into(), b.clone()).evaluate(&row);
        let cmp = if lt { "lt" } else if gt { "gt" } else if le { "eq" } else { "none" };
        let imp = format!("eq={} cmp={cmp}", u8::from(eq));
        if eq != (a == b) {
            viol(rep, "relational_engine.condition_evaluate/eq_differs_from_partial_eq", "Condition::Eq disagrees with Value ==", json!({"a": tok(&a), "b": tok(&b)}));
        }
        let line = format!("vcmp {} {}", tok(&a), tok(&b));
        let ans = m.ask(&line);
        rep.case("value_semantics", Some(&line));
        rep.hit(&format!("vcmp.{cmp}"));
        if let (Value::Json(x), Value::Json(y)) = (&a, &b) {
            rep.hit("vcmp.json_pair");
            if eq && x.to_string() != y.to_string() {
                rep.hit("vcmp.json_equal_but_rendered_differently");
            }
        }
        rep.compare("value_semantics", || json!({"line": line}), &imp, &ans);
        let href = format!("eq={} cmp={}", u8::from(h_eq(&a, &b)), match h_cmp(&a, &b) { Some(Ordering::Less) => "lt", Some(Ordering::Equal) => "eq", Some(Ordering::Greater) => "gt", None => "none" });
        if href != imp {
            viol(rep, "relational_engine.condition_evaluate/differs_from_reference", "value comparison of the engine differs from the reference", json!({"line": line, "engine": imp, "reference": href}));
        }
    }
}

// ------------------------------------------------------------------ max_condition_depth

fn cond_depth(c: &Cond) -> usize {
    match c {
        Cond::And(a, b) | Cond::Or(a, b) => 1 + cond_depth(a).max(cond_depth(b)),
        _ => 0,
    }
}

/// a condition tree of exactly the given nesting depth over small integer columns
fn deep_cond(r: &mut Rng, depth: u32, ncols: usize) -> Cond {
    if depth == 0 {
        if r.chance(1, 8) {
            return Cond::True;
        }
        let op = *r.pick(&[Cmp::Eq, Cmp::Ne, Cmp::Lt, Cmp::Le, Cmp::Gt, Cmp::Ge]);
        let col = if r.chance(1, 10) { ColSel::Id } else { ColSel::Col(r.below(ncols as u64) as usize) };
        let v = if r.chance(1, 10) { Value::Null } else { Value::Int(r.range(0, 3)) };
        return Cond::Leaf(op, col, v);
    }
    let deep = deep_cond(r, depth - 1, ncols);
    let other_depth = r.below(u64::from(depth)) as u32;
    let other = deep_cond(r, other_depth, ncols);
    let (a, b) = if r.chance(1, 2) { (deep, other) } else { (other, deep) };
    if r.chance(1, 2) { and(a, b) } else { or(a, b) }
}

/// `Condition::evaluate_with_depth` (the function every row path of the engine calls) against the model's
/// `evalDepth`, and against the reference semantics: an `Ok` answer must be `evaluate`'s answer, and a tree
/// within the limit must not fail.
fn depth_rows(rep: &mut Report, m: &mut Model, r: &mut Rng, n: usize) {
    for _ in 0..n {
        let depth = r.below(7) as u32;
        let c = deep_cond(r, depth, 2);
        let mx = r.below(7) as usize;
        let d = if r.chance(3, 4) { 0 } else { r.below(3) as usize };
        let id = 1 + r.below(3);
        let vals: Vec<Value> = (0..2).map(|_| if r.chance(1, 6) { Value::Null } else { Value::Int(r.range(0, 3)) }).collect();
        let row = Row { id, values: vals.iter().enumerate().map(|(i, v)| (format!("c{i}"), v.clone())).collect() };
        let got = to_engine(&c).evaluate_with_depth(&row, d, mx);
        let imp = match &got {
            Ok(b) => format!("ok {}", u8::from(*b)),
            Err(RelationalError::ConditionTooDeep { .. }) => "err too_deep".to_string(),
            // fall-back: the variant's name, never its message text (BUILDING.md "Error canonicalisation")
            Err(e) => format!("error:{}", evar(e)),
        };
        let line = format!("evald {mx} {d} {id} 2 {} {}", vals.iter().map(tok).collect::<Vec<_>>().join(" "), to_model(&c));
        let ma = m.ask(&line);
        rep.case("depth_rows", Some(&line));
        rep.hit(&format!("depth_rows.{}", if got.is_ok() { "ok" } else { "too_deep" }));
        rep.compare("depth_rows", || json!({"line": line}), &imp, &ma);
        let reference = h_eval(&c, id, &vals);
        match got {
            Ok(b) if b != reference => viol(rep, "relational_engine.evaluate_with_depth/differs_from_evaluate", &format!("evaluate_with_depth answered {b}, the condition is {reference} on this row"), json!({"line": line})),
            Err(_) if d + cond_depth(&c) <= mx => viol(rep, "relational_engine.evaluate_with_depth/spurious_too_deep", "ConditionTooDeep although the tree is within max_depth", json!({"line": line})),
            _ => {},
        }
    }
}

/// engines configured with a small `max_condition_depth`: every strategy either fails with ConditionTooDeep or
/// returns exactly the matching rows; UPDATE / DELETE either fail before touching anything or do their job
#[allow(clippy::too_many_lines)]
fn depth_engine(rep: &mut Report, m: &mut Model, r: &mut Rng, n_cases: usize) {
    for k in 0..n_cases {
        let mx = r.below(3) as usize;
        let e = RelationalEngine::with_config(RelationalConfig::default().with_max_condition_depth(mx));
        e.create_table("t", Schema::new(vec![Column::new("c0", ColumnType::Int), Column::new("c1", ColumnType::Int).nullable()])).expect("create_table");
        assert_eq!(m.ask("new i0 i1"), "ok");
        let mut script: Vec<String> = vec![format!("max_condition_depth={mx}")];
        let nrows = 2 + r.below(5);
        for _ in 0..nrows {
            let v0 = Value::Int(r.range(0, 3));
            let v1 = if r.chance(1, 4) { Value::Null } else { Value::Int(r.range(0, 3)) };
            let _ = e.insert("t", HashMap::from([("c0".to_string(), v0.clone()), ("c1".to_string(), v1.clone())]));
            let line = format!("ins {} {}", tok(&v0), tok(&v1));
            m.ask(&line);
            script.push(line);
        }
        if r.chance(1, 2) {
            let _ = e.create_index("t", "c0");
            m.ask("cidx h c0");
            script.push("cidx h c0".into());
        }
        if r.chance(1, 2) {
            let _ = e.create_btree_index("t", "c1");
            m.ask("cidx o c1");
            script.push("cidx o c1".into());
        }
        for _ in 0..8 {
            let depth = r.below(mx as u64 + 3) as u32;
            let c = deep_cond(r, depth, 2);
            let (ec, cm) = (to_engine(&c), to_model(&c));
            let within = cond_depth(&c) <= mx;
            let img = image_or_empty(&e);
            let want = oracle_ids(&c, &img);
            let (limit, offset) = (r.below(4) as usize, r.below(3) as usize);
            let op = r.below(10);
            let too_deep = |er: &RelationalError| matches!(er, RelationalError::ConditionTooDeep { .. });
            let ids_ans = |res: Result<Vec<Row>, RelationalError>| -> (String, Option<Vec<u64>>) {
                match res {
                    Ok(rows) => (show_ids(&row_ids(&rows)), Some(row_ids(&rows))),
                    Err(er) if too_deep(&er) => ("err too_deep".to_string(), None),
                    Err(er) => (format!("error:{}", evar(&er)), None),
                }
            };
            // (operation name, model line, engine answer, rows the oracle expects when the answer is Ok)
            let (name, line, imp, ok_ids, want_ids): (&str, String, String, Option<Vec<u64>>, Vec<u64>) = match op {
                0 | 1 => {
                    let (a, i) = ids_ans(e.select("t", ec));
                    ("select", format!("qd {mx} select {cm}"), a, i, want.clone())
                },
                2 => {
                    let (a, i) = match e.count("t", ec) {
                        Ok(n) => (n.to_string(), Some(vec![n])),
                        Err(er) if too_deep(&er) => ("err too_deep".to_string(), None),
                        Err(er) => (format!("error:{}", evar(&er)), None),
                    };
                    ("count", format!("qd {mx} count {cm}"), a, i, vec![want.len() as u64])
                },
                3 | 4 => {
                    let (a, i) = ids_ans(e.select_with_limit("t", ec, limit, offset));
                    ("limit", format!("qd {mx} limit {limit} {offset} {cm}"), a, i, want.iter().skip(offset).take(limit).copied().collect())
                },
                5 | 6 => {
                    let (a, i) = ids_ans(e.select_columnar("t", ec, ColumnarScanOptions { projection: None, prefer_columnar: true }));
                    ("columnar", format!("qd {mx} columnar {cm}"), a, i, want.clone())
                },
                7 => {
                    let res = e.delete_rows("t", ec);
                    let a = match &res {
                        Ok(n) => format!("ok {n}"),
                        Err(er) if too_deep(er) => "err too_deep".to_string(),
                        Err(er) => format!("error:{}", evar(&er)),
                    };
                    let after = image_or_empty(&e);
                    let expect: Img = if res.is_ok() { img.iter().filter(|(id, _)| !want.contains(id)).cloned().collect() } else { img.clone() };
                    if show_img(&after) != show_img(&expect) {
                        viol(rep, "relational_engine.delete/touched_wrong_rows", &format!("DELETE under max_condition_depth={mx} answered {a}; table {} expected {}", show_img(&after), show_img(&expect)), json!({"script": script, "cond": cm}));
                    }
                    ("delete", format!("deld {mx} {cm}"), a, res.ok().map(|n| vec![n as u64]), vec![want.len() as u64])
                },
                _ => {
                    let nv = Value::Int(r.range(0, 3));
                    let res = e.update("t", ec, HashMap::from([("c1".to_string(), nv.clone())]));
                    let a = match &res {
                        Ok(n) => format!("ok {n}"),
                        Err(er) if too_deep(er) => "err too_deep".to_string(),
                        Err(er) => format!("error:{}", evar(&er)),
                    };
                    let after = image_or_empty(&e);
                    let mut expect = img.clone();
                    if res.is_ok() {
                        for (id, vals) in &mut expect {
                            if want.contains(id) {
                                vals[1] = nv.clone();
                            }
                        }
                    }
                    if show_img(&after) != show_img(&expect) {
                        viol(rep, "relational_engine.update/touched_wrong_rows", &format!("UPDATE under max_condition_depth={mx} answered {a}; table {} expected {}", show_img(&after), show_img(&expect)), json!({"script": script, "cond": cm}));
                    }
                    ("update", format!("updd {mx} 1 c1 {} {cm}", tok(&nv)), a, res.ok().map(|n| vec![n as u64]), vec![want.len() as u64])
                },
            };
            script.push(line.clone());
            let ma = m.ask(&line);
            let ma = ma.split_once(" | ").map_or(ma.clone(), |(a, _)| a.to_string());
            rep.case("depth_engine", Some(&format!("{k}:{line}")));
            rep.hit(&format!("depth_engine.{name}.{}", if ok_ids.is_some() { "ok" } else { "too_deep" }));
            rep.compare("depth_engine", || json!({"script": script, "line": line}), &imp, &ma);
            match &ok_ids {
                Some(ids) if *ids != want_ids => viol(rep, &format!("relational_engine.{name}/wrong_rows_under_depth_limit"), &format!("{name} under max_condition_depth={mx} answered {imp}, exactly {} satisfy the condition", show_ids(&want_ids)), json!({"script": script, "line": line})),
                None if within => viol(rep, &format!("relational_engine.{name}/spurious_too_deep"), &format!("{name} failed although the condition tree (depth {}) is within max_condition_depth={mx}", cond_depth(&c)), json!({"script": script, "line": line})),
                _ => {},
            }
            if matches!(op, 7..) {
                let md = m.ask("dump");
                rep.case("image", None);
                rep.compare("image", || json!({"script": script, "after": line}), &show_img(&image_or_empty(&e)), &md);
            }
        }
    }
}

// ------------------------------------------------------------------ large selections: the rayon branch of the aggregates
//
// `sum` / `avg` / `min` / `max` fold sequentially over fewer than PARALLEL_THRESHOLD (1000) selected rows and
// split the rows over rayon workers from 1000 on.  The property does not know about the threshold: the aggregate
// is the aggregate of exactly the selected rows, NULLs ignored, whatever the strategy.  The tables here select
// 999 / 1000 / 1001 / ~2500 rows; every nullable column carries its NULLs in a different place (first row, last
// row, where a halving split cuts, directly after the extreme, everywhere).  Values are small integers or
// multiples of 0.25 (no NaN, one zero sign): every reduction order gives the same extreme and the same f64 sum.

/// (selected by `c0 = 1`?, values of the nullable columns c1..)
type ParRow = (bool, Vec<Value>);

struct ParTable {
    name: String,
    ty: Ty,
    placements: Vec<String>,
    rows: Vec<ParRow>,
}

fn par_value(ty: Ty, k: i64) -> Value {
    if ty == Ty::Float { Value::Float(k as f64 * 0.25) } else { Value::Int(k) }
}

const PAR_PLACEMENTS: [&str; 9] = ["none", "first", "last", "halving_cuts", "after_extremes", "last_two_and_extremes_early", "alternating", "all_but_one", "all"];

/// is the `k`-th of `n` selected rows NULL under the named placement?  (`lo` / `hi` = positions of the extremes)
fn par_is_null(placement: &str, k: usize, n: usize, lo: usize, hi: usize) -> bool {
    match placement {
        "first" => k == 0,
        "last" => k + 1 == n,
        // where rayon's halving of the row vector cuts, both sides of every cut down to 1/16
        "halving_cuts" => (1..16).any(|j| { let c = n * j / 16; k == c || k + 1 == c }),
        "after_extremes" => k == lo + 1 || k == hi + 1,
        "last_two_and_extremes_early" => k + 2 >= n,
        "alternating" => k % 2 == 1,
        "all_but_one" => k != n / 3,
        "all" => true,
        _ => false,
    }
}

fn par_directed_table(ty: Ty, n_sel: usize) -> ParTable {
    let (lo, hi) = (n_sel / 2 - 1, n_sel / 5);
    let mut rows: Vec<ParRow> = Vec::new();
    for k in 0..n_sel {
        // an unselected row (values beyond both extremes, or NULL) before every 97th selected row
        if k % 97 == 3 {
            rows.push((false, PAR_PLACEMENTS.iter().enumerate().map(|(j, _)| if (k + j) % 2 == 0 { Value::Null } else { par_value(ty, if k % 2 == 0 { -9000 } else { 9000 }) }).collect()));
        }
        let base = ((k as i64 * 37) % 101) - 50;
        let v = if k == lo { -700 } else if k == hi { 700 } else { base };
        rows.push((true, PAR_PLACEMENTS.iter().map(|p| if par_is_null(p, k, n_sel, lo, hi) { Value::Null } else { par_value(ty, v) }).collect()));
    }
    rows.push((false, PAR_PLACEMENTS.iter().map(|_| par_value(ty, -9001)).collect()));
    rows.push((false, PAR_PLACEMENTS.iter().map(|_| Value::Null).collect()));
    ParTable { name: format!("par-{}-{n_sel}", ty_char(ty)), ty, placements: PAR_PLACEMENTS.iter().map(|s| (*s).to_string()).collect(), rows }
}

fn par_random_table(r: &mut Rng, idx: usize) -> ParTable {
    let ty = if r.chance(1, 2) { Ty::Int } else { Ty::Float };
    let n_sel = match r.below(6) {
        0 => 999,
        1 => 1000,
        2 => 1001,
        3 => 1000 + r.below(64) as usize,
        4 => 2048 + r.below(3) as usize - 1,
        _ => 1000 + r.below(1600) as usize,
    };
    let ncols = 3;
    // NULL density per column: one NULL, a few, half, nearly all
    let dens: Vec<u64> = (0..ncols).map(|_| *r.pick(&[0u64, 1, 1, 4, 32, 500, 990])).collect();
    let tail_null: Vec<bool> = (0..ncols).map(|_| r.chance(1, 2)).collect();
    let spread = *r.pick(&[3i64, 50, 4000]);
    let mut rows: Vec<ParRow> = Vec::new();
    for k in 0..n_sel {
        if r.chance(1, 40) {
            rows.push((false, (0..ncols).map(|_| if r.chance(1, 3) { Value::Null } else { par_value(ty, r.range(-9000, 9000)) }).collect()));
        }
        rows.push((true, (0..ncols).map(|j| {
            let null = r.below(1000) < dens[j] || (tail_null[j] && k + 1 == n_sel);
            if null { Value::Null } else { par_value(ty, r.range(-spread, spread)) }
        }).collect()));
    }
    ParTable { name: format!("par-random-{idx}-{}-{n_sel}", ty_char(ty)), ty, placements: (0..ncols).map(|j| format!("density_{}_per_1000{}", dens[j], if tail_null[j] { "_and_last" } else { "" })).collect(), rows }
}

fn par_engine(ty: Ty, ncols: usize, rows: &[ParRow], hash_on_selector: bool) -> RelationalEngine {
    let e = RelationalEngine::new();
    let mut cols = vec![Column::new("c0".to_string(), ColumnType::Int)];
    for j in 0..ncols {
        cols.push(Column::new(format!("c{}", j + 1), ty_col(ty)).nullable());
    }
    e.create_table("t", Schema::new(cols)).expect("create_table");
    if hash_on_selector {
        e.create_index("t", "c0").expect("hash c0");
    }
    for chunk in rows.chunks(500) {
        let maps: Vec<HashMap<String, Value>> = chunk
            .iter()
            .map(|(sel, vs)| {
                let mut mp: HashMap<String, Value> = vs.iter().enumerate().map(|(j, v)| (format!("c{}", j + 1), v.clone())).collect();
                mp.insert("c0".to_string(), Value::Int(i64::from(*sel)));
                mp
            })
            .collect();
        e.batch_insert("t", maps).expect("batch_insert");
    }
    e
}

fn par_answers(e: &RelationalEngine, col: &str, ec: &Condition) -> AggAns {
    AggAns {
        countcol: match e.count_column("t", col, ec.clone()) {
            Ok(n) => format!("ok {n}"),
            Err(er) => format!("err {}", err_class(&er)),
        },
        sum: e.sum("t", col, ec.clone()).map_or_else(|er| format!("error:{}", evar(&er)), |x| tok(&Value::Float(x))),
        avg: e.avg("t", col, ec.clone()).map_or_else(|er| format!("error:{}", evar(&er)), |x| x.map_or("none".to_string(), |x| tok(&Value::Float(x)))),
        min: e.min("t", col, ec.clone()).map_or_else(|er| format!("error:{}", evar(&er)), |x| x.map_or("none".to_string(), |x| tok(&x))),
        max: e.max("t", col, ec.clone()).map_or_else(|er| format!("error:{}", evar(&er)), |x| x.map_or("none".to_string(), |x| tok(&x))),
    }
}

fn par_agg_field<'a>(a: &'a AggAns, name: &str) -> &'a String {
    match name {
        "count_column" => &a.countcol,
        "sum" => &a.sum,
        "avg" => &a.avg,
        "min" => &a.min,
        _ => &a.max,
    }
}

/// one-column table: does aggregate `name` over `c0 = 1` still differ from the aggregate of the selected values?
fn par_fails(ty: Ty, rows: &[(bool, Value)], name: &str, hash: bool) -> Option<(String, String)> {
    let full: Vec<ParRow> = rows.iter().map(|(s, v)| (*s, vec![v.clone()])).collect();
    let e = par_engine(ty, 1, &full, hash);
    let got = par_answers(&e, "c1", &Condition::Eq("c0".to_string(), Value::Int(1)));
    let vals: Vec<Option<Value>> = rows.iter().filter(|(s, _)| *s).map(|(_, v)| Some(v.clone())).collect();
    let want = agg_from_vals(&ColSel::Col(1), &vals);
    let (g, w) = (par_agg_field(&got, name), par_agg_field(&want, name));
    if g == w { None } else { Some((g.clone(), w.clone())) }
}

/// shrink a failing one-column table: drop blocks of rows (at most `budget` rebuilt engines), then replace
/// values by one constant where the failure stays
fn par_shrink(ty: Ty, rows: &[(bool, Value)], name: &str, hash: bool) -> Vec<(bool, Value)> {
    let mut cur = rows.to_vec();
    let mut budget = 160;
    let mut chunk = cur.len() / 2;
    while chunk >= 1 && budget > 0 {
        let mut i = 0;
        let mut progressed = false;
        while i < cur.len() && budget > 0 {
            let mut cand = cur.clone();
            let end = (i + chunk).min(cand.len());
            cand.drain(i..end);
            budget -= 1;
            if !cand.is_empty() && par_fails(ty, &cand, name, hash).is_some() {
                cur = cand;
                progressed = true;
            } else {
                i += chunk;
            }
        }
        if !progressed {
            chunk /= 2;
        }
    }
    // unselected rows one by one were covered by the blocks above only partly: drop them all if possible
    let only_sel: Vec<(bool, Value)> = cur.iter().filter(|(s, _)| *s).cloned().collect();
    if only_sel.len() < cur.len() && par_fails(ty, &only_sel, name, hash).is_some() {
        cur = only_sel;
    }
    // every non-NULL value but the first becomes the constant 1, the first becomes 0 / stays: try both
    for keep_first in [false, true] {
        let mut seen = false;
        let cand: Vec<(bool, Value)> = cur
            .iter()
            .map(|(s, v)| {
                if *v == Value::Null {
                    (*s, Value::Null)
                } else if keep_first && !seen {
                    seen = true;
                    (*s, par_value(ty, 0))
                } else {
                    (*s, par_value(ty, 1))
                }
            })
            .collect();
        if par_fails(ty, &cand, name, hash).is_some() {
            cur = cand;
            break;
        }
    }
    cur
}

/// run-length rendering of a one-column table: `<count>x<sel><value>` joined by spaces
fn par_show(rows: &[(bool, Value)]) -> String {
    let mut out: Vec<String> = Vec::new();
    let mut i = 0;
    while i < rows.len() {
        let mut j = i;
        while j < rows.len() && rows[j] == rows[i] {
            j += 1;
        }
        out.push(format!("{}x{}{}", j - i, if rows[i].0 { "+" } else { "-" }, tok(&rows[i].1)));
        i = j;
    }
    out.join(" ")
}

fn run_par_table(t: &ParTable, rep: &mut Report, m: &mut Model, model_live: &mut bool) {
    let ncols = t.placements.len();
    let cond = leaf(Cmp::Eq, 0, Value::Int(1));
    let ec = to_engine(&cond);
    let n_sel = t.rows.iter().filter(|(s, _)| *s).count();
    rep.case("par_agg.table", Some(&t.name));
    rep.hit(&format!("par_agg.selected.{}", if n_sel < 1000 { "below_threshold" } else if n_sel == 1000 { "at_threshold" } else if n_sel <= 1100 { "just_above_threshold" } else { "far_above_threshold" }));
    let engines = [("no_index", par_engine(t.ty, ncols, &t.rows, false)), ("hash_on_selector", par_engine(t.ty, ncols, &t.rows, true))];
    // the model holds the same table (engine without index: the model's `select` scans)
    let mut model_ok = *model_live;
    if model_ok {
        let ans = m.ask(&format!("new i0 {}", (0..ncols).map(|_| format!("{}1", ty_char(t.ty))).collect::<Vec<_>>().join(" ")));
        model_ok = ans == "ok";
        for chunk in t.rows.chunks(500) {
            let line = format!(
                "bins {} {}",
                chunk.len(),
                chunk.iter().map(|(s, vs)| format!("i{} {}", i64::from(*s), vs.iter().map(tok).collect::<Vec<_>>().join(" "))).collect::<Vec<_>>().join(" ")
            );
            let ma = m.ask(&line);
            model_ok = model_ok && ma.starts_with("ok");
        }
    }
    for (ename, e) in &engines {
        let img = image(e);
        if img.len() != t.rows.len() {
            viol(rep, "relational_engine.batch_insert/not_all_or_nothing", &format!("{} rows inserted in batches, the full scan has {}", t.rows.len(), img.len()), json!({"table": t.name}));
            continue;
        }
        let selected: Vec<&(u64, Vec<Value>)> = img.iter().filter(|(id, vs)| h_eval(&cond, *id, vs)).collect();
        // `select` itself over the large selection
        match e.select("t", ec.clone()) {
            Ok(rows) => {
                let mut ids = row_ids(&rows);
                ids.sort_unstable();
                let want: Vec<u64> = selected.iter().map(|(id, _)| *id).collect();
                if ids != want {
                    viol(rep, "relational_engine.select/wrong_rows_large_selection", &format!("select over {} matching rows ({ename}) returned {} rows", want.len(), ids.len()), json!({"table": t.name, "rows": t.rows.iter().map(|(s, vs)| format!("{}{}", if *s { "+" } else { "-" }, vs.iter().map(tok).collect::<Vec<_>>().join(","))).collect::<Vec<_>>().join(" ")}));
                    continue;
                }
            },
            Err(er) => {
                viol(rep, "relational_engine.select/error_large_selection", &format!("select failed: {}", evar(&er)), json!({"table": t.name}));
                continue;
            },
        }
        for j in 0..ncols {
            let cname = format!("c{}", j + 1);
            let vals: Vec<Option<Value>> = selected.iter().map(|(_, vs)| vs.get(j + 1).cloned()).collect();
            let want = agg_from_vals(&ColSel::Col(j + 1), &vals);
            let got = par_answers(e, &cname, &ec);
            rep.case(&format!("par_agg.{ename}"), None);
            rep.hit(&format!("par_agg.placement.{}", t.placements[j].split("_per_").next().unwrap_or("")));
            let mut flagged = false;
            for name in ["count_column", "sum", "avg", "min", "max"] {
                let (g, w) = (par_agg_field(&got, name), par_agg_field(&want, name));
                if g == w {
                    continue;
                }
                flagged = true;
                let one: Vec<(bool, Value)> = t.rows.iter().map(|(s, vs)| (*s, vs[j].clone())).collect();
                let hash = *ename == "hash_on_selector";
                let class = format!("relational_engine.{name}/{}", if n_sel >= 1000 { "large_selection_not_over_matching_rows" } else { "not_over_matching_rows" });
                let seen = rep.distribution.get(&format!("violation.{class}")).copied().unwrap_or(0);
                // the same column alone, then shrunk (only for the classes's first records: each trial rebuilds an engine)
                let (shown, outcome) = if seen < 3 {
                    match par_fails(t.ty, &one, name, hash) {
                        Some(_) => {
                            let sh = par_shrink(t.ty, &one, name, hash);
                            let o = par_fails(t.ty, &sh, name, hash);
                            (sh, o)
                        },
                        None => (one, None),
                    }
                } else {
                    (one, None)
                };
                let (g2, w2) = outcome.unwrap_or_else(|| (g.clone(), w.clone()));
                let sel2 = shown.iter().filter(|(s, _)| *s).count();
                viol(
                    rep,
                    &class,
                    &format!("{name}(c1) WHERE c0 = 1 over {sel2} selected rows ({ename}) answered {g2}; the {name} of exactly the selected rows, NULLs ignored, is {w2}"),
                    json!({"stream": "par_agg", "table": t.name, "placement": t.placements[j], "aggregate": name, "engine": ename, "column_type": format!("{:?}", t.ty),
                           "schema": "c0 Int (selector), c1 nullable", "condition": "c0 = 1", "selected_rows": sel2,
                           "rows (run-length, in insertion order: <count>x<+ selected | - not selected><c1 value>)": par_show(&shown),
                           "answered": g2, "expected": w2}),
                );
            }
            if model_ok && *ename == "no_index" {
                let ma = m.ask(&format!("q aggs {cname} {}", to_model(&cond)));
                let field = |k: &str| -> String {
                    ma.split(&format!("{k}=")).nth(1).map_or(String::new(), |r| {
                        let end = [" terms=", " min=", " max="].iter().filter_map(|t| r.find(t)).min().unwrap_or(r.len());
                        r[..end].to_string()
                    })
                };
                let (m_cc, m_terms, m_min, m_max) = (field("countcol"), field("terms"), field("min"), field("max"));
                let (m_sum, m_avg) = fold_terms(&m_terms);
                let mans = format!("countcol={m_cc} sum={m_sum} avg={m_avg} min={m_min} max={m_max}");
                let imp = if flagged { &want } else { &got };
                rep.case("model.par_agg", None);
                rep.compare("model.par_agg", || json!({"table": t.name, "column": cname, "placement": t.placements[j], "selected": n_sel, "note": if flagged { "model vs oracle (implementation violated the property on this input)" } else { "" }}), &format!("countcol={} sum={} avg={} min={} max={}", imp.countcol, imp.sum, imp.avg, imp.min, imp.max), &mans);
            }
        }
    }
    *model_live = model_ok;
}

/// directed tables first (both column types, 999 / 1000 / 1001 / 2500 selected rows), then random ones
fn par_aggregates(rep: &mut Report, m: &mut Model, r: &mut Rng, thorough: bool) {
    let mut model_live = true;
    for ty in [Ty::Int, Ty::Float] {
        for n in [1000usize, 999, 1001, 2500] {
            rep.hit("case.par_directed");
            run_par_table(&par_directed_table(ty, n), rep, m, &mut model_live);
        }
    }
    for idx in 0..(if thorough { 60 } else { 4 }) {
        rep.hit("case.par_random");
        run_par_table(&par_random_table(r, idx), rep, m, &mut model_live);
    }
    if !model_live {
        rep.note("par_agg: the model driver refused a table; the stream continued real-only");
    }
}

fn image_or_empty(e: &RelationalEngine) -> Img {
    image(e)
}

/// column / table names that are prefixes of one another (`a`/`ab`, `t`/`tab`): the store keys of the indexes
/// (`_idx:<table>:<column>:<hash>`, `_btree:<table>:<column>:<key>`) must not run into each other when an
/// index is dropped or rebuilt.  Oracle: the same query on a twin engine that never has an index.
fn prefix_names_probe(rep: &mut Report) {
    let mk = || {
        let e = RelationalEngine::new();
        for t in ["t", "tab"] {
            e.create_table(t, Schema::new(vec![Column::new("a", ColumnType::Int), Column::new("ab", ColumnType::Int), Column::new("abc", ColumnType::Int).nullable()])).expect("create_table");
            for k in 0..7_i64 {
                let _ = e.insert(t, HashMap::from([("a".to_string(), Value::Int(k % 3)), ("ab".to_string(), Value::Int(k % 2)), ("abc".to_string(), if k == 4 { Value::Null } else { Value::Int(k) })]));
            }
        }
        e
    };
    let (plain, idx) = (mk(), mk());
    let mut script: Vec<String> = Vec::new();
    let check = |script: &Vec<String>, rep: &mut Report| {
        for t in ["t", "tab"] {
            for col in ["a", "ab", "abc"] {
                for c in [Condition::Eq(col.into(), Value::Int(1)), Condition::Ge(col.into(), Value::Int(1)), Condition::Lt(col.into(), Value::Int(1)), Condition::Eq(col.into(), Value::Null)] {
                    let want = plain.select(t, c.clone()).map(|r| row_ids(&r)).unwrap_or_default();
                    let got = idx.select(t, c.clone()).map(|r| row_ids(&r));
                    let cnt = idx.count(t, c.clone()).ok();
                    rep.case("prefix_names", None);
                    if got.as_ref().ok() != Some(&want) || cnt != Some(want.len() as u64) {
                        viol(rep, "relational_engine.index_keys/prefix_named_index_interferes", &format!("table {t}, {c:?}: indexed engine answered {got:?} (count {cnt:?}), the engine without indexes {}", show_ids(&want)), json!({"script": script}));
                    }
                }
            }
        }
    };
    let steps: Vec<(&str, &str, &str)> = vec![
        ("create_index", "t", "a"), ("create_index", "t", "ab"), ("create_btree_index", "t", "ab"), ("create_btree_index", "t", "abc"),
        ("create_index", "tab", "ab"), ("create_btree_index", "tab", "a"),
        ("drop_index", "t", "a"), ("drop_btree_index", "t", "ab"), ("create_index", "t", "abc"), ("drop_index", "t", "ab"),
        ("create_btree_index", "t", "a"), ("drop_btree_index", "tab", "a"), ("drop_index", "tab", "ab"),
    ];
    for (k, (op, t, col)) in steps.iter().enumerate() {
        let r = match *op {
            "create_index" => idx.create_index(t, col),
            "create_btree_index" => idx.create_btree_index(t, col),
            "drop_index" => idx.drop_index(t, col),
            _ => idx.drop_btree_index(t, col),
        };
        script.push(format!("{op} {t}.{col} -> {}", if r.is_ok() { "ok" } else { "err" }));
        // a write between the index operations keeps the incremental maintenance in play
        for e in [&plain, &idx] {
            let _ = e.update(t, Condition::Eq("abc".into(), Value::Int(k as i64 % 7)), HashMap::from([("ab".to_string(), Value::Int(1)), ("a".to_string(), Value::Int(1))]));
        }
        script.push(format!("update {t} set a=1, ab=1 where abc={}", k % 7));
        check(&script, rep);
    }
}

/// One store, two engine objects (what `QueryRouter::with_shared_store` + a second `with_store` gives).
/// Outside the op-sequence quantifier of the property; reported as an observation, not a violation.
fn reopen_probe(rep: &mut Report) {
    let store = tensor_store::TensorStore::new();
    let e1 = RelationalEngine::with_store(store.clone());
    let _ = e1.create_table("t", Schema::new(vec![Column::new("c0", ColumnType::Float)]));
    let _ = e1.create_btree_index("t", "c0");
    for v in [-0.0_f64, 3.0] {
        let _ = e1.insert("t", HashMap::from([("c0".to_string(), Value::Float(v))]));
    }
    let e2 = RelationalEngine::with_store(store);
    let before = e2.select("t", Condition::Ge("c0".into(), Value::Float(-1.0))).map(|r| row_ids(&r)).unwrap_or_default();
    let _ = e2.insert("t", HashMap::from([("c0".to_string(), Value::Float(5.0))]));
    let after = e2.select("t", Condition::Ge("c0".into(), Value::Float(-1.0))).map(|r| row_ids(&r)).unwrap_or_default();
    rep.observe(json!({
        "what": "second RelationalEngine::with_store on a store that already holds a B-tree index: in-memory tree is not rebuilt; after one insert it holds only the new row",
        "ge_minus_one_before_insert": before, "ge_minus_one_after_insert": after, "expected_after": [1, 2, 3],
        "class_if_in_scope": "relational_engine.btree_index/stale_in_memory_tree_after_reopen",
    }));
}

fn main() {
    let args = parse_args();
    let mut rep = Report::new(
        "non-trivial case = op sequence with >= 1 successful state change and >= 1 query whose expected row set is non-empty; \
         every query runs select / select_with_limit / count / select_columnar / select_iter / streaming cursor on three engines \
         (no index, every index, generated index set) plus router text for a subset; the cursor with max_rows and \
         count_column / sum / avg / min / max run on the generated-index engine for every query and on the other two \
         for every second query",
    );
    let root = Rng::new(args.seed);
    let mut m = Model::spawn(&args.driver);
    let (n_cases, n_ops, n_queries) = if args.thorough { (1500, 60, 30) } else { (260, 40, 22) };
    let mut text_budget: u64 = if args.thorough { 75_000 } else { 11_000 };

    value_semantics(&mut rep, &mut m, &mut root.fork("values"), if args.thorough { 20_000 } else { 4_000 });
    // `--only-moves` (diagnostic, never used by `check`): the `moves` stream alone, to measure what it finds
    // without the directed cases
    let only_moves = args.extra.iter().any(|x| x == "--only-moves");
    for case in bucket_order_cases().into_iter().chain(directed_cases(args.thorough)) {
        if only_moves {
            break;
        }
        rep.hit("case.directed");
        run_case_shrinking(&case, &mut rep, &mut m, &mut text_budget);
    }
    if !only_moves {
        par_aggregates(&mut rep, &mut m, &mut root.fork("par_agg"), args.thorough);
    }
    let rm = root.fork("moves");
    for idx in 0..(if args.thorough { 900 } else { 60 }) {
        let case = gen_moves_case(&rm, idx);
        rep.hit("case.moves");
        run_case_shrinking(&case, &mut rep, &mut m, &mut text_budget);
    }
    let mut r = root.fork("cases");
    for idx in 0..(if only_moves { 0 } else { n_cases }) {
        let case = gen_case(&mut r, idx, n_ops, n_queries);
        rep.hit("case.random");
        run_case_shrinking(&case, &mut rep, &mut m, &mut text_budget);
    }
    depth_rows(&mut rep, &mut m, &mut root.fork("depth_rows"), if args.thorough { 20_000 } else { 2_500 });
    depth_engine(&mut rep, &mut m, &mut root.fork("depth_engine"), if args.thorough { 2_000 } else { 120 });
    prefix_names_probe(&mut rep);
    reopen_probe(&mut rep);
    rep.expected_branches = ["br.select.hash", "br.select.btree", "br.select.scan", "br.columnar.vec", "br.columnar.scan", "br.columnar.hash", "br.columnar.btree"]
        .iter()
        .map(|s| (*s).to_string())
        .collect();
    rep.note("hash buckets of strings/bytes are modelled by content (DefaultHasher collisions only enlarge a bucket; every index hit is re-checked)");
    rep.note("JSON columns: the model carries the tree (equality, hash bucket) and the text rendered by serde_json (order, B-tree key); JSON floats are small dyadic numbers (their text parses back exactly)");
    rep.note("joins, GROUP BY / DISTINCT, ORDER BY, ALTER TABLE are not modelled; condition trees of the table streams have depth <= 3, the depth_* streams use depth <= 6 under max_condition_depth <= 6");
    rep.note("sum / avg: the model gives the list of addends in order, the f64 additions are done by the harness; the rayon branch (>= 1000 selected rows) is exercised in both tiers by the par_agg stream on nullable Int and Float columns whose sums are exact in every order (integers, multiples of 0.25)");
    rep.write(&args.out);
}
